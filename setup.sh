#!/bin/sh
# Builds everything the checks need from files on disk only (offline): the Kani harness crate against /repo, the
# native replay binary, and the MIR dump of radix-common. All three are incremental: the checks re-run the same
# cargo commands, so a later edit under /repo is picked up by cargo's fingerprinting.
set -e
cd "$(dirname "$0")"
export CARGO_NET_OFFLINE=true
unset RUSTUP_TOOLCHAIN CARGO_TARGET_DIR RUSTFLAGS || true
exec python3-vt lib/setup.py
