//! Native replay / translator self-test oracle for Engine M: calls the REAL radix-common functions with
//! concrete arguments read from stdin (one request per line) and prints one result line per request.
//! Line format: `<op> <arg>...`; integers in decimal.  Output: `some <int>` | `none` | `ok <ints..>` | `err` |
//! `panic <msg>` | `val <ints..>`.
use radix_common::math::*;
use radix_common::time::*;
use radix_common::data::manifest::model::*;
use radix_common::prelude::{IndexSet, NonFungibleLocalId};
use std::io::BufRead;
use std::str::FromStr;

fn i192(s: &str) -> I192 {
    I192::from_str(s).expect("i192")
}
fn i256(s: &str) -> I256 {
    I256::from_str(s).expect("i256")
}
fn dec(s: &str) -> Decimal {
    Decimal::from_attos(i192(s))
}
fn pdec(s: &str) -> PreciseDecimal {
    PreciseDecimal::from_precise_subunits(i256(s))
}
fn mode(s: &str) -> RoundingMode {
    match s.parse::<u8>().unwrap() {
        0 => RoundingMode::ToPositiveInfinity,
        1 => RoundingMode::ToNegativeInfinity,
        2 => RoundingMode::ToZero,
        3 => RoundingMode::AwayFromZero,
        4 => RoundingMode::ToNearestMidpointTowardZero,
        5 => RoundingMode::ToNearestMidpointAwayFromZero,
        6 => RoundingMode::ToNearestMidpointToEven,
        _ => panic!("mode"),
    }
}
fn od(o: Option<Decimal>) -> String {
    match o {
        Some(d) => format!("some {}", d.attos()),
        None => "none".to_string(),
    }
}
fn op(o: Option<PreciseDecimal>) -> String {
    match o {
        Some(d) => format!("some {}", d.precise_subunits()),
        None => "none".to_string(),
    }
}
fn dt(a: &[&str]) -> Result<UtcDateTime, DateTimeError> {
    UtcDateTime::new(
        a[0].parse().unwrap(),
        a[1].parse().unwrap(),
        a[2].parse().unwrap(),
        a[3].parse().unwrap(),
        a[4].parse().unwrap(),
        a[5].parse().unwrap(),
    )
}
fn fdt(d: &UtcDateTime) -> String {
    format!(
        "{} {} {} {} {} {}",
        d.year(),
        d.month(),
        d.day_of_month(),
        d.hour(),
        d.minute(),
        d.second()
    )
}
fn odt(o: Option<UtcDateTime>) -> String {
    match o {
        Some(d) => format!("some {}", fdt(&d)),
        None => "none".to_string(),
    }
}

fn idset(a: &[&str]) -> IndexSet<NonFungibleLocalId> {
    a.iter().map(|x| NonFungibleLocalId::integer(x.parse().unwrap())).collect()
}

/// mrc <variant 0..5> <amount a> <lower kind 0 NonZero|1 Inclusive> <lower value> <upper kind 0 Inclusive|1 Unbounded>
///     <upper value> <n set ids> <ids...>   builds a ManifestResourceConstraint (General = fungible form, no id sets)
fn mrc(a: &[&str]) -> (ManifestResourceConstraint, usize) {
    let n: usize = a[6].parse().unwrap();
    let set = idset(&a[7..7 + n]);
    let c = match a[0] {
        "0" => ManifestResourceConstraint::NonZeroAmount,
        "1" => ManifestResourceConstraint::ExactAmount(dec(a[1])),
        "2" => ManifestResourceConstraint::AtLeastAmount(dec(a[1])),
        "3" => ManifestResourceConstraint::ExactNonFungibles(set),
        "4" => ManifestResourceConstraint::AtLeastNonFungibles(set),
        _ => ManifestResourceConstraint::General(GeneralResourceConstraint {
            required_ids: Default::default(),
            lower_bound: if a[2] == "0" { LowerBound::NonZero } else { LowerBound::Inclusive(dec(a[3])) },
            upper_bound: if a[4] == "0" { UpperBound::Inclusive(dec(a[5])) } else { UpperBound::Unbounded },
            allowed_ids: AllowedIds::Any,
        }),
    };
    (c, 7 + n)
}

/// grc <lower kind> <lower value> <upper kind> <upper value> <n required> <ids..> <allowed kind 0 list|1 any> <n allowed>
///     <ids..>   builds a ManifestResourceConstraint::General with id sets; returns it and the number of tokens used
fn grc(a: &[&str]) -> (ManifestResourceConstraint, usize) {
    let nr: usize = a[4].parse().unwrap();
    let required = idset(&a[5..5 + nr]);
    let k = 5 + nr;
    let na: usize = a[k + 1].parse().unwrap();
    let allowed = idset(&a[k + 2..k + 2 + na]);
    let c = ManifestResourceConstraint::General(GeneralResourceConstraint {
        required_ids: required,
        lower_bound: if a[0] == "0" { LowerBound::NonZero } else { LowerBound::Inclusive(dec(a[1])) },
        upper_bound: if a[2] == "0" { UpperBound::Inclusive(dec(a[3])) } else { UpperBound::Unbounded },
        allowed_ids: if a[k] == "1" { AllowedIds::Any } else { AllowedIds::Allowlist(allowed) },
    });
    (c, k + 2 + na)
}

/// the 14 entity HRPs of a network in HrpSet field order, then a transaction-part HRP
fn hrp_table(suffix: &str) -> Vec<String> {
    ["package", "resource", "component", "account", "identity", "consensusmanager", "validator", "accesscontroller", "pool",
     "locker", "transactiontracker", "internal_vault", "internal_component", "internal_keyvaluestore", "txid"]
        .iter()
        .map(|p| format!("{}_{}", p, suffix))
        .collect()
}

/// addr_decode <bech32 decodable 0|1> <hrp 0..14 simulator table | 15 same prefix on another network | 16 unrelated>
///             <variant 0 Bech32|1 Bech32m> <base32 payload valid 0|1> <data length 0..2 (2 = full 30 bytes)> <entity byte>
/// builds the text with the bech32 crate and runs the REAL AddressBech32Decoder::validate_and_decode (simulator network)
fn addr_decode(a: &[&str]) -> String {
    use bech32::ToBase32;
    let n = |t: &str| -> usize { t.parse().unwrap() };
    let (dec_ok, hrp, variant, b32_ok, len, eb) = (n(a[0]), n(a[1]), n(a[2]), n(a[3]), n(a[4]), n(a[5]) as u8);
    let sim = hrp_table("sim");
    let hrp_s = if hrp < 15 {
        sim[hrp].clone()
    } else if hrp == 15 {
        // the HRP the entity byte would have on another network
        "account_tdx_2_".to_string()
    } else {
        "unrelated".to_string()
    };
    let text = if dec_ok == 0 {
        format!("{}1notbech32", hrp_s)
    } else {
        let var = if variant == 1 { bech32::Variant::Bech32m } else { bech32::Variant::Bech32 };
        let data: Vec<bech32::u5> = if b32_ok == 0 {
            vec![bech32::u5::try_from_u8(1).unwrap()]
        } else {
            let mut bytes = vec![];
            if len >= 1 {
                bytes.push(eb);
            }
            if len >= 2 {
                bytes.extend([7u8; 29]);
            }
            bytes.to_base32()
        };
        bech32::encode(&hrp_s, data, var).unwrap()
    };
    let d = radix_common::address::AddressBech32Decoder::for_simulator();
    match d.validate_and_decode(&text) {
        Ok((e, data)) => format!("ok {} {}", e as u8, data.len()),
        Err(_) => "err".to_string(),
    }
}

/// addr_encode <data length 0..2> <entity byte>: REAL AddressBech32Encoder::encode (simulator), then the HRP of the text
/// as an index into the simulator table; prints `ok <hrp index> <round trip through the real decoder 0|1>` or `err`
fn addr_encode(a: &[&str]) -> String {
    let n = |t: &str| -> usize { t.parse().unwrap() };
    let (len, eb) = (n(a[0]), n(a[1]) as u8);
    let mut bytes = vec![];
    if len >= 1 {
        bytes.push(eb);
    }
    if len >= 2 {
        bytes.extend([7u8; 29]);
    }
    let e = radix_common::address::AddressBech32Encoder::for_simulator();
    match e.encode(&bytes) {
        Ok(text) => {
            let hrp = text.rsplitn(2, '1').last().unwrap().to_string();
            let idx = hrp_table("sim").iter().position(|h| *h == hrp).map(|i| i as i64).unwrap_or(-1);
            let d = radix_common::address::AddressBech32Decoder::for_simulator();
            let rt = matches!(d.validate_and_decode(&text), Ok((_, ref back)) if *back == bytes);
            format!("ok {} {}", idx, rt as u8)
        }
        Err(_) => "err".to_string(),
    }
}

fn run(a: &[&str]) -> String {
    match a[0] {
        "nfid_kind" => {
            match NonFungibleLocalId::from_str(&String::from_utf8(hex(a.get(1).copied().unwrap_or(""))).unwrap()) {
                Ok(id) => {
                    // the text form is lossless: Display of the parsed id is the input again
                    let back = id.to_string().into_bytes() == hex(a.get(1).copied().unwrap_or(""));
                    let k = match id {
                        NonFungibleLocalId::String(_) => 0,
                        NonFungibleLocalId::Integer(_) => 1,
                        NonFungibleLocalId::Bytes(_) => 2,
                        NonFungibleLocalId::RUID(_) => 3,
                    };
                    format!("ok {} {}", k, back as u8)
                }
                Err(_) => "err".to_string(),
            }
        }
        "round_progress" => {
            match radix_common::types::Round::calculate_progress(
                radix_common::types::Round::of(a[1].parse().unwrap()),
                radix_common::types::Round::of(a[2].parse().unwrap()),
            ) {
                Some(d) => format!("some {}", d),
                None => "none".to_string(),
            }
        }
        "addr_decode" => addr_decode(&a[1..]),
        "addr_encode" => addr_encode(&a[1..]),
        "grc_normalize" => {
            // grc_normalize <general constraint tokens..> <n balance ids> <ids..>: acceptance of the balance by the constraint
            // before and after GeneralResourceConstraint::normalize -> `val <before 0|1> <after 0|1> <valid 0|1>`
            let (c, k) = grc(&a[1..]);
            let m: usize = a[1 + k].parse().unwrap();
            let ids = idset(&a[2 + k..2 + k + m]);
            let valid = c.is_valid_for_non_fungible_use();
            let before = c.clone().validate_non_fungible(&ids).is_ok();
            let after = match c {
                ManifestResourceConstraint::General(mut g) => {
                    g.normalize();
                    g.validate_non_fungible_ids(&ids).is_ok()
                }
                _ => unreachable!(),
            };
            format!("val {} {} {}", before as u8, after as u8, valid as u8)
        }
        "grc_valid_nf" => {
            let (c, _) = grc(&a[1..]);
            format!("val {}", if c.is_valid_for_non_fungible_use() { 1 } else { 0 })
        }
        "grc_valid_f" => {
            let (c, _) = grc(&a[1..]);
            format!("val {}", if c.is_valid_for_fungible_use() { 1 } else { 0 })
        }
        "mrc_valid_nf" => {
            let (c, _) = mrc(&a[1..]);
            format!("val {}", if c.is_valid_for_non_fungible_use() { 1 } else { 0 })
        }
        "grc_nf" => {
            let (c, k) = grc(&a[1..]);
            let m: usize = a[1 + k].parse().unwrap();
            let ids = idset(&a[2 + k..2 + k + m]);
            match c.validate_non_fungible(&ids) {
                Ok(()) => "ok 0".to_string(),
                Err(_) => "err".to_string(),
            }
        }
        "nfid_from_str" => {
            match NonFungibleLocalId::from_str(&String::from_utf8(hex(a.get(1).copied().unwrap_or(""))).unwrap()) {
                Ok(NonFungibleLocalId::Integer(v)) => format!("ok {}", v.value()),
                Ok(_) => "other".to_string(),
                Err(_) => "err".to_string(),
            }
        }
        "mrc_fungible" => {
            let (c, k) = mrc(&a[1..]);
            match c.validate_fungible(dec(a[1 + k])) {
                Ok(()) => "ok 0".to_string(),
                Err(_) => "err".to_string(),
            }
        }
        "mrc_valid_fungible" => {
            let (c, _) = mrc(&a[1..]);
            format!("val {}", if c.is_valid_for_fungible_use() { 1 } else { 0 })
        }
        "mrc_nf" => {
            let (c, k) = mrc(&a[1..]);
            let m: usize = a[1 + k].parse().unwrap();
            let ids = idset(&a[2 + k..2 + k + m]);
            match c.validate_non_fungible(&ids) {
                Ok(()) => "ok 0".to_string(),
                Err(_) => "err".to_string(),
            }
        }
        "dec_mul" => od(dec(a[1]).checked_mul(dec(a[2]))),
        "dec_div" => od(dec(a[1]).checked_div(dec(a[2]))),
        "dec_add" => od(dec(a[1]).checked_add(dec(a[2]))),
        "dec_sub" => od(dec(a[1]).checked_sub(dec(a[2]))),
        "pdec_mul" => op(pdec(a[1]).checked_mul(pdec(a[2]))),
        "pdec_div" => op(pdec(a[1]).checked_div(pdec(a[2]))),
        "dec_round" => od(dec(a[1]).checked_round(a[2].parse::<i32>().unwrap(), mode(a[3]))),
        "pdec_round" => op(pdec(a[1]).checked_round(a[2].parse::<i32>().unwrap(), mode(a[3]))),
        "pdec_add" => op(pdec(a[1]).checked_add(pdec(a[2]))),
        "pdec_sub" => op(pdec(a[1]).checked_sub(pdec(a[2]))),
        "dec_neg" => od(dec(a[1]).checked_neg()),
        "dec_abs" => od(dec(a[1]).checked_abs()),
        "pdec_neg" => op(pdec(a[1]).checked_neg()),
        "pdec_abs" => op(pdec(a[1]).checked_abs()),
        "pdec_floor" => op(pdec(a[1]).checked_floor()),
        "pdec_ceiling" => op(pdec(a[1]).checked_ceiling()),
        "pdec_sqrt" => op(pdec(a[1]).checked_sqrt()),
        "pdec_cbrt" => op(pdec(a[1]).checked_cbrt()),
        "pdec_powi" => op(pdec(a[1]).checked_powi(a[2].parse::<i64>().unwrap())),
        "dec_nth_root" => od(dec(a[1]).checked_nth_root(a[2].parse::<u32>().unwrap())),
        "pdec_nth_root" => op(pdec(a[1]).checked_nth_root(a[2].parse::<u32>().unwrap())),
        "dec_from_i64" => format!("val {}", Decimal::from(a[1].parse::<i64>().unwrap()).attos()),
        "dec_from_u64" => format!("val {}", Decimal::from(a[1].parse::<u64>().unwrap()).attos()),
        "dec_from_i128" => format!("val {}", Decimal::from(a[1].parse::<i128>().unwrap()).attos()),
        "dec_from_u128" => format!("val {}", Decimal::from(a[1].parse::<u128>().unwrap()).attos()),
        "pdec_from_i128" => format!("val {}", PreciseDecimal::from(a[1].parse::<i128>().unwrap()).precise_subunits()),
        "pdec_from_u128" => format!("val {}", PreciseDecimal::from(a[1].parse::<u128>().unwrap()).precise_subunits()),
        "dec_to_i64" => match i64::try_from(dec(a[1])) {
            Ok(v) => format!("ok {}", v),
            Err(_) => "err".to_string(),
        },
        "dec_to_u64" => match u64::try_from(dec(a[1])) {
            Ok(v) => format!("ok {}", v),
            Err(_) => "err".to_string(),
        },
        "dec_to_i128" => match i128::try_from(dec(a[1])) {
            Ok(v) => format!("ok {}", v),
            Err(_) => "err".to_string(),
        },
        "dec_to_u8" => match u8::try_from(dec(a[1])) {
            Ok(v) => format!("ok {}", v),
            Err(_) => "err".to_string(),
        },
        "instant_add" => {
            let i = Instant::new(a[2].parse().unwrap());
            let k: i64 = a[3].parse().unwrap();
            let r = match a[1] {
                "days" => i.add_days(k),
                "hours" => i.add_hours(k),
                "minutes" => i.add_minutes(k),
                _ => i.add_seconds(k),
            };
            match r {
                Some(x) => format!("some {}", x.seconds_since_unix_epoch),
                None => "none".to_string(),
            }
        }
        "dec_floor" => od(dec(a[1]).checked_floor()),
        "dec_ceiling" => od(dec(a[1]).checked_ceiling()),
        "dec_sqrt" => od(dec(a[1]).checked_sqrt()),
        "dec_cbrt" => od(dec(a[1]).checked_cbrt()),
        "dec_powi" => od(dec(a[1]).checked_powi(a[2].parse::<i64>().unwrap())),
        "pdec_from_dec" => format!("val {}", PreciseDecimal::from(dec(a[1])).precise_subunits()),
        "dec_try_from_pdec" => match Decimal::try_from(pdec(a[1])) {
            Ok(d) => format!("ok {}", d.attos()),
            Err(_) => "err".to_string(),
        },
        "pdec_truncate" => match pdec(a[1]).checked_truncate(mode(a[2])) {
            Some(d) => format!("some {}", d.attos()),
            None => "none".to_string(),
        },
        "utc_new" => match dt(&a[1..]) {
            Ok(d) => format!("ok {}", fdt(&d)),
            Err(_) => "err".to_string(),
        },
        "utc_from_instant" => match UtcDateTime::from_instant(&Instant::new(a[1].parse().unwrap())) {
            Ok(d) => format!("ok {}", fdt(&d)),
            Err(_) => "err".to_string(),
        },
        "utc_to_instant" => match dt(&a[1..]) {
            Ok(d) => format!("val {}", d.to_instant().seconds_since_unix_epoch),
            Err(_) => "invalid-input".to_string(),
        },
        "utc_add_days" => odt(dt(&a[2..]).unwrap().add_days(a[1].parse().unwrap())),
        "utc_add_hours" => odt(dt(&a[2..]).unwrap().add_hours(a[1].parse().unwrap())),
        "utc_add_minutes" => odt(dt(&a[2..]).unwrap().add_minutes(a[1].parse().unwrap())),
        "utc_add_seconds" => odt(dt(&a[2..]).unwrap().add_seconds(a[1].parse().unwrap())),
        "utc_from_str" => match UtcDateTime::from_str(&String::from_utf8(hex(a[1])).unwrap()) {
            Ok(d) => format!("ok {}", fdt(&d)),
            Err(_) => "err".to_string(),
        },
        "dec_from_str" => match Decimal::from_str(&String::from_utf8(hex(a.get(1).copied().unwrap_or(""))).unwrap()) {
            Ok(d) => format!("ok {}", d.attos()),
            Err(_) => "err".to_string(),
        },
        "pdec_from_str" => match PreciseDecimal::from_str(&String::from_utf8(hex(a.get(1).copied().unwrap_or(""))).unwrap()) {
            Ok(d) => format!("ok {}", d.precise_subunits()),
            Err(_) => "err".to_string(),
        },
        "dec_to_string" => format!("str {}", dec(a[1])),
        _ => "unknown-op".to_string(),
    }
}

fn hex(s: &str) -> Vec<u8> {
    (0..s.len() / 2).map(|i| u8::from_str_radix(&s[2 * i..2 * i + 2], 16).unwrap()).collect()
}

fn main() {
    std::panic::set_hook(Box::new(|_| {}));
    let stdin = std::io::stdin();
    for line in stdin.lock().lines() {
        let line = line.unwrap();
        let a: Vec<&str> = line.split_whitespace().collect();
        if a.is_empty() {
            continue;
        }
        let r = std::panic::catch_unwind(|| run(&a));
        match r {
            Ok(s) => println!("{}", s),
            Err(e) => {
                let m = e
                    .downcast_ref::<String>()
                    .cloned()
                    .or_else(|| e.downcast_ref::<&str>().map(|s| s.to_string()))
                    .unwrap_or_default();
                println!("panic {}", m.replace('\n', " "))
            }
        }
    }
}
