"""Library model table: exact integer semantics (including failure conditions) of the std / bnum primitives the
encoded kernels call. This table is the trusted base of Engine M and is listed in every evidence file.

Each handler: h(interp, path, args, ret_ty, callee) -> V | [Outcome].
"""
import re
import z3

from .values import (V, IntV, BoolV, StructV, EnumV, RefV, UnitV, StrV, StrSymV, FnV, UndefV, int_range, is_int_ty,
                     norm_ty, concrete, zint, ite_value, BIG_RE, INT_TYPES)

MODELS = []       # (compiled regex on normalised callee, handler, description)
DESCRIPTIONS = []


def model(pattern, desc, force=False):
    """force=True: the model replaces a body that exists in the MIR dump (repo code that cannot be executed
    symbolically, e.g. conversions that go through strings); listed as an assumption of the jobs that use it."""
    def deco(fn):
        fn.force = force
        MODELS.append((re.compile(pattern), fn))
        DESCRIPTIONS.append("%s :: %s" % (pattern, desc))
        return fn
    return deco


def canon(callee):
    """normalised callee path; `BInt::<3>::f` and `<impl BInt<3>>::f` are the same function"""
    callee = re.sub(r"^num_bigint::BigInt::(\w+)$", r"<impl BigInt>::\1", callee.strip())
    callee = re.sub(r"^bnum::errors::ParseIntError::(\w+)$", r"<impl BnumParseIntError>::\1", callee)
    callee = re.sub(r"^(?:std|alloc)::string::String::(\w+)$", r"<impl String>::\1", callee)
    n = norm_ty(callee)
    n = re.sub(r"^(BInt|BUint)::<(\d+)>::(\w+)$", r"<impl \1<\2>>::\3", n)
    return n


def lookup(callee):
    n = canon(callee)
    for rx, fn in MODELS:
        if rx.search(n):
            return fn
    return None


def Outcome(*a, **k):
    from .interp import Outcome as O
    return O(*a, **k)


def Refuse(msg):
    from .interp import Refuse as R
    return R(msg)


# ---------------------------------------------------------------- helpers
def deref(interp, path, v):
    while v.kind == "ref":
        if hasattr(v, "target"):
            v = v.target
        else:
            v = interp.read(path, v.fid, v.local, v.projs)
    return v


def option(ty, is_some, payload):
    return EnumV(ty, z3.If(is_some, 1, 0) if not isinstance(is_some, bool) else (1 if is_some else 0),
                 {0: [], 1: [payload]})


def some(ty, payload):
    return EnumV(ty, 1, {1: [payload]})


def none(ty):
    return EnumV(ty, 0, {0: []})


def in_range(t, ty):
    lo, hi = int_range(ty)
    return z3.And(t >= lo, t <= hi)


def inner_ty(ty):
    """Option<T> -> T ; Result<T, E> -> T"""
    m = re.match(r"^\w+<(.*)>$", ty)
    if not m:
        return "?"
    from .parser import split_top
    return split_top(m.group(1))[0]


def fork_enum(interp, path, e, cases):
    """cases: {discr_value: fn(path) -> [Outcome]} ; forks on the discriminant of enum value e."""
    conds = [(e.discr == k, k) for k in cases]
    outs = []
    for p, k in interp.fork(path, conds):
        outs.extend(cases[k](p))
    return outs


def int_ty_of_path(callee):
    m = re.search(r"<impl (\w+(?:<\d+>)?)>", canon(callee))
    return m.group(1) if m else None


# ---------------------------------------------------------------- checked / wrapping integer arithmetic
def _arith(op, x, y):
    from .interp import Interp
    if op == "add":
        return x + y, None
    if op == "sub":
        return x - y, None
    if op == "mul":
        return x * y, None
    if op == "div":
        return Interp.tdiv(x, y), y == 0
    if op == "rem":
        return Interp.trem(x, y), y == 0
    raise Refuse("arith " + op)


@model(r"<impl (BInt<\d+>|BUint<\d+>|[iu](8|16|32|64|128|size))>::checked_(add|sub|mul|div|rem)$",
       "exact result when inside the type's range and divisor != 0, else None")
def m_checked(interp, path, args, ret_ty, callee):
    ty = int_ty_of_path(callee)
    op = re.search(r"checked_(\w+)$", callee).group(1)
    x, y = args[0].term, args[1].term
    r, fail = _arith(op, x, y)
    ok = in_range(r, ty)
    if fail is not None:
        ok = z3.And(z3.Not(fail), ok)
        r = z3.If(fail, 0, r)   # keep the term total
    return option(ret_ty or "Option<%s>" % ty, ok, IntV(r, ty))


@model(r"<impl (BInt<\d+>|BUint<\d+>|[iu](8|16|32|64|128|size))>::checked_(div|rem)_euclid$",
       "euclidean quotient / remainder (remainder >= 0); None for divisor 0 or a quotient outside the range (MIN / -1)")
def m_checked_euclid(interp, path, args, ret_ty, callee):
    ty = int_ty_of_path(callee)
    x, y = args[0].term, args[1].term
    # z3's Int div / mod are the Euclidean ones for either sign of the divisor
    r = (x / y) if "checked_div_euclid" in callee else (x % y)
    ok = z3.And(y != 0, in_range(r, ty))
    r = z3.If(y == 0, 0, r)
    return option(ret_ty or "Option<%s>" % ty, ok, IntV(r, ty))


@model(r"<impl (BInt<\d+>|i(8|16|32|64|128|size))>::checked_(neg|abs)$", "None only for MIN")
def m_checked_neg(interp, path, args, ret_ty, callee):
    ty = int_ty_of_path(callee)
    x = args[0].term
    lo, hi = int_range(ty)
    if callee.endswith("neg"):
        return option(ret_ty, x != lo, IntV(-x, ty))
    return option(ret_ty, x != lo, IntV(z3.If(x < 0, -x, x), ty))


@model(r"<impl (BInt<\d+>|BUint<\d+>|[iu](8|16|32|64|128|size))>::checked_pow$",
       "x^e by repeated multiplication for concrete e (or symbolic e bounded by an ite chain up to 40), None when "
       "out of range")
def m_checked_pow(interp, path, args, ret_ty, callee):
    ty = int_ty_of_path(callee)
    x, e = args[0].term, args[1].term
    r = _pow(x, e, 40)
    return option(ret_ty, in_range(r, ty), IntV(r, ty))


def _pow(x, e, max_e):
    ce = concrete(e)
    cx = concrete(x)
    if ce is not None:
        if cx is not None:
            return zint(cx ** ce)
        r = zint(1)
        for _ in range(ce):
            r = r * x
        return r
    if cx is None:
        raise Refuse("pow with symbolic base and exponent")
    # symbolic exponent, concrete base: ite chain (exponents above max_e are refused by the caller's range)
    r = zint(cx ** max_e)
    for k in range(max_e - 1, -1, -1):
        r = z3.If(e == k, zint(cx ** k), r)
    return r


@model(r"<impl [iu](8|16|32|64|128|size)>::pow$", "primitive pow; overflow panics (overflow-checks on)")
def m_prim_pow(interp, path, args, ret_ty, callee):
    ty = int_ty_of_path(callee)
    r = _pow(args[0].term, args[1].term, 40)
    outs = []
    for p, tag in interp.fork(path, [(in_range(r, ty), "ok"), (z3.Not(in_range(r, ty)), "ovf")]):
        if tag == "ok":
            outs.append(Outcome(p, "ret", IntV(r, ty)))
        else:
            outs.append(Outcome(p, "panic", msg="attempt to multiply with overflow (pow)"))
    return outs


@model(r"<impl [iu](8|16|32|64|128|size)>::wrapping_(add|sub|mul)$", "two's complement wrap")
def m_wrapping(interp, path, args, ret_ty, callee):
    ty = int_ty_of_path(callee)
    op = re.search(r"wrapping_(\w+)$", callee).group(1)
    r, _ = _arith(op, args[0].term, args[1].term)
    return IntV(interp.wrap(r, ty), ty)


@model(r"<impl (BInt<\d+>|BUint<\d+>|[iu](8|16|32|64|128|size))>::saturating_(add|sub|mul)$", "clamp to range")
def m_saturating(interp, path, args, ret_ty, callee):
    ty = int_ty_of_path(callee)
    op = re.search(r"saturating_(\w+)$", callee).group(1)
    r, _ = _arith(op, args[0].term, args[1].term)
    lo, hi = int_range(ty)
    return IntV(z3.If(r < lo, lo, z3.If(r > hi, hi, r)), ty)


@model(r"<impl [iu](8|16|32|64|128|size)>::overflowing_(add|sub|mul)$", "(wrapped, overflowed)")
def m_overflowing(interp, path, args, ret_ty, callee):
    ty = int_ty_of_path(callee)
    op = re.search(r"overflowing_(\w+)$", callee).group(1)
    r, _ = _arith(op, args[0].term, args[1].term)
    return StructV("(%s, bool)" % ty, [IntV(interp.wrap(r, ty), ty), BoolV(z3.Not(in_range(r, ty)))])


@model(r"<impl i(8|16|32|64|128|size)>::(rem_euclid|div_euclid)$", "euclidean division; divisor 0 / MIN,-1 panic")
def m_euclid(interp, path, args, ret_ty, callee):
    ty = int_ty_of_path(callee)
    x, y = args[0].term, args[1].term
    lo, hi = int_range(ty)
    bad = z3.Or(y == 0, z3.And(x == lo, y == -1))
    outs = []
    for p, tag in interp.fork(path, [(z3.Not(bad), "ok"), (bad, "bad")]):
        if tag == "bad":
            outs.append(Outcome(p, "panic", msg="euclid division by zero / overflow"))
        else:
            # z3 Int div/mod are Euclidean for any sign of divisor
            r = (x % y) if callee.endswith("rem_euclid") else (x / y)
            outs.append(Outcome(p, "ret", IntV(r, ty)))
    return outs


@model(r"<impl i(8|16|32|64|128|size)>::(abs|unsigned_abs)$", "absolute value (abs of MIN panics)")
def m_abs(interp, path, args, ret_ty, callee):
    ty = int_ty_of_path(callee)
    x = args[0].term
    lo, hi = int_range(ty)
    if callee.endswith("unsigned_abs"):
        return IntV(z3.If(x < 0, -x, x), "u" + ty[1:])
    outs = []
    for p, tag in interp.fork(path, [(x != lo, "ok"), (x == lo, "bad")]):
        if tag == "ok":
            outs.append(Outcome(p, "ret", IntV(z3.If(x < 0, -x, x), ty)))
        else:
            outs.append(Outcome(p, "panic", msg="abs overflow"))
    return outs


# ---------------------------------------------------------------- bnum operators (panicking forms)
@model(r"^<(BInt<\d+>|BUint<\d+>) as (Rem|Div)(<[^>]*>)?>::(rem|div)$",
       "truncating division/remainder; divisor 0 panics; MIN/-1 panics (overflow)")
def m_bnum_rem(interp, path, args, ret_ty, callee):
    from .interp import Interp
    ty = norm_ty(re.match(r"^<(.+?) as", norm_ty(callee)).group(1))
    x, y = args[0].term, args[1].term
    lo, hi = int_range(ty)
    bad = y == 0
    if lo < 0:
        bad = z3.Or(bad, z3.And(x == lo, y == -1))
    outs = []
    for p, tag in interp.fork(path, [(z3.Not(bad), "ok"), (bad, "bad")]):
        if tag == "bad":
            outs.append(Outcome(p, "panic", msg="bnum division by zero / overflow"))
        else:
            r = Interp.trem(x, y) if callee.endswith("rem") else Interp.tdiv(x, y)
            outs.append(Outcome(p, "ret", IntV(r, ty)))
    return outs


@model(r"^<(BInt<\d+>|BUint<\d+>) as (Shl|Shr)<u32>>::(shl|shr)$",
       "shift by a concrete amount < BITS: multiply (wrapping) / floor-divide by 2^k")
def m_bnum_shift(interp, path, args, ret_ty, callee):
    ty = norm_ty(re.match(r"^<(.+?) as", norm_ty(callee)).group(1))
    x, k = args[0].term, concrete(args[1].term)
    lo, hi = int_range(ty)
    bits = (hi - lo + 1).bit_length() - 1
    if k is None or not (0 <= k < bits):
        raise Refuse("bnum shift by symbolic or oversized amount")
    if callee.endswith("shl"):
        return IntV(interp.wrap(x * (1 << k), ty), ty)
    return IntV(x / (1 << k), ty)


@model(r"<impl u(8|16|32|64|128|size)>::is_multiple_of$", "x % y == 0 (y == 0: only 0 is a multiple)")
def m_is_multiple_of(interp, path, args, ret_ty, callee):
    x, y = args[0].term, args[1].term
    cy = concrete(y)
    if cy is not None and cy != 0:
        return BoolV(x % cy == 0)
    return BoolV(z3.If(y == 0, x == 0, x % z3.If(y == 0, 1, y) == 0))


@model(r"<impl (BInt<\d+>|BUint<\d+>)>::checked_(shl|shr)$",
       "shift by a concrete amount: None iff amount >= BITS, else wrapping multiply / floor-divide by 2^k (as std)")
def m_bnum_checked_shift(interp, path, args, ret_ty, callee):
    ty = int_ty_of_path(callee)
    x, k = args[0].term, concrete(args[1].term)
    lo, hi = int_range(ty)
    bits = (hi - lo + 1).bit_length() - 1
    if k is None or k < 0:
        raise Refuse("bnum checked shift by symbolic amount")
    rty = ret_ty or "Option<%s>" % ty
    if k >= bits:
        return none(rty)
    if callee.endswith("shl"):
        return some(rty, IntV(interp.wrap(x * (1 << k), ty), ty))
    return some(rty, IntV(x / (1 << k), ty))


@model(r"^<(BInt<\d+>|BUint<\d+>) as Not>::not$", "bitwise not = -x-1 (signed) / MAX-x (unsigned)")
def m_bnum_not(interp, path, args, ret_ty, callee):
    ty = norm_ty(re.match(r"^<(.+?) as", norm_ty(callee)).group(1))
    lo, hi = int_range(ty)
    return IntV((hi + lo) - args[0].term, ty)


@model(r"^<(BInt<\d+>|BUint<\d+>|[iu](8|16|32|64|128|size)) as (PartialOrd|Ord|PartialEq)(<[^>]*>)?>::"
       r"(lt|le|gt|ge|eq|ne|cmp|partial_cmp)$", "integer comparison")
def m_int_cmp(interp, path, args, ret_ty, callee):
    a, b = deref(interp, path, args[0]), deref(interp, path, args[1])
    x, y = a.term, b.term
    op = callee.rsplit("::", 1)[1]
    if op in ("lt", "le", "gt", "ge", "eq", "ne"):
        return BoolV({"lt": x < y, "le": x <= y, "gt": x > y, "ge": x >= y, "eq": x == y, "ne": x != y}[op])
    o = EnumV("Ordering", z3.If(x < y, -1, z3.If(x == y, 0, 1)), {-1: [], 0: [], 1: []})
    if op == "cmp":
        return o
    return some(ret_ty or "Option<Ordering>", o)


@model(r"<impl (BInt<\d+>|BUint<\d+>|[iu](8|16|32|64|128|size))>::leading_zeros$",
       "number of leading zero bits of the two's complement representation (ite chain over bit length)")
def m_leading_zeros(interp, path, args, ret_ty, callee):
    ty = int_ty_of_path(callee)
    x = args[0].term
    lo, hi = int_range(ty)
    bits = (hi - lo + 1).bit_length() - 1
    c = concrete(x)
    if c is not None:
        u = c % (1 << bits)
        return IntV(bits - u.bit_length(), "u32")
    r = zint(bits)  # x == 0
    for k in range(bits):   # k = leading zeros, x >= 2^(bits-1-k)
        pass
    # build from smallest threshold up: lz = bits - bitlen(x) for x > 0
    r = zint(bits)
    for bl in range(1, bits + 1):       # bit length bl  <=> 2^(bl-1) <= x
        r = z3.If(x >= (1 << (bl - 1)), bits - bl, r)
    if lo < 0:
        r = z3.If(x < 0, 0, r)
    return IntV(r, "u32")


@model(r"<impl BInt<\d+>>::(is_negative|is_positive)$", "sign tests")
def m_bnum_sign(interp, path, args, ret_ty, callee):
    x = args[0].term
    return BoolV(x < 0 if callee.endswith("is_negative") else x > 0)


@model(r"<impl (BInt<\d+>|BUint<\d+>)>::is_zero$", "zero test")
def m_bnum_is_zero(interp, path, args, ret_ty, callee):
    return BoolV(deref(interp, path, args[0]).term == 0)


@model(r"<impl BInt<\d+>>::(abs|signum)$", "abs (MIN panics in debug) / signum")
def m_bnum_abs(interp, path, args, ret_ty, callee):
    ty = int_ty_of_path(callee)
    x = args[0].term
    lo, hi = int_range(ty)
    if callee.endswith("signum"):
        return IntV(z3.If(x < 0, -1, z3.If(x == 0, 0, 1)), ty)
    outs = []
    for p, tag in interp.fork(path, [(x != lo, "ok"), (x == lo, "bad")]):
        if tag == "ok":
            outs.append(Outcome(p, "ret", IntV(z3.If(x < 0, -x, x), ty)))
        else:
            outs.append(Outcome(p, "panic", msg="bnum abs overflow"))
    return outs


@model(r"^<(BInt<\d+>|BUint<\d+>) as CastFrom<(BInt<\d+>|BUint<\d+>)>>::cast_from$|"
       r"^<(BInt<\d+>|BUint<\d+>) as As>::as_::<(BInt<\d+>|BUint<\d+>)>$",
       "`as`-style cast between big integers: value modulo 2^bits of the target, reinterpreted")
def m_cast_from(interp, path, args, ret_ty, callee):
    n = norm_ty(callee)
    m = re.match(r"^<(\w+<\d+>) as CastFrom", n)
    to = m.group(1) if m else re.search(r"as_::<(\w+<\d+>)>$", n).group(1)
    return IntV(interp.wrap(args[0].term, to), to)


@model(r"<impl (BInt<\d+>)>::(to_bits|from_bits)$", "reinterpret between BInt<N> and BUint<N>")
def m_bits(interp, path, args, ret_ty, callee):
    ty = int_ty_of_path(callee)
    n = re.search(r"<(\d+)>", ty).group(1)
    if callee.endswith("to_bits"):
        return IntV(interp.wrap(args[0].term, "BUint<%s>" % n), "BUint<%s>" % n)
    return IntV(interp.wrap(args[0].term, "BInt<%s>" % n), "BInt<%s>" % n)


@model(r"<impl (BUint<\d+>|BInt<\d+>)>::from_digits$", "little-endian u64 limbs -> integer")
def m_from_digits(interp, path, args, ret_ty, callee):
    ty = int_ty_of_path(callee)
    arr = args[0]
    t = zint(0)
    for i, d in enumerate(arr.fields):
        t = t + d.term * (1 << (64 * i))
    return IntV(interp.wrap(t, ty), ty)


@model(r"<impl (BUint<\d+>|BInt<\d+>)>::(sqrt|cbrt)$|<impl (BUint<\d+>|BInt<\d+>)>::nth_root$|"
       r"^<(BUint<\d+>|BInt<\d+>) as Roots>::(sqrt|cbrt|nth_root)$|^<impl BigInt>::(sqrt|cbrt|nth_root)$",
       "floor integer root of a non-negative value (fresh variable r with r^n <= x < (r+1)^n); negative input "
       "panics for even n")
def m_root(interp, path, args, ret_ty, callee):
    cn = canon(callee)
    if cn.startswith("<impl BigInt>::"):
        ty = "BigInt"
    else:
        mt = re.search(r"(BUint<\d+>|BInt<\d+>)", cn)
        ty = mt.group(1)
    x = deref(interp, path, args[0]).term
    if callee.endswith("sqrt"):
        n = 2
    elif callee.endswith("cbrt"):
        n = 3
    else:
        n = concrete(args[1].term)
        if n is None or n < 1 or n > 4:
            raise Refuse("nth_root with symbolic or large degree")
    cx = concrete(x)
    if cx is not None:
        if cx < 0 and n % 2 == 0:
            return [Outcome(path, "panic", msg="root of negative")]
        mag = abs(cx)
        lo_, hi_ = 0, 1
        while hi_ ** n <= mag:
            hi_ *= 2
        while lo_ + 1 < hi_:
            mid = (lo_ + hi_) // 2
            if mid ** n <= mag:
                lo_ = mid
            else:
                hi_ = mid
        return IntV(lo_ if cx >= 0 else -lo_, ty)
    interp.fresh = getattr(interp, "fresh", 0) + 1
    r = z3.Int("root%d_%d" % (n, interp.fresh))

    def pw(t, k):
        o = t
        for _ in range(k - 1):
            o = o * t
        return o
    outs = []
    conds = [(x >= 0, "pos")]
    conds.append((x < 0, "neg"))
    for p, tag in interp.fork(path, conds):
        if tag == "pos":
            interp.assume(p, z3.And(r >= 0, pw(r, n) <= x, x < pw(r + 1, n)))
            outs.append(Outcome(p, "ret", IntV(r, ty)))
        else:
            if n % 2 == 0:
                outs.append(Outcome(p, "panic", msg="root of negative"))
            else:
                # bnum: cbrt of negative = -cbrt(|x|)
                interp.assume(p, z3.And(r >= 0, pw(r, n) <= -x, -x < pw(r + 1, n)))
                outs.append(Outcome(p, "ret", IntV(-r, ty)))
    return outs


# ---------------------------------------------------------------- num_bigint::BigInt as an unbounded integer
@model(r"^<BigInt as From<(I\d+|U\d+)>>::from$",
       "REPO conversion I192/I256/.. -> num_bigint::BigInt (implemented through a decimal string): modelled as exact",
       force=True)
def m_bigint_from(interp, path, args, ret_ty, callee):
    v = args[0]
    while v.kind == "struct":
        v = v.fields[0]
    return IntV(v.term, "BigInt")


@model(r"^<(I\d+|U\d+) as TryFrom<BigInt>>::try_from$",
       "REPO conversion num_bigint::BigInt -> I192/I256/.. (through to_signed_bytes_le / from_le_slice): modelled as "
       "Ok(v) iff v fits the target, else Err(Overflow)", force=True)
def m_bigint_try_into(interp, path, args, ret_ty, callee):
    m = re.match(r"^<([IU])(\d+) as", canon(callee))
    bits = int(m.group(2))
    ty = ("BInt<%d>" if m.group(1) == "I" else "BUint<%d>") % (bits // 64)
    x = args[0].term
    ok = in_range(x, ty)
    wrapper = m.group(1) + m.group(2)
    err = EnumV("Parse%sError" % wrapper, 0, {0: []})
    try:
        err = EnumV("Parse%sError" % wrapper, interp.variant_index("Parse%sError" % wrapper, "Overflow"), {})
        err.variants[concrete(err.discr)] = []
    except Exception:
        pass
    return EnumV(ret_ty, z3.If(ok, 0, 1), {0: [StructV(wrapper, [IntV(x, ty)])], 1: [err]})


@model(r"^<BigInt as Mul>::mul$", "exact product")
def m_bigint_mul(interp, path, args, ret_ty, callee):
    return IntV(args[0].term * args[1].term, "BigInt")


@model(r"^<BigInt as Pow<u32>>::pow$", "exact power with a concrete exponent")
def m_bigint_pow(interp, path, args, ret_ty, callee):
    e = concrete(args[1].term)
    if e is None or e > 64:
        raise Refuse("BigInt::pow with symbolic or large exponent")
    c = concrete(args[0].term)
    if c is not None:
        return IntV(c ** e, "BigInt")
    t = zint(1)
    for _ in range(e):
        t = t * args[0].term
    return IntV(t, "BigInt")


# ---------------------------------------------------------------- strings (concrete length, symbolic ASCII bytes)
def _symstr(interp, path, v):
    v = deref(interp, path, v)
    if v.kind == "str":
        return StrSymV([ord(c) for c in v.text])
    if v.kind != "symstr":
        raise Refuse("string operation on %r" % (v,))
    return v


@model(r"<impl str>::len$", "byte length (concrete)")
def m_str_len(interp, path, args, ret_ty, callee):
    return IntV(len(_symstr(interp, path, args[0]).bytes), "usize")


@model(r"<impl str>::is_empty$", "length == 0")
def m_str_is_empty(interp, path, args, ret_ty, callee):
    return BoolV(len(_symstr(interp, path, args[0]).bytes) == 0)


@model(r"<impl str>::starts_with::<char>$", "first byte equals the (ASCII) char")
def m_str_starts_with(interp, path, args, ret_ty, callee):
    s_ = _symstr(interp, path, args[0])
    if not s_.bytes:
        return BoolV(False)
    return BoolV(s_.bytes[0] == args[1].term)


@model(r"^<&?str as PartialEq(<&?str>)?>::(eq|ne)$", "same length and same bytes")
def m_str_eq(interp, path, args, ret_ty, callee):
    a, b = _symstr(interp, path, args[0]), _symstr(interp, path, args[1])
    if len(a.bytes) != len(b.bytes):
        eq = z3.BoolVal(False)
    else:
        eq = z3.And([x == y for x, y in zip(a.bytes, b.bytes)]) if a.bytes else z3.BoolVal(True)
    return BoolV(eq if canon(callee).endswith("::eq") else z3.Not(eq))


@model(r"<impl str>::starts_with::<&str>$", "prefix test against a string")
def m_str_starts_with_str(interp, path, args, ret_ty, callee):
    a, b = _symstr(interp, path, args[0]), _symstr(interp, path, args[1])
    if len(b.bytes) > len(a.bytes):
        return BoolV(False)
    return BoolV(z3.And([x == y for x, y in zip(a.bytes, b.bytes)]) if b.bytes else z3.BoolVal(True))


@model(r"<impl str>::ends_with::<char>$", "last byte equals the (ASCII) char")
def m_str_ends_with(interp, path, args, ret_ty, callee):
    a = _symstr(interp, path, args[0])
    if not a.bytes:
        return BoolV(False)
    return BoolV(a.bytes[-1] == args[1].term)


@model(r"<impl str>::contains::<char>$", "some byte equals the (ASCII) char")
def m_str_contains(interp, path, args, ret_ty, callee):
    a = _symstr(interp, path, args[0])
    return BoolV(z3.Or([x == args[1].term for x in a.bytes]) if a.bytes else z3.BoolVal(False))


@model(r"^<str as Index<Range<usize>>>::index$|^<str as Index<RangeFrom<usize>>>::index$|^<str as Index<RangeTo<usize>>>::index$",
       "substring by a concrete byte range; out of range panics")
def m_str_index_range(interp, path, args, ret_ty, callee):
    a = _symstr(interp, path, args[0])
    r = args[1]
    n = len(a.bytes)
    cn = canon(callee)
    if "RangeFrom" in cn:
        lo, hi = concrete(r.fields[0].term), n
    elif "RangeTo" in cn:
        lo, hi = 0, concrete(r.fields[0].term)
    else:
        lo, hi = concrete(r.fields[0].term), concrete(r.fields[1].term)
    if lo is None or hi is None:
        raise Refuse("string slice with symbolic bounds")
    if not (0 <= lo <= hi <= n):
        return [Outcome(path, "panic", msg="string slice out of range")]
    return StrSymV(a.bytes[lo:hi])


@model(r"<impl str>::chars$", "iterator over the (ASCII) chars")
def m_str_chars(interp, path, args, ret_ty, callee):
    a = _symstr(interp, path, args[0])
    return StructV("CharsIter", [IntV(b, "char") for b in a.bytes])


@model(r"^<Chars<'_> as Iterator>::next$", "next char")
def m_chars_next(interp, path, args, ret_ty, callee):
    r = args[0]
    if r.kind != "ref" or hasattr(r, "target"):
        raise Refuse("Iterator::next needs a reference to the iterator place")
    it = interp.read(path, r.fid, r.local, r.projs)
    if it.kind != "struct" or it.ty != "CharsIter":
        raise Refuse("Iterator::next on %r" % (it,))
    if not it.fields:
        return EnumV(ret_ty, 0, {0: []})
    interp.write(path, r.fid, r.local, r.projs, StructV("CharsIter", it.fields[1:]))
    return EnumV(ret_ty, 1, {1: [it.fields[0]]})


@model(r"^<Chars<'_> as IntoIterator>::into_iter$", "identity")
def m_chars_into_iter(interp, path, args, ret_ty, callee):
    return args[0]


@model(r"<impl str>::(trim_start_matches|trim_end_matches)::<char>$",
       "strip every leading / trailing occurrence of the (ASCII) char: forks on how many there are")
def m_str_trim_matches(interp, path, args, ret_ty, callee):
    a = _symstr(interp, path, args[0])
    c = args[1].term
    start = "trim_start_matches" in canon(callee)
    bs = a.bytes if start else list(reversed(a.bytes))
    conds = []
    for k in range(len(bs) + 1):
        # exactly k leading matches
        cs = [bs[i] == c for i in range(k)]
        if k < len(bs):
            cs.append(bs[k] != c)
        conds.append((z3.And(cs) if cs else z3.BoolVal(True), k))
    outs = []
    for p, k in interp.fork(path, conds):
        rest = bs[k:]
        outs.append(Outcome(p, "ret", StrSymV(rest if start else list(reversed(rest)))))
    return outs


@model(r"<impl str>::as_bytes$", "the bytes of the string (entry-list slice)")
def m_str_as_bytes(interp, path, args, ret_ty, callee):
    from .interp import _ConstRef
    a = _symstr(interp, path, args[0])
    return _ConstRef("&[u8]", StructV("[u8]", [IntV(b, "u8") for b in a.bytes]))


@model(r"^<&?str as AsRef<str>>::as_ref$|^<String as AsRef<str>>::as_ref$|^<str as ToOwned>::to_owned$|"
       r"^<String as From<&str>>::from$|^<str as ToString>::to_string$|^<&&?str as AsRef<str>>::as_ref$",
       "owned / borrowed views of the same text: identity in the string model")
def m_str_identity(interp, path, args, ret_ty, callee):
    return _symstr(interp, path, args[0])


@model(r"^<Chars<'_> as Iterator>::collect::<Vec<char>>$", "the chars as an entry-list vector")
def m_chars_collect(interp, path, args, ret_ty, callee):
    it = args[0]
    if it.kind != "struct" or it.ty != "CharsIter":
        raise Refuse("collect over %r" % (it,))
    return StructV("Vec<char>", list(it.fields))


@model(r"^<Vec<(char|u8)> as Index<usize>>::index$", "element by concrete index; out of bounds panics")
def m_vec_char_index(interp, path, args, ret_ty, callee):
    from .interp import _ConstRef
    v = deref(interp, path, args[0])
    i = concrete(args[1].term)
    if i is None:
        raise Refuse("Vec index with a symbolic position")
    if not (0 <= i < len(v.fields)):
        return [Outcome(path, "panic", msg="index out of bounds")]
    return _ConstRef("&" + v.fields[i].ty, v.fields[i])


@model(r"^<(vec::)?IntoIter<char> as Iterator>::filter::<.*>$", "lazy filter over chars")
def m_chars_filter(interp, path, args, ret_ty, callee):
    if args[0].kind != "struct" or args[0].ty != "VecIntoIter":
        raise Refuse("filter over %r" % (args[0],))
    return StructV("CharFilter", [args[0], args[1]])


@model(r"^<Filter<(vec::)?IntoIter<char>, .*> as Iterator>::collect::<String>$",
       "string of the kept chars: every char carries its symbolic keep flag (length = number kept)")
def m_chars_filter_collect(interp, path, args, ret_ty, callee):
    from .interp import _ConstRef
    it = args[0]
    if it.kind != "struct" or it.ty != "CharFilter":
        raise Refuse("collect over %r" % (it,))
    chars, clo = it.fields[0].fields, it.fields[1]
    cty, cval = _closure_of(clo)
    kept = []
    p = path
    for c in chars:
        f = interp.pick_closure(cty, [_ConstRef("&char", c)], None)
        outs = interp.call_function(f, [_ConstRef("&mut " + cty, cval), _ConstRef("&char", c)], p)
        outs = [o for o in outs if o.kind != "unwind"]
        if len(outs) != 1 or outs[0].kind != "ret":
            raise Refuse("filter predicate forks or fails")
        p = outs[0].path
        kept.append(StructV("Kept", [c, BoolV(outs[0].value.term)]))
    return [Outcome(p, "ret", StructV("FilteredString", kept))]


@model(r"^<impl String>::len$", "number of bytes (ASCII: number of chars)")
def m_string_len(interp, path, args, ret_ty, callee):
    v = deref(interp, path, args[0])
    if v.kind == "symstr":
        return IntV(len(v.bytes), "usize")
    if v.kind == "struct" and v.ty == "FilteredString":
        return IntV(z3.Sum([z3.If(k.fields[1].term, 1, 0) for k in v.fields]) if v.fields else z3.IntVal(0), "usize")
    raise Refuse("String::len of %r" % (v,))


@model(r"^<\[u8; (\d+)\] as TryFrom<Vec<u8>>>::try_from$", "Ok exactly when the vector has that many elements")
def m_array_try_from_vec(interp, path, args, ret_ty, callee):
    n = int(re.match(r"^<\[u8; (\d+)\]", canon(callee)).group(1))
    v = args[0]
    if v.kind == "struct" and v.ty == "SymLenVec<u8>":
        ok = v.fields[0].term == n
        return EnumV(ret_ty, z3.If(ok, 0, 1), {0: [StructV("[u8; %d]" % n, [IntV(0, "u8")] * n)], 1: [v]})
    if v.kind == "struct":
        if len(v.fields) == n:
            return EnumV(ret_ty, 0, {0: [StructV("[u8; %d]" % n, list(v.fields))]})
        return EnumV(ret_ty, 1, {1: [v]})
    raise Refuse("try_from of %r" % (v,))


@model(r"<impl char>::is_ascii_digit$", "'0'..='9'")
def m_char_is_ascii_digit(interp, path, args, ret_ty, callee):
    c = deref(interp, path, args[0])
    return BoolV(z3.And(c.term >= 48, c.term <= 57))


@model(r"<impl str>::parse::<u(8|16|32|64|128|size)>$",
       "core integer parsing of an ASCII string short enough not to overflow: optional leading '+', then one or more "
       "digits; anything else is an error")
def m_str_parse_uint(interp, path, args, ret_ty, callee):
    ty = re.search(r"parse::<(\w+)>$", canon(callee)).group(1)
    a = _symstr(interp, path, args[0])
    bs = a.bytes
    lo, hi = int_range(ty)
    if 10 ** len(bs) > hi:
        raise Refuse("parse on a string long enough to overflow %s" % ty)

    def err():
        return EnumV(ret_ty, 1, {1: [StructV("ParseIntError", [])]})
    if not bs:
        return err()
    outs = []
    for p, tag in interp.fork(path, [(bs[0] == 43, "plus"), (bs[0] != 43, "none")]):
        ds = bs[1:] if tag == "plus" else bs
        if not ds:
            outs.append(Outcome(p, "ret", err()))
            continue
        good = z3.And([z3.And(d >= 48, d <= 57) for d in ds])
        v = zint(0)
        for d in ds:
            v = v * 10 + (d - 48)
        for p2, t2 in interp.fork(p, [(good, "ok"), (z3.Not(good), "bad")]):
            outs.append(Outcome(p2, "ret", EnumV(ret_ty, 0, {0: [IntV(v, ty)]}) if t2 == "ok" else err()))
    return outs


@model(r"<impl str>::split::<char>$", "lazy split on an ASCII char")
def m_str_split(interp, path, args, ret_ty, callee):
    return StructV("StrSplitChar", [_symstr(interp, path, args[0]), args[1]])


@model(r"^<Split<'_, char> as Iterator>::collect::<Vec<&str>>$",
       "pieces between the separator bytes: forks on which positions hold the separator")
def m_split_collect(interp, path, args, ret_ty, callee):
    sp = args[0]
    if sp.kind != "struct" or sp.ty != "StrSplitChar":
        raise Refuse("collect over %r" % (sp,))
    s_, sep = sp.fields[0], sp.fields[1].term
    outs = []

    def rec(p, i, cur, pieces):
        if i == len(s_.bytes):
            outs.append(Outcome(p, "ret", StructV("Vec<&str>", [StrSymV(x) for x in pieces + [cur]])))
            return
        b = s_.bytes[i]
        for p2, tag in interp.fork(p, [(b == sep, "sep"), (b != sep, "other")]):
            if tag == "sep":
                rec(p2, i + 1, [], pieces + [cur])
            else:
                rec(p2, i + 1, cur + [b], pieces)
    rec(path, 0, [], [])
    return outs


@model(r"^Vec::<&str>::len$", "number of pieces")
def m_vecstr_len(interp, path, args, ret_ty, callee):
    v = deref(interp, path, args[0])
    return IntV(len(v.fields), "usize")


@model(r"^<Vec<&str> as Index<usize>>::index$", "element by concrete index; out of bounds panics")
def m_vecstr_index(interp, path, args, ret_ty, callee):
    from .interp import _ConstRef
    v = deref(interp, path, args[0])
    i = concrete(args[1].term)
    if i is None:
        raise Refuse("Vec<&str> index with symbolic index")
    if not (0 <= i < len(v.fields)):
        return [Outcome(path, "panic", msg="index out of bounds: Vec<&str>[%d]" % i)]
    return _ConstRef("&&str", v.fields[i])


@model(r"^<(BInt<\d+>|BUint<\d+>) as FromStr>::from_str$",
       "bnum from_str_radix(src, 10) on an ASCII string short enough not to overflow: \"\" -> Empty; optional leading "
       "'+'/'-' (a lone sign -> InvalidDigit; '-' on an unsigned type -> InvalidDigit); every other byte must be a "
       "digit else InvalidDigit; value = sign * digits")
def m_bnum_from_str(interp, path, args, ret_ty, callee):
    ty = re.match(r"^<(\w+<\d+>) as", canon(callee)).group(1)
    signed = ty.startswith("BInt")
    if not signed:
        raise Refuse("from_str model covers the signed BInt types only")
    s_ = _symstr(interp, path, args[0])
    bs = s_.bytes
    lo, hi = int_range(ty)
    if len(bs) > 50 or 10 ** len(bs) > hi:
        raise Refuse("from_str on a string long enough to overflow %s" % ty)

    def err(kind):
        return EnumV(ret_ty, 1, {1: [StructV("ParseIntError", [EnumV("IntErrorKind", kind, {kind: []})])]})

    def ok(t):
        return EnumV(ret_ty, 0, {0: [IntV(t, ty)]})
    if not bs:
        return err(0)

    def digits_val(ds):
        t = zint(0)
        for d in ds:
            t = t * 10 + (d - 48)
        return t

    def all_digits(ds):
        return z3.And([z3.And(d >= 48, d <= 57) for d in ds]) if ds else z3.BoolVal(True)
    outs = []
    b0 = bs[0]
    conds = [(b0 == 45, "minus"), (b0 == 43, "plus"), (z3.And(b0 != 45, b0 != 43), "none")]
    for p, tag in interp.fork(path, conds):
        ds = bs if tag == "none" else bs[1:]
        if tag != "none" and not ds:
            outs.append(Outcome(p, "ret", err(1)))
            continue
        if tag == "minus" and not signed:
            # BUint: '-' is not a sign, it is an invalid digit
            outs.append(Outcome(p, "ret", err(1)))
            continue
        for p2, t2 in interp.fork(p, [(all_digits(ds), "ok"), (z3.Not(all_digits(ds)), "bad")]):
            if t2 == "bad":
                outs.append(Outcome(p2, "ret", err(1)))
            else:
                v = digits_val(ds)
                outs.append(Outcome(p2, "ret", ok(-v if tag == "minus" else v)))
    return outs


@model(r"^<impl BnumParseIntError>::kind$", "the error kind")
def m_bnum_err_kind(interp, path, args, ret_ty, callee):
    from .interp import _ConstRef
    e = deref(interp, path, args[0])
    return _ConstRef("&IntErrorKind", e.fields[0])


# ---------------------------------------------------------------- Option / Result / Try
def _is_opt(callee):
    return norm_ty(callee).startswith("Option")


@model(r"^<(Option|Result)<.*> as Try>::branch$", "Some/Ok -> Continue(v); None/Err -> Break(residual)")
def m_try_branch(interp, path, args, ret_ty, callee):
    e = args[0]
    vs = {}
    if 1 in e.variants or 0 in e.variants:
        pass
    if norm_ty(callee).startswith("<Option"):
        # Option: None=0 -> Break(None) [discr 1], Some=1 -> Continue(v) [discr 0]
        vs[0] = e.variants.get(1, [UndefV()])
        vs[1] = [none("Option<Infallible>")]
        return EnumV(ret_ty or "ControlFlow", z3.If(e.discr == 1, 0, 1), vs)
    # Result: Ok=0 -> Continue(v); Err=1 -> Break(Err(e))
    vs[0] = e.variants.get(0, [UndefV()])
    vs[1] = [EnumV("Result<Infallible, E>", 1, {1: e.variants.get(1, [UndefV()])})]
    return EnumV(ret_ty or "ControlFlow", z3.If(e.discr == 0, 0, 1), vs)


@model(r"^<Option<.*> as FromResidual<.*>>::from_residual$", "None")
def m_from_residual_opt(interp, path, args, ret_ty, callee):
    return none(ret_ty)


@model(r"^<Result<.*> as FromResidual<.*>>::from_residual$", "Err(From::from(e)) with identity conversion")
def m_from_residual_res(interp, path, args, ret_ty, callee):
    r = args[0]
    payload = r.variants.get(1, [UndefV()])
    return EnumV(ret_ty, 1, {1: payload})


@model(r"^Option::<.*>::(is_some|is_none)$", "discriminant test")
def m_opt_is(interp, path, args, ret_ty, callee):
    e = deref(interp, path, args[0])
    return BoolV(e.discr == (1 if callee.endswith("is_some") else 0))


@model(r"^Result::<.*>::(is_ok|is_err)$", "discriminant test")
def m_res_is(interp, path, args, ret_ty, callee):
    e = deref(interp, path, args[0])
    return BoolV(e.discr == (0 if callee.endswith("is_ok") else 1))


@model(r"^Option::<.*>::(as_ref|as_mut)$", "Option<&T> pointing into the option's payload")
def m_opt_as_ref(interp, path, args, ret_ty, callee):
    from .interp import _ConstRef
    r = args[0]
    e = deref(interp, path, r)
    if e.kind != "enum":
        raise Refuse("as_ref on %r" % (e,))
    payload = e.variants.get(1, [UndefV()])
    pty = "&" + (payload[0].ty if payload and payload[0].kind != "undef" else "T")
    if hasattr(r, "target") or r.kind != "ref":
        inner = _ConstRef(pty, payload[0]) if payload and payload[0].kind != "undef" else UndefV()
    else:
        inner = RefV(pty, r.fid, r.local, tuple(r.projs) + (("downcast", "Some"), ("field", 0)))
    return EnumV(ret_ty, e.discr, {0: [], 1: [inner]})


@model(r"^Option::<.*>::is_some_and::<.*>$", "Some(x) -> f(x); None -> false")
def m_opt_is_some_and(interp, path, args, ret_ty, callee):
    e, f = args[0], args[1]

    def on_some(p):
        return interp.call_value(p, f, [e.variants[1][0]], "bool")
    return fork_enum(interp, path, e, {1: on_some, 0: lambda p: [Outcome(p, "ret", BoolV(False))]})


@model(r"^Option::<.*>::(expect|unwrap)$", "payload of Some; None panics")
def m_opt_expect(interp, path, args, ret_ty, callee):
    e = args[0]
    msg = args[1].text if len(args) > 1 and args[1].kind == "str" else "unwrap on None"
    return fork_enum(interp, path, e, {
        1: lambda p: [Outcome(p, "ret", e.variants[1][0])],
        0: lambda p: [Outcome(p, "panic", msg="expect failed: " + msg)],
    })


@model(r"^Result::<.*>::(expect|unwrap)$", "payload of Ok; Err panics")
def m_res_expect(interp, path, args, ret_ty, callee):
    e = args[0]
    msg = args[1].text if len(args) > 1 and args[1].kind == "str" else "unwrap on Err"
    return fork_enum(interp, path, e, {
        0: lambda p: [Outcome(p, "ret", e.variants[0][0])],
        1: lambda p: [Outcome(p, "panic", msg="expect failed: " + msg)],
    })


@model(r"^Option::<([iu](8|16|32|64|128|size)|bool)>::unwrap_or_default$", "payload, or 0 / false for None")
def m_opt_unwrap_or_default(interp, path, args, ret_ty, callee):
    e = args[0]
    ty = re.match(r"^Option::<(\w+)>", canon(callee)).group(1)
    dflt = BoolV(False) if ty == "bool" else IntV(0, ty)
    return fork_enum(interp, path, e, {1: lambda p: [Outcome(p, "ret", e.variants[1][0])],
                                       0: lambda p: [Outcome(p, "ret", dflt)]})


@model(r"^Option::<.*>::unwrap_or$", "payload or default")
def m_opt_unwrap_or(interp, path, args, ret_ty, callee):
    e = args[0]
    return fork_enum(interp, path, e, {
        1: lambda p: [Outcome(p, "ret", e.variants[1][0])],
        0: lambda p: [Outcome(p, "ret", args[1])],
    })


@model(r"^Result::<.*>::ok$", "Ok(v) -> Some(v); Err -> None")
def m_res_ok(interp, path, args, ret_ty, callee):
    e = args[0]
    return EnumV(ret_ty, z3.If(e.discr == 0, 1, 0), {0: [], 1: e.variants.get(0, [UndefV()])})


@model(r"^Option::<.*>::ok_or(::<.*>)?$", "Some(v) -> Ok(v); None -> Err(e)")
def m_opt_ok_or(interp, path, args, ret_ty, callee):
    e = args[0]
    return EnumV(ret_ty, z3.If(e.discr == 1, 0, 1), {0: e.variants.get(1, [UndefV()]), 1: [args[1]]})


@model(r"^Option::<.*>::(map|and_then)::<.*>$", "apply the closure / function value to the payload of Some")
def m_opt_map(interp, path, args, ret_ty, callee):
    e, f = args[0], args[1]
    is_map = "::map::" in norm_ty(callee)

    def on_some(p):
        outs = []
        inner = inner_ty(ret_ty) if is_map else ret_ty
        for o in interp.call_value(p, f, [e.variants[1][0]], inner):
            if o.kind == "ret":
                outs.append(Outcome(o.path, "ret", some(ret_ty, o.value) if is_map else o.value))
            else:
                outs.append(o)
        return outs
    return fork_enum(interp, path, e, {1: on_some, 0: lambda p: [Outcome(p, "ret", none(ret_ty))]})


@model(r"^Option::<.*>::(ok_or_else|unwrap_or_else|map_or)::<.*>$", "lazily evaluated alternatives")
def m_opt_else(interp, path, args, ret_ty, callee):
    e = args[0]
    n = norm_ty(callee)
    if "ok_or_else" in n:
        def on_none(p):
            outs = []
            for o in interp.call_value(p, args[1], [], None):
                outs.append(Outcome(o.path, "ret", EnumV(ret_ty, 1, {1: [o.value]})) if o.kind == "ret" else o)
            return outs
        return fork_enum(interp, path, e, {
            1: lambda p: [Outcome(p, "ret", EnumV(ret_ty, 0, {0: [e.variants[1][0]]}))], 0: on_none})
    if "unwrap_or_else" in n:
        return fork_enum(interp, path, e, {
            1: lambda p: [Outcome(p, "ret", e.variants[1][0])],
            0: lambda p: interp.call_value(p, args[1], [], ret_ty)})
    if "::map_or::" in n:
        return fork_enum(interp, path, e, {
            1: lambda p: interp.call_value(p, args[2], [e.variants[1][0]], ret_ty),
            0: lambda p: [Outcome(p, "ret", args[1])]})
    raise Refuse("Option combinator " + n)


@model(r"^Result::<.*>::(map|map_err|and_then)::<.*>$", "apply to Ok / Err payload")
def m_res_map(interp, path, args, ret_ty, callee):
    e, f = args[0], args[1]
    n = norm_ty(callee)
    which = "map_err" if "::map_err::" in n else ("and_then" if "::and_then::" in n else "map")

    def on(k):
        def run(p):
            if (which == "map_err") != (k == 1):
                return [Outcome(p, "ret", EnumV(ret_ty, k, {k: e.variants[k]}))]
            outs = []
            for o in interp.call_value(p, f, [e.variants[k][0]], ret_ty if which == "and_then" else None):
                if o.kind != "ret":
                    outs.append(o)
                elif which == "and_then":
                    outs.append(o)
                else:
                    outs.append(Outcome(o.path, "ret", EnumV(ret_ty, k, {k: [o.value]})))
            return outs
        return run
    return fork_enum(interp, path, e, {0: on(0), 1: on(1)})


# ---------------------------------------------------------------- IndexMap as an insertion-ordered entry list
# An IndexMap value is a StructV whose type starts with "IndexMap<" and whose fields are (key, value) tuples, in
# insertion order (a CONCRETE number of entries chosen by the job; keys are distinct opaque values). Only the
# consuming-iterator pipeline `into_iter().map(f).collect::<Result<IndexMap, E>>()` is modelled: f is applied to the
# entries in order, the first Err is returned, otherwise the map of the results in the same order.
def _closure_of(clo):
    """(closure type string, closure value) for a capturing closure struct or a capture-less closure item"""
    if clo.kind == "fn":
        return clo.name, StructV(clo.name, [])
    return clo.ty, clo


def _apply_fn(interp, path, clo, call_args):
    """call a closure value (by &mut reference, as iterator adaptors do) or a plain function item -> outcomes"""
    from .interp import _ConstRef
    if clo.kind == "fn" and not clo.name.startswith("{closure@"):
        return interp.call_value(path, clo, list(call_args), None)
    cty, cval = _closure_of(clo)
    f = interp.pick_closure(cty, list(call_args), None)
    a0 = _ConstRef("&mut " + cty, cval) if f.params and norm_ty(f.params[0][1]).startswith("&") else cval
    return interp.call_function(f, [a0] + list(call_args), path)


def _is_indexmap(v):
    return v.kind == "struct" and norm_ty(v.ty).startswith("IndexMap<")


@model(r"^<IndexMap<.*> as IntoIterator>::into_iter$", "consuming iterator over the entries in insertion order")
def m_indexmap_into_iter(interp, path, args, ret_ty, callee):
    m = args[0]
    if not _is_indexmap(m):
        raise Refuse("into_iter of %r" % (m,))
    return StructV("IndexMapIntoIter", list(m.fields))


BASE_ITERS = ("IndexMapIntoIter", "VecIntoIter", "SetRefIter")


def _base_items(it):
    """elements an entry-list iterator still yields (by value, or by reference for a borrowing iterator)"""
    from .interp import _ConstRef
    if it.ty == "SetRefIter":
        return [_ConstRef("&" + getattr(e, "ty", "T"), e) for e in it.fields]
    return list(it.fields)


@model(r"^<(map::|vec::|slice::)?(IntoIter|Iter)<.*> as Iterator>::map::<.*>$", "lazy map adaptor (iterator, closure)")
def m_iter_map(interp, path, args, ret_ty, callee):
    if args[0].kind != "struct" or args[0].ty not in BASE_ITERS:
        raise Refuse("Iterator::map over %r" % (args[0],))
    return StructV("IterMap", [args[0], args[1]])


@model(r"^<Map<.*> as Iterator>::collect::<Result<(IndexMap|Vec)<.*>$",
       "apply the closure to each entry in order; first Err wins, else Ok(collection of the results)")
def m_iter_collect_result_map(interp, path, args, ret_ty, callee):
    it = args[0]
    if it.kind != "struct" or it.ty != "IterMap":
        raise Refuse("collect over %r" % (it,))
    if it.fields[0].kind != "struct" or it.fields[0].ty not in BASE_ITERS:
        raise Refuse("collect over %r" % (it.fields[0],))
    entries, clo = _base_items(it.fields[0]), it.fields[1]
    from .interp import _ConstRef
    outs = []
    work = [(path, 0, [])]
    while work:
        p, i, acc = work.pop()
        if i == len(entries):
            ok_ty = inner_ty(ret_ty) if ret_ty else "IndexMap<?>"
            outs.append(Outcome(p, "ret", EnumV(ret_ty, 0, {0: [StructV(ok_ty, acc)]})))
            continue
        cty, cval = _closure_of(clo)
        f = interp.pick_closure(cty, [entries[i]], None)
        for o in interp.call_function(f, [_ConstRef("&mut " + cty, cval), entries[i]], p):
            if o.kind != "ret":
                outs.append(o)
                continue
            r = o.value
            if r.kind != "enum":
                raise Refuse("closure result %r" % (r,))

            def on_ok(pp, r=r, acc=acc, i=i):
                work.append((pp, i + 1, acc + [r.variants[0][0]]))
                return []

            def on_err(pp, r=r):
                return [Outcome(pp, "ret", EnumV(ret_ty, 1, {1: r.variants[1]}))]
            outs += fork_enum(interp, o.path, r, {0: on_ok, 1: on_err})
    return outs


# ---------------------------------------------------------------- hash / index maps as bounded symbolic slot arrays
# A map (HashMap, NonIterMap, IndexMap, BTreeMap used as a dictionary) is a StructV of type "SymMap<..>" whose fields are
# SLOTS: StructV("Slot", [key, value, BoolV present]). The number of slots is the job's capacity bound; keys, values
# and presence flags are symbolic, so one slot array stands for every map with at most that many entries. The job's
# precondition states that present keys are pairwise distinct. Lookups fork on which present slot holds the key;
# insertions take the first free slot (no free slot = the capacity bound is exceeded: an unwinding obligation).
# Iteration order is NOT modelled (only keyed access).
def val_eq(a, b):
    """structural equality of two values as a z3 Bool"""
    if a.kind == "ref" or b.kind == "ref":
        raise Refuse("equality on references")
    if a.kind == "int" and b.kind == "int":
        return a.term == b.term
    if a.kind == "bool" and b.kind == "bool":
        return a.term == b.term
    if a.kind == "unit" and b.kind == "unit":
        return z3.BoolVal(True)
    if a.kind == "struct" and b.kind == "struct" and len(a.fields) == len(b.fields):
        return z3.And([val_eq(x, y) for x, y in zip(a.fields, b.fields)]) if a.fields else z3.BoolVal(True)
    if a.kind == "enum" and b.kind == "enum":
        cs = [a.discr == b.discr]
        for k in set(a.variants) & set(b.variants):
            fs = [val_eq(x, y) for x, y in zip(a.variants[k], b.variants[k]) if x.kind != "undef" and y.kind != "undef"]
            if fs:
                cs.append(z3.Implies(a.discr == k, z3.And(fs)))
        return z3.And(cs)
    raise Refuse("equality of %r and %r" % (a, b))


def _symmap(interp, path, mref):
    if mref.kind != "ref" or hasattr(mref, "target"):
        raise Refuse("map operation needs a reference to a map place, got %r" % (mref,))
    m = interp.read(path, mref.fid, mref.local, mref.projs)
    if m.kind != "struct" or not m.ty.startswith("SymMap"):
        raise Refuse("map operation on %r" % (m,))
    return m


def _slot_ref(mref, i, ty="&mut V", interp=None, path=None):
    if interp is not None:
        try:
            vt = _symmap(interp, path, mref).fields[i].fields[1].ty
            ty = ("&mut " if ty.startswith("&mut") else "&") + vt
        except Exception:
            pass
    return RefV(ty, mref.fid, mref.local, tuple(mref.projs) + (("field", i), ("field", 1)))


def _map_find(interp, path, mref, key):
    """fork: -> [(path, slot index or None)]"""
    m = _symmap(interp, path, mref)
    key = deref(interp, path, key)
    conds = []
    hits = []
    for i, s_ in enumerate(m.fields):
        if z3.is_false(s_.fields[2].term):
            continue            # a slot that is certainly free holds no key
        c = z3.And(s_.fields[2].term, val_eq(s_.fields[0], key))
        hits.append(c)
        conds.append((c, i))
    conds.append((z3.Not(z3.Or(hits)) if hits else z3.BoolVal(True), None))
    return interp.fork(path, conds), key


def _map_free_slot(interp, path, mref):
    """fork: -> [(path, free slot index)] ; plus an unwind outcome when the map is full"""
    m = _symmap(interp, path, mref)
    conds = []
    for i, s_ in enumerate(m.fields):
        earlier = [m.fields[j].fields[2].term for j in range(i)]
        conds.append((z3.And([z3.Not(s_.fields[2].term)] + earlier), i))
    conds.append((z3.And([s_.fields[2].term for s_ in m.fields]) if m.fields else z3.BoolVal(True), "full"))
    return interp.fork(path, conds)


def _map_put(interp, path, mref, i, key, value):
    m = _symmap(interp, path, mref)
    fs = list(m.fields)
    fs[i] = StructV("Slot", [key, value, BoolV(True)])
    interp.write(path, mref.fid, mref.local, mref.projs, StructV(m.ty, fs))


MAP_TY = r"(NonIterMap|HashMap|IndexMap|BTreeMap)"


@model(r"^" + MAP_TY + r"::<.*>::entry$", "entry API: remembers (map, key)")
def m_map_entry(interp, path, args, ret_ty, callee):
    _symmap(interp, path, args[0])
    return StructV("MapEntry", [args[0], deref(interp, path, args[1])])


@model(r"^(hash_map::|map::|btree_map::)?Entry::<.*>::or_insert$",
       "&mut to the value of the key, inserting the default into a free slot when absent")
def m_entry_or_insert(interp, path, args, ret_ty, callee):
    e = args[0]
    if e.kind != "struct" or e.ty != "MapEntry":
        raise Refuse("or_insert on %r" % (e,))
    mref, key = e.fields
    outs = []
    found, key = _map_find(interp, path, mref, key)
    for p, i in found:
        if i is not None:
            outs.append(Outcome(p, "ret", _slot_ref(mref, i, "&mut V", interp, p)))
            continue
        for p2, j in _map_free_slot(interp, p, mref):
            if j == "full":
                outs.append(Outcome(p2, "unwind", msg="map capacity bound exceeded in or_insert"))
            else:
                _map_put(interp, p2, mref, j, key, args[1])
                outs.append(Outcome(p2, "ret", _slot_ref(mref, j, "&mut V", interp, p2)))
    return outs


@model(r"^(hash_map::|map::|btree_map::)?Entry::<.*>::or_default$",
       "&mut to the value of the key, inserting the type's default (0 for integers) into a free slot when absent")
def m_entry_or_default(interp, path, args, ret_ty, callee):
    m = re.search(r"Entry::<'_, (.+), (\w+)>::or_default$", canon(callee))
    vty = m.group(2) if m else None
    if vty in INT_TYPES:
        dflt = IntV(0, vty)
    elif vty == "Decimal":
        dflt = StructV("Decimal", [StructV("I192", [IntV(0, "BInt<3>")])])
    else:
        raise Refuse("or_default for value type %s" % vty)
    return m_entry_or_insert(interp, path, [args[0], dflt], ret_ty, callee)


@model(r"^" + MAP_TY + r"::<.*>::keys$", "iterator over the keys of the present slots (slot order)")
def m_map_keys(interp, path, args, ret_ty, callee):
    m = _symmap(interp, path, args[0])
    return StructV("SlotKeysIter", list(m.fields))


@model(r"^<(map::|hash_map::|btree_map::)?Keys<.*> as Iterator>::next$", "next present key by reference (forks on presence)")
def m_map_keys_next(interp, path, args, ret_ty, callee):
    from .interp import _ConstRef
    r = args[0]
    if r.kind != "ref" or hasattr(r, "target"):
        raise Refuse("Iterator::next needs a reference to the iterator place")
    outs = []
    work = [path]
    while work:
        p = work.pop()
        it = interp.read(p, r.fid, r.local, r.projs)
        if it.kind != "struct" or it.ty != "SlotKeysIter":
            raise Refuse("Iterator::next on %r" % (it,))
        if not it.fields:
            outs.append(Outcome(p, "ret", EnumV(ret_ty, 0, {0: []})))
            continue
        s0 = it.fields[0]
        for p2, tag in interp.fork(p, [(s0.fields[2].term, "present"), (z3.Not(s0.fields[2].term), "absent")]):
            interp.write(p2, r.fid, r.local, r.projs, StructV("SlotKeysIter", it.fields[1:]))
            if tag == "present":
                outs.append(Outcome(p2, "ret", EnumV(ret_ty, 1, {1: [_ConstRef("&" + s0.fields[0].ty, s0.fields[0])]})))
            else:
                work.append(p2)
    return outs


@model(r"^" + MAP_TY + r"::<.*>::(get|get_mut)(::<.*>)?$", "Some(&value) of the slot holding the key, else None")
def m_map_get(interp, path, args, ret_ty, callee):
    mref = args[0]
    outs = []
    found, key = _map_find(interp, path, mref, args[1])
    for p, i in found:
        if i is None:
            outs.append(Outcome(p, "ret", EnumV(ret_ty, 0, {0: []})))
        else:
            outs.append(Outcome(p, "ret", EnumV(ret_ty, 1, {1: [_slot_ref(
                mref, i, "&mut V" if canon(callee).rstrip(">").endswith("get_mut") or "get_mut::<" in canon(callee) else "&V",
                interp, p)]})))
    return outs


def _fresh_symmap(interp, ty="SymMap<fresh>"):
    n = getattr(interp, "fresh_capacity", 0)
    return StructV(ty, [StructV("Slot", [UndefV(), UndefV(), BoolV(False)]) for _ in range(n)])


@model(r"^<" + MAP_TY + r"<.*> as Default>::default$|^(index_map_)?with_capacity::<.*>$|^" + MAP_TY + r"::<.*>::with_capacity$",
       "empty map with the job's bound of free slots")
def m_map_default(interp, path, args, ret_ty, callee):
    return _fresh_symmap(interp)


@model(r"^" + MAP_TY + r"::<.*>::(get_index|get_index_mut)$",
       "entry at an insertion position: slot i (slots fill in order and this model never reorders; None when the slot is free)")
def m_map_get_index(interp, path, args, ret_ty, callee):
    mref = args[0]
    m = _symmap(interp, path, mref)
    k = z3.simplify(args[1].term)
    if not z3.is_int_value(k):
        raise Refuse("get_index with a symbolic position")
    i = k.as_long()
    if i >= len(m.fields):
        return EnumV(ret_ty, 0, {0: []})
    mut = canon(callee).endswith("get_index_mut")
    outs = []
    pres = m.fields[i].fields[2].term
    for p, tag in interp.fork(path, [(pres, "some"), (z3.Not(pres), "none")]):
        if tag == "none":
            outs.append(Outcome(p, "ret", EnumV(ret_ty, 0, {0: []})))
            continue
        kref = RefV("&" + getattr(m.fields[i].fields[0], "ty", "K"), mref.fid, mref.local,
                    tuple(mref.projs) + (("field", i), ("field", 0)))
        vref = _slot_ref(mref, i, "&mut V" if mut else "&V", interp, p)
        outs.append(Outcome(p, "ret", EnumV(ret_ty, 1, {1: [StructV("(&K, &V)", [kref, vref])]})))
    return outs


@model(r"^" + MAP_TY + r"::<.*>::(iter|iter_mut)$|^<&(mut )?" + MAP_TY + r"<.*> as IntoIterator>::into_iter$",
       "borrowing iterator over the present slots in slot (= insertion) order")
def m_map_iter(interp, path, args, ret_ty, callee):
    _symmap(interp, path, args[0])
    return StructV("SymMapIter", [args[0], IntV(0, "usize")])


@model(r"^<(map::|hash_map::|btree_map::)(Iter|IterMut)<.*> as Iterator>::next$", "next present slot as (&key, &value)")
def m_map_iter_next(interp, path, args, ret_ty, callee):
    r = args[0]
    if r.kind != "ref" or hasattr(r, "target"):
        raise Refuse("Iterator::next needs a reference to the iterator place")
    outs = []
    work = [path]
    while work:
        p = work.pop()
        it = interp.read(p, r.fid, r.local, r.projs)
        if it.kind != "struct" or it.ty != "SymMapIter":
            raise Refuse("map Iter::next on %r" % (it,))
        mref, pos = it.fields[0], z3.simplify(it.fields[1].term).as_long()
        m = _symmap(interp, p, mref)
        if pos >= len(m.fields):
            outs.append(Outcome(p, "ret", EnumV(ret_ty, 0, {0: []})))
            continue
        pres = m.fields[pos].fields[2].term
        for p2, tag in interp.fork(p, [(pres, "yield"), (z3.Not(pres), "skip")]):
            interp.write(p2, r.fid, r.local, r.projs, StructV("SymMapIter", [mref, IntV(pos + 1, "usize")]))
            if tag == "skip":
                work.append(p2)
                continue
            kref = RefV("&" + getattr(m.fields[pos].fields[0], "ty", "K"), mref.fid, mref.local,
                        tuple(mref.projs) + (("field", pos), ("field", 0)))
            vref = _slot_ref(mref, pos, "&V", interp, p2)
            outs.append(Outcome(p2, "ret", EnumV(ret_ty, 1, {1: [StructV("(&K, &V)", [kref, vref])]})))
    return outs


@model(r"^<(map::|hash_map::|btree_map::)(Iter|IterMut)<.*> as IntoIterator>::into_iter$", "an iterator is its own IntoIterator")
def m_map_iter_identity(interp, path, args, ret_ty, callee):
    return args[0]


@model(r"^<impl ([iu](8|16|32|64|128|size))>::(saturating_add|saturating_sub|saturating_add_unsigned|saturating_sub_unsigned)$",
       "clamped to the type's range")
def m_int_saturating(interp, path, args, ret_ty, callee):
    m = re.match(r"^<impl (\w+)>::(\w+)$", canon(callee))
    ty, op = m.group(1), m.group(2)
    lo, hi = int_range(ty)
    v = args[0].term + args[1].term if "add" in op else args[0].term - args[1].term
    return IntV(z3.If(v > hi, hi, z3.If(v < lo, lo, v)), ty)


@model(r"^<impl (i(8|16|32|64|128|size))>::(is_negative|is_positive)$", "sign test")
def m_int_sign(interp, path, args, ret_ty, callee):
    return BoolV(args[0].term < 0 if canon(callee).endswith("is_negative") else args[0].term > 0)


@model(r"^<([iu](8|16|32|64|128|size)) as Default>::default$", "0")
def m_int_default(interp, path, args, ret_ty, callee):
    return IntV(0, re.match(r"^<(\w+) as", canon(callee)).group(1))


@model(r"^Vec::<.*>::with_capacity$|^<Vec<.*> as Default>::default$", "empty vector")
def m_vec_with_capacity(interp, path, args, ret_ty, callee):
    return StructV(ret_ty or "Vec<?>", [])


@model(r"^Vec::<.*>::(len|is_empty)$|^<impl \[.*\]>::(len|is_empty)$", "length of an entry-list vector / slice")
def m_vec_len(interp, path, args, ret_ty, callee):
    v = deref(interp, path, args[0])
    if v.kind != "struct":
        raise Refuse("len of %r" % (v,))
    n = len(v.fields)
    return IntV(n, "usize") if canon(callee).endswith("len") else BoolV(n == 0)


@model(r"^<impl \[.*\]>::(first|last)$", "first / last element of an entry-list slice by reference")
def m_slice_first(interp, path, args, ret_ty, callee):
    from .interp import _ConstRef
    v = deref(interp, path, args[0])
    if v.kind != "struct":
        raise Refuse("first of %r" % (v,))
    if not v.fields:
        return EnumV(ret_ty, 0, {0: []})
    e = v.fields[0] if canon(callee).endswith("first") else v.fields[-1]
    return EnumV(ret_ty, 1, {1: [_ConstRef("&" + getattr(e, "ty", "T"), e)]})


@model(r"^Option::<&.*>::(cloned|copied)$", "Some(&x) -> Some(x)")
def m_option_cloned(interp, path, args, ret_ty, callee):
    o = args[0]
    if o.kind != "enum":
        raise Refuse("cloned on %r" % (o,))
    vs = {0: []}
    if o.variants.get(1):
        vs[1] = [deref(interp, path, o.variants[1][0])]
    return EnumV(ret_ty, o.discr, vs)


@model(r"^" + MAP_TY + r"::<.*>::values$", "borrowing iterator over the values of the present slots")
def m_map_values(interp, path, args, ret_ty, callee):
    _symmap(interp, path, args[0])
    return StructV("SymMapValues", [args[0]])


@model(r"^<(map::|hash_map::|btree_map::)?Keys<.*> as Iterator>::cloned::<.*>$", "lazy cloned adaptor")
def m_keys_cloned(interp, path, args, ret_ty, callee):
    return args[0]


@model(r"^<Cloned<(map::|hash_map::|btree_map::)?Keys<.*>> as Iterator>::collect::<Vec<.*>>$",
       "the keys of the present slots in slot order (forks on presence)")
def m_keys_collect(interp, path, args, ret_ty, callee):
    it = args[0]
    if it.kind != "struct" or it.ty != "SlotKeysIter":
        raise Refuse("collect over %r" % (it,))
    outs = []
    work = [(path, 0, [])]
    while work:
        p, i, acc = work.pop()
        if i == len(it.fields):
            outs.append(Outcome(p, "ret", StructV(ret_ty or "Vec<?>", acc)))
            continue
        pres = it.fields[i].fields[2].term
        for p2, tag in interp.fork(p, [(pres, "in"), (z3.Not(pres), "out")]):
            work.append((p2, i + 1, acc + [it.fields[i].fields[0]] if tag == "in" else acc))
    return outs


@model(r"^<(map::|hash_map::|btree_map::)?Values<.*> as Iterator>::cloned::<.*>$", "lazy cloned adaptor")
def m_values_cloned(interp, path, args, ret_ty, callee):
    return args[0]


@model(r"^<Cloned<(map::|hash_map::|btree_map::)?Values<.*>> as Iterator>::collect::<Vec<.*>>$",
       "the values of the present slots in slot order (forks on presence)")
def m_values_collect(interp, path, args, ret_ty, callee):
    it = args[0]
    if it.kind != "struct" or it.ty != "SymMapValues":
        raise Refuse("collect over %r" % (it,))
    mref = it.fields[0]
    outs = []
    work = [(path, 0, [])]
    while work:
        p, i, acc = work.pop()
        m = _symmap(interp, p, mref)
        if i == len(m.fields):
            outs.append(Outcome(p, "ret", StructV(ret_ty or "Vec<?>", acc)))
            continue
        pres = m.fields[i].fields[2].term
        for p2, tag in interp.fork(p, [(pres, "in"), (z3.Not(pres), "out")]):
            work.append((p2, i + 1, acc + [m.fields[i].fields[1]] if tag == "in" else acc))
    return outs


@model(r"^<impl \[.*\]>::(get|get_mut)::<usize>$", "element by index (forks over the positions when the index is symbolic)")
def m_slice_get(interp, path, args, ret_ty, callee):
    from .interp import _ConstRef
    r = args[0]
    v = deref(interp, path, r)
    if v.kind != "struct":
        raise Refuse("slice get on %r" % (v,))
    idx = args[1].term
    n = len(v.fields)
    conds = [(idx == i, i) for i in range(n)] + [(z3.Or(idx < 0, idx >= n), None)]
    outs = []
    for p, i in interp.fork(path, conds):
        if i is None:
            outs.append(Outcome(p, "ret", EnumV(ret_ty, 0, {0: []})))
            continue
        e = v.fields[i]
        if isinstance(r, _ConstRef) or hasattr(r, "target"):
            ref = _ConstRef("&" + getattr(e, "ty", "T"), e)
        else:
            ref = RefV(("&mut " if "get_mut" in canon(callee) else "&") + getattr(e, "ty", "T"), r.fid, r.local,
                       tuple(r.projs) + (("field", i),))
        outs.append(Outcome(p, "ret", EnumV(ret_ty, 1, {1: [ref]})))
    return outs


@model(r"^Vec::<.*>::pop$", "remove and return the last element of an entry-list vector")
def m_vec_pop(interp, path, args, ret_ty, callee):
    r = args[0]
    if r.kind != "ref" or hasattr(r, "target"):
        raise Refuse("Vec::pop needs a reference to the vector place")
    v = interp.read(path, r.fid, r.local, r.projs)
    if not v.fields:
        return EnumV(ret_ty, 0, {0: []})
    interp.write(path, r.fid, r.local, r.projs, StructV(v.ty, list(v.fields[:-1])))
    return EnumV(ret_ty, 1, {1: [v.fields[-1]]})


@model(r"^" + MAP_TY + r"::<.*>::contains_key(::<.*>)?$", "some present slot holds the key")
def m_map_contains(interp, path, args, ret_ty, callee):
    m = _symmap(interp, path, args[0])
    key = deref(interp, path, args[1])
    hits = [z3.And(s_.fields[2].term, val_eq(s_.fields[0], key)) for s_ in m.fields if not z3.is_false(s_.fields[2].term)]
    return BoolV(z3.Or(hits) if hits else z3.BoolVal(False))


@model(r"^" + MAP_TY + r"::<.*>::insert$", "overwrite the key's slot (Some(old)) or fill a free slot (None)")
def m_map_insert(interp, path, args, ret_ty, callee):
    mref = args[0]
    outs = []
    found, key = _map_find(interp, path, mref, args[1])
    for p, i in found:
        if i is not None:
            m = _symmap(interp, p, mref)
            old = m.fields[i].fields[1]
            _map_put(interp, p, mref, i, key, args[2])
            outs.append(Outcome(p, "ret", EnumV(ret_ty, 1, {1: [old]})))
            continue
        for p2, j in _map_free_slot(interp, p, mref):
            if j == "full":
                outs.append(Outcome(p2, "unwind", msg="map capacity bound exceeded in insert"))
            else:
                _map_put(interp, p2, mref, j, key, args[2])
                outs.append(Outcome(p2, "ret", EnumV(ret_ty, 0, {0: []})))
    return outs


@model(r"^" + MAP_TY + r"::<.*>::(remove|swap_remove|shift_remove)(::<.*>)?$",
       "Some(value) and the slot becomes free, or None (the order effect of swap_remove is not modelled)")
def m_map_remove(interp, path, args, ret_ty, callee):
    mref = args[0]
    outs = []
    found, key = _map_find(interp, path, mref, args[1])
    for p, i in found:
        if i is None:
            outs.append(Outcome(p, "ret", EnumV(ret_ty, 0, {0: []})))
            continue
        m = _symmap(interp, p, mref)
        old = m.fields[i]
        fs = list(m.fields)
        fs[i] = StructV("Slot", [old.fields[0], old.fields[1], BoolV(False)])
        interp.write(p, mref.fid, mref.local, mref.projs, StructV(m.ty, fs))
        outs.append(Outcome(p, "ret", EnumV(ret_ty, 1, {1: [old.fields[1]]})))
    return outs


@model(r"^new::<.*>$|^(index_map_new|index_set_new|hash_map_new)(::<.*>)?$", "empty map (repo alias of IndexMap::new)")
def m_map_new(interp, path, args, ret_ty, callee):
    if args:
        raise Refuse("new::<..> with arguments")
    n = getattr(interp, "fresh_capacity", 0)
    return StructV("SymMap<empty>", [StructV("Slot", [UndefV(), UnitV(), BoolV(False)]) for _ in range(n)])


@model(r"^(BTreeSet|IndexSet|HashSet)::<.*>::new$", "empty set with the job's bound of free slots")
def m_set_new(interp, path, args, ret_ty, callee):
    n = getattr(interp, "fresh_capacity", 0)
    return StructV("SymMap<set>", [StructV("Slot", [UndefV(), UnitV(), BoolV(False)]) for _ in range(n)])


@model(r"^Box::<.*>::new$", "a box is its content")
def m_box_new(interp, path, args, ret_ty, callee):
    return args[0]


@model(r"^Box::<\[.*; \d+\]>::new_uninit$", "vec![..] lowering: an uninitialised boxed array is a fresh heap cell")
def m_box_new_uninit(interp, path, args, ret_ty, callee):
    heap = path.frames.setdefault("heap", {})
    key = "box%d" % len(heap)
    heap[key] = StructV("MaybeUninit", [UnitV(), StructV("ManuallyDrop", [StructV("MaybeDangling", [UnitV()])])])
    return StructV(ret_ty or "Box<?>", [StructV("Unique", [RefV("*const MaybeUninit", "heap", key, ())])])


@model(r"^(std::|alloc::)?(boxed::)?box_assume_init_into_vec_unsafe::<.*>$", "vec![..] lowering: the initialised boxed array becomes the vector")
def m_box_into_vec(interp, path, args, ret_ty, callee):
    r = args[0].fields[0].fields[0]
    cell = path.frames[r.fid][r.local]
    arr = cell.fields[1].fields[0].fields[0]
    if arr.kind != "struct":
        raise Refuse("vec![..] lowering: array was not initialised")
    return StructV(ret_ty or "Vec<?>", list(arr.fields))


@model(r"^Vec::<.*>::new$", "empty vector")
def m_vec_new(interp, path, args, ret_ty, callee):
    return StructV(ret_ty or "Vec<?>", [])


# ---------------------------------------------------------------- consuming iteration over an IndexMap entry list
@model(r"^<(map::|set::|hash_map::|btree_map::)?(IntoIter|Keys|Values|Iter|Difference)<.*> as IntoIterator>::into_iter$",
       "an iterator is its own IntoIterator")
def m_intoiter_identity(interp, path, args, ret_ty, callee):
    return args[0]


@model(r"^<(map::)?IntoIter<.*> as Iterator>::next$", "pop the first remaining entry (insertion order)")
def m_intoiter_next(interp, path, args, ret_ty, callee):
    r = args[0]
    if r.kind != "ref" or hasattr(r, "target"):
        raise Refuse("Iterator::next needs a reference to the iterator place")
    it = interp.read(path, r.fid, r.local, r.projs)
    if it.kind != "struct" or it.ty not in ("IndexMapIntoIter", "VecIntoIter"):
        raise Refuse("Iterator::next on %r" % (it,))
    if not it.fields:
        return EnumV(ret_ty, 0, {0: []})
    interp.write(path, r.fid, r.local, r.projs, StructV(it.ty, it.fields[1:]))
    return EnumV(ret_ty, 1, {1: [it.fields[0]]})


def _entries_to_symmap(entries, ty="SymMap<collected>"):
    return StructV(ty, [StructV("Slot", [e.fields[0], e.fields[1], BoolV(True)]) for e in entries])


@model(r"^<(map::)?IntoIter<.*> as Iterator>::collect::<BTreeMap<.*>$",
       "collect distinct-keyed entries into a dictionary: one present slot per entry")
def m_intoiter_collect_btree(interp, path, args, ret_ty, callee):
    it = args[0]
    if it.kind != "struct" or it.ty != "IndexMapIntoIter":
        raise Refuse("collect over %r" % (it,))
    return _entries_to_symmap(it.fields)


@model(r"^<(map::|vec::|slice::)?(IntoIter|Iter)<.*> as Iterator>::filter_map::<.*>$", "lazy filter_map adaptor (iterator, closure)")
def m_iter_filter_map(interp, path, args, ret_ty, callee):
    if args[0].kind != "struct" or args[0].ty not in BASE_ITERS:
        raise Refuse("Iterator::filter_map over %r" % (args[0],))
    return StructV("IterFilterMap", [args[0], args[1]])


def _materialize(interp, path, it):
    """evaluate a lazy adaptor chain over an entry list: -> [(path, [items])] plus non-returning outcomes"""
    from .interp import _ConstRef
    if it.kind == "struct" and norm_ty(it.ty).startswith("IndexMap<"):
        return [(path, list(it.fields))], []
    if it.kind == "struct" and it.ty in BASE_ITERS:
        return [(path, _base_items(it))], []
    if it.kind == "struct" and it.ty in ("IterMap", "IterFilterMap"):
        base, bad = _materialize(interp, path, it.fields[0])
        clo = it.fields[1]
        done = []
        for p0, items in base:
            work = [(p0, 0, [])]
            while work:
                p, i, acc = work.pop()
                if i == len(items):
                    done.append((p, acc))
                    continue
                for o in _apply_fn(interp, p, clo, [items[i]]):
                    if o.kind != "ret":
                        bad.append(o)
                    elif it.ty == "IterMap":
                        work.append((o.path, i + 1, acc + [o.value]))
                    else:
                        r = o.value
                        for p2, tag in interp.fork(o.path, [(r.discr == 1, "some"), (r.discr == 0, "none")]):
                            work.append((p2, i + 1, acc + [r.variants[1][0]] if tag == "some" else acc))
        return done, bad
    raise Refuse("cannot iterate %r" % (it,))


@model(r"^<\[.*; \d+\] as IntoIterator>::into_iter$", "consuming iterator over an array")
def m_array_into_iter(interp, path, args, ret_ty, callee):
    v = args[0]
    if v.kind != "struct":
        raise Refuse("array into_iter on %r" % (v,))
    return StructV("VecIntoIter", list(v.fields))


@model(r"^<(array::IntoIter|FilterMap|Map)<.*> as Iterator>::(map|filter_map)::<.*>$", "lazy adaptor over an iterator / adaptor")
def m_adaptor_over_adaptor(interp, path, args, ret_ty, callee):
    base = args[0]
    if base.kind != "struct" or base.ty not in BASE_ITERS + ("IterMap", "IterFilterMap"):
        raise Refuse("iterator adaptor over %r" % (base,))
    is_filter = re.search(r">::filter_map::<", canon(callee)) is not None
    return StructV("IterFilterMap" if is_filter else "IterMap", [base, args[1]])


@model(r"^<(array::IntoIter|FilterMap|Map|(vec::)?IntoIter)<.*> as Iterator>::max_by::<.*>$",
       "the maximum under the comparison closure (the last of several equal maxima, as core does)")
def m_iter_max_by(interp, path, args, ret_ty, callee):
    from .interp import _ConstRef
    done, bad = _materialize(interp, path, args[0])
    outs = list(bad)
    for p0, items in done:
        if not items:
            outs.append(Outcome(p0, "ret", EnumV(ret_ty, 0, {0: []})))
            continue
        work = [(p0, 1, items[0])]
        while work:
            p, i, best = work.pop()
            if i == len(items):
                outs.append(Outcome(p, "ret", EnumV(ret_ty, 1, {1: [best]})))
                continue
            x, y = best, items[i]
            for o in _apply_fn(interp, p, args[1], [_ConstRef("&" + x.ty, x), _ConstRef("&" + y.ty, y)]):
                if o.kind != "ret":
                    outs.append(o)
                    continue
                greater = o.value.discr == 1
                for p2, tag in interp.fork(o.path, [(greater, "keep"), (z3.Not(greater), "take")]):
                    work.append((p2, i + 1, x if tag == "keep" else y))
    return outs


@model(r"^<(set::|btree_set::|hash_set::)?Iter<.*> as Iterator>::filter::<.*>$", "lazy filter over a borrowing set iterator")
def m_setiter_filter(interp, path, args, ret_ty, callee):
    if args[0].kind != "struct" or args[0].ty != "SetRefIter":
        raise Refuse("filter over %r" % (args[0],))
    return StructV("SetRefFilter", [args[0], args[1]])


@model(r"^<Filter<(set::|btree_set::|hash_set::)?Iter<.*>, .*> as Iterator>::cloned::<.*>$", "lazy cloned adaptor")
def m_setfilter_cloned(interp, path, args, ret_ty, callee):
    return args[0]


@model(r"^<Cloned<Filter<(set::|btree_set::|hash_set::)?Iter<.*>, .*>> as Iterator>::collect::<(IndexSet|BTreeSet|HashSet)<.*>>$",
       "the kept elements as a set whose membership flags are the predicate's (symbolic) verdicts")
def m_setfilter_collect(interp, path, args, ret_ty, callee):
    from .interp import _ConstRef
    it = args[0]
    if it.kind != "struct" or it.ty != "SetRefFilter":
        raise Refuse("collect over %r" % (it,))
    elems, clo = it.fields[0].fields, it.fields[1]
    p = path
    slots = []
    for e in elems:
        # the predicate of Iterator::filter takes &&T
        outs = _apply_fn(interp, p, clo, [_ConstRef("&&" + e.ty, _ConstRef("&" + e.ty, e))])
        outs = [o for o in outs if o.kind != "unwind"]
        if len(outs) != 1 or outs[0].kind != "ret":
            raise Refuse("filter predicate forks or fails")
        p = outs[0].path
        slots.append(StructV("Slot", [e, UnitV(), BoolV(outs[0].value.term)]))
    return [Outcome(p, "ret", StructV("SymMap<filtered set>", slots))]


@model(r"^<(IndexSet|BTreeSet|HashSet)<.*> as IntoIterator>::into_iter$", "consuming iterator over an entry-list set")
def m_set_into_iter(interp, path, args, ret_ty, callee):
    v = args[0]
    if not _is_entry_set(v):
        raise Refuse("into_iter of %r" % (v,))
    return StructV("VecIntoIter", list(v.fields))


@model(r"^<(set::|btree_set::|hash_set::)IntoIter<.*> as Iterator>::next$", "next element by value")
def m_set_into_iter_next(interp, path, args, ret_ty, callee):
    return m_intoiter_next(interp, path, args, ret_ty, callee)


@model(r"^<(FilterMap|Map)<.*> as Iterator>::collect::<Vec<.*>$", "evaluate the adaptor chain in order into a vector")
def m_iter_collect_vec(interp, path, args, ret_ty, callee):
    done, bad = _materialize(interp, path, args[0])
    return [Outcome(p, "ret", StructV(ret_ty or "Vec<?>", items)) for p, items in done] + bad


@model(r"^<Map<.*> as Iterator>::collect::<(BTreeMap|IndexMap)<.*>$",
       "apply the closure to every entry in order and collect the (key, value) results into a dictionary / entry list")
def m_itermap_collect_map(interp, path, args, ret_ty, callee):
    it = args[0]
    if it.kind != "struct" or it.ty != "IterMap":
        raise Refuse("collect over %r" % (it,))
    from .interp import _ConstRef
    entries, clo = it.fields[0].fields, it.fields[1]
    to_btree = "collect::<BTreeMap" in canon(callee)
    outs = []
    work = [(path, 0, [])]
    while work:
        p, i, acc = work.pop()
        if i == len(entries):
            v = _entries_to_symmap(acc) if to_btree else StructV(ret_ty or "IndexMap<?>", acc)
            outs.append(Outcome(p, "ret", v))
            continue
        cty, cval = _closure_of(clo)
        f = interp.pick_closure(cty, [entries[i]], None)
        for o in interp.call_function(f, [_ConstRef("&mut " + cty, cval), entries[i]], p):
            if o.kind != "ret":
                outs.append(o)
            else:
                work.append((o.path, i + 1, acc + [o.value]))
    return outs


@model(r"^<BTreeMap<.*> as Extend<.*>>::extend::<.*>$",
       "insert every (key, value) the argument yields, in order (IndexMap, or a map / filter_map chain over one)")
def m_btree_extend(interp, path, args, ret_ty, callee):
    mref = args[0]
    sources, outs = _materialize(interp, path, args[1])
    work = [(p, 0, items) for p, items in sources]
    while work:
        p, i, items = work.pop()
        if i == len(items):
            outs.append(Outcome(p, "ret", UnitV()))
            continue
        e = items[i]
        found, key = _map_find(interp, p, mref, e.fields[0])
        for p1, slot in found:
            if slot is not None:
                _map_put(interp, p1, mref, slot, key, e.fields[1])
                work.append((p1, i + 1, items))
                continue
            for p2, j in _map_free_slot(interp, p1, mref):
                if j == "full":
                    outs.append(Outcome(p2, "unwind", msg="map capacity bound exceeded in extend"))
                else:
                    _map_put(interp, p2, mref, j, key, e.fields[1])
                    work.append((p2, i + 1, items))
    return outs


# ---------------------------------------------------------------- index / hash SETS
# a mutable set is a slot-array map with unit values (type "SymMap<.., ()>"); a set that is only read (iterated, cloned)
# is an entry list: StructV("IndexSet<..>", [elements]) with distinct symbolic elements and a concrete length.
def _is_entry_set(v):
    return v.kind == "struct" and re.match(r"^(IndexSet|BTreeSet|HashSet)<", norm_ty(v.ty)) is not None


@model(r"^<&(IndexSet|BTreeSet|HashSet|Vec)<.*> as IntoIterator>::into_iter$|^(IndexSet|BTreeSet|HashSet)::<.*>::iter$|"
       r"<impl \[.*\]>::iter$|^<&\[.*\] as IntoIterator>::into_iter$",
       "borrowing iterator over an entry-list set / vector (elements in order)")
def m_set_iter(interp, path, args, ret_ty, callee):
    v = deref(interp, path, args[0])
    if not (_is_entry_set(v) or (v.kind == "struct" and norm_ty(v.ty).startswith(("Vec<", "[")))):
        raise Refuse("iteration over %r" % (v,))
    return StructV("SetRefIter", list(v.fields))


@model(r"^Vec::<.*>::push$", "append an element to an entry-list vector")
def m_vec_push(interp, path, args, ret_ty, callee):
    r = args[0]
    if r.kind != "ref" or hasattr(r, "target"):
        raise Refuse("Vec::push needs a reference to the vector place")
    v = interp.read(path, r.fid, r.local, r.projs)
    interp.write(path, r.fid, r.local, r.projs, StructV(v.ty, list(v.fields) + [args[1]]))
    return UnitV()


@model(r"^<u(8|16|32|64|128|size) as Zero>::is_zero$", "x == 0")
def m_uint_is_zero(interp, path, args, ret_ty, callee):
    return BoolV(deref(interp, path, args[0]).term == 0)


@model(r"^<(set::|btree_set::|hash_set::|slice::)?Iter<.*> as Iterator>::next$", "next element by reference")
def m_set_iter_next(interp, path, args, ret_ty, callee):
    from .interp import _ConstRef
    r = args[0]
    if r.kind != "ref" or hasattr(r, "target"):
        raise Refuse("Iterator::next needs a reference to the iterator place")
    it = interp.read(path, r.fid, r.local, r.projs)
    if it.kind == "struct" and it.ty == "SymMapIter":
        return m_map_iter_next(interp, path, args, ret_ty, callee)
    if it.kind != "struct" or it.ty != "SetRefIter":
        raise Refuse("Iterator::next on %r" % (it,))
    if not it.fields:
        return EnumV(ret_ty, 0, {0: []})
    interp.write(path, r.fid, r.local, r.projs, StructV("SetRefIter", it.fields[1:]))
    return EnumV(ret_ty, 1, {1: [_ConstRef("&" + getattr(it.fields[0], "ty", "T"), it.fields[0])]})


@model(r"^(IndexSet|BTreeSet|HashSet)::<.*>::difference(::<.*>)?$", "lazy set difference (elements of a not in b)")
def m_set_difference(interp, path, args, ret_ty, callee):
    a, b = deref(interp, path, args[0]), deref(interp, path, args[1])
    if b.kind == "struct" and b.ty.startswith("SymMap") and all(z3.is_false(s_.fields[2].term) for s_ in b.fields):
        b = StructV("IndexSet<empty>", [])          # a set created empty by the code and never filled
    if a.kind == "struct" and a.ty.startswith("SymMap") and all(z3.is_false(s_.fields[2].term) for s_ in a.fields):
        a = StructV("IndexSet<empty>", [])
    if not (_is_entry_set(a) and _is_entry_set(b)):
        raise Refuse("difference of %r and %r" % (a, b))
    return StructV("SetDiffIter", [StructV("rest", list(a.fields)), b])


@model(r"^<(set::|btree_set::|hash_set::)?Difference<.*> as Iterator>::next$",
       "next element of the first set that is not in the second (forks on membership)")
def m_set_difference_next(interp, path, args, ret_ty, callee):
    from .interp import _ConstRef
    r = args[0]
    if r.kind != "ref" or hasattr(r, "target"):
        raise Refuse("Iterator::next needs a reference to the iterator place")
    outs = []
    work = [path]
    while work:
        p = work.pop()
        it = interp.read(p, r.fid, r.local, r.projs)
        if it.kind != "struct" or it.ty != "SetDiffIter":
            raise Refuse("Iterator::next on %r" % (it,))
        rest, b = it.fields[0].fields, it.fields[1]
        if not rest:
            outs.append(Outcome(p, "ret", EnumV(ret_ty, 0, {0: []})))
            continue
        e = rest[0]
        inb = z3.Or([val_eq(x, e) for x in b.fields]) if b.fields else z3.BoolVal(False)
        for p2, tag in interp.fork(p, [(inb, "skip"), (z3.Not(inb), "yield")]):
            interp.write(p2, r.fid, r.local, r.projs, StructV("SetDiffIter", [StructV("rest", rest[1:]), b]))
            if tag == "skip":
                work.append(p2)
            else:
                outs.append(Outcome(p2, "ret", EnumV(ret_ty, 1, {1: [_ConstRef("&" + getattr(e, "ty", "T"), e)]})))
    return outs


@model(r"^(IndexSet|BTreeSet|HashSet)::<.*>::is_subset(::<.*>)?$", "every element of a is in b")
def m_set_is_subset(interp, path, args, ret_ty, callee):
    a, b = deref(interp, path, args[0]), deref(interp, path, args[1])
    if not (_is_entry_set(a) and _is_entry_set(b)):
        raise Refuse("is_subset of %r and %r" % (a, b))
    cs = [z3.Or([val_eq(x, e) for x in b.fields]) if b.fields else z3.BoolVal(False) for e in a.fields]
    return BoolV(z3.And(cs) if cs else z3.BoolVal(True))


@model(r"^(IndexSet|BTreeSet|HashSet)::<.*>::(swap_remove|shift_remove|remove)(::<.*>)?$",
       "true and the slot becomes free when the element is present, else false")
def m_set_remove(interp, path, args, ret_ty, callee):
    mref = args[0]
    outs = []
    found, key = _map_find(interp, path, mref, args[1])
    for p, i in found:
        if i is None:
            outs.append(Outcome(p, "ret", BoolV(False)))
            continue
        m = _symmap(interp, p, mref)
        old = m.fields[i]
        fs = list(m.fields)
        fs[i] = StructV("Slot", [old.fields[0], old.fields[1], BoolV(False)])
        interp.write(p, mref.fid, mref.local, mref.projs, StructV(m.ty, fs))
        outs.append(Outcome(p, "ret", BoolV(True)))
    return outs


@model(r"^(IndexSet|BTreeSet|HashSet)::<.*>::insert$", "false when already present, else fills a free slot and returns true")
def m_set_insert(interp, path, args, ret_ty, callee):
    mref = args[0]
    outs = []
    found, key = _map_find(interp, path, mref, args[1])
    for p, i in found:
        if i is not None:
            outs.append(Outcome(p, "ret", BoolV(False)))
            continue
        for p2, j in _map_free_slot(interp, p, mref):
            if j == "full":
                outs.append(Outcome(p2, "unwind", msg="set capacity bound exceeded in insert"))
            else:
                _map_put(interp, p2, mref, j, key, UnitV())
                outs.append(Outcome(p2, "ret", BoolV(True)))
    return outs


@model(r"^(IndexSet|BTreeSet|HashSet)::<.*>::contains(::<.*>)?$", "membership")
def m_set_contains(interp, path, args, ret_ty, callee):
    v = deref(interp, path, args[0])
    key = deref(interp, path, args[1])
    if _is_entry_set(v):
        return BoolV(z3.Or([val_eq(e, key) for e in v.fields]) if v.fields else z3.BoolVal(False))
    m = _symmap(interp, path, args[0])
    hits = [z3.And(s_.fields[2].term, val_eq(s_.fields[0], key)) for s_ in m.fields if not z3.is_false(s_.fields[2].term)]
    return BoolV(z3.Or(hits) if hits else z3.BoolVal(False))


@model(r"^(IndexSet|BTreeSet|HashSet|IndexMap|BTreeMap|HashMap|NonIterMap)::<.*>::(len|is_empty)$", "number of present entries")
def m_coll_len(interp, path, args, ret_ty, callee):
    v = deref(interp, path, args[0])
    if v.kind == "struct" and v.ty.startswith("SymMap"):
        n = z3.Sum([z3.If(s_.fields[2].term, 1, 0) for s_ in v.fields]) if v.fields else z3.IntVal(0)
    elif v.kind == "struct":
        n = z3.IntVal(len(v.fields))
    else:
        raise Refuse("len of %r" % (v,))
    return IntV(n, "usize") if canon(callee).endswith("len") else BoolV(n == 0)


@model(r"^<(IndexSet|BTreeSet|HashSet)<.*> as Extend<.*>>::extend::<.*>$", "insert every element the argument yields")
def m_set_extend(interp, path, args, ret_ty, callee):
    mref = args[0]
    src = args[1]
    if not _is_entry_set(src):
        raise Refuse("extend with %r" % (src,))
    outs = []
    work = [(path, 0)]
    while work:
        p, i = work.pop()
        if i == len(src.fields):
            outs.append(Outcome(p, "ret", UnitV()))
            continue
        found, key = _map_find(interp, p, mref, src.fields[i])
        for p1, slot in found:
            if slot is not None:
                work.append((p1, i + 1))
                continue
            for p2, j in _map_free_slot(interp, p1, mref):
                if j == "full":
                    outs.append(Outcome(p2, "unwind", msg="set capacity bound exceeded in extend"))
                else:
                    _map_put(interp, p2, mref, j, key, UnitV())
                    work.append((p2, i + 1))
    return outs


@model(r"^(IndexSet|BTreeSet|HashSet|IndexMap|BTreeMap|HashMap|NonIterMap)::<.*>::clear$", "every slot becomes free")
def m_coll_clear(interp, path, args, ret_ty, callee):
    mref = args[0]
    m = _symmap(interp, path, mref)
    fs = [StructV("Slot", [s_.fields[0], s_.fields[1], BoolV(False)]) for s_ in m.fields]
    interp.write(path, mref.fid, mref.local, mref.projs, StructV(m.ty, fs))
    return UnitV()


@model(r"^(std::)?mem::replace::<.*>$|^replace::<.*>$", "store the new value, return the old one")
def m_mem_replace(interp, path, args, ret_ty, callee):
    r = args[0]
    if r.kind != "ref" or hasattr(r, "target"):
        raise Refuse("mem::replace needs a reference to a place")
    old = interp.read(path, r.fid, r.local, r.projs)
    interp.write(path, r.fid, r.local, r.projs, args[1])
    return old


@model(r"^<&(.+) as (PartialOrd|PartialEq|Ord)(<&.+>)?>::(partial_cmp|cmp|eq|ne|lt|le|gt|ge)$",
       "std impls of the comparison traits for references: forward to the referent's impl")
def m_ref_cmp_forward(interp, path, args, ret_ty, callee):
    m = re.match(r"^<&(.+) as (PartialOrd|PartialEq|Ord)(<&.+>)?>::(\w+)$", canon(callee))
    t, trait, meth = m.group(1), m.group(2), m.group(4)

    def one_level(v):
        if hasattr(v, "target"):
            return v.target
        if v.kind == "ref":
            return interp.read(path, v.fid, v.local, v.projs)
        raise Refuse("comparison of references on %r" % (v,))
    return interp.call_named(path, "<%s as %s>::%s" % (t, trait, meth), [one_level(a) for a in args], ret_ty)


@model(r"^<([iu](8|16|32|64|128|size)) as (AddAssign|SubAssign)(<.*>)?>::(add_assign|sub_assign)$",
       "in-place add / subtract through the reference; overflow panics (overflow checks on)")
def m_prim_op_assign(interp, path, args, ret_ty, callee):
    r, y = args[0], args[1]
    ty = re.match(r"^<(\w+) as", canon(callee)).group(1)
    if r.kind != "ref" or hasattr(r, "target"):
        raise Refuse("op-assign needs a reference to a place")
    cur = interp.read(path, r.fid, r.local, r.projs)
    val = cur.term + y.term if "add_assign" in callee else cur.term - y.term
    outs = []
    for p, tag in interp.fork(path, [(in_range(val, ty), "ok"), (z3.Not(in_range(val, ty)), "ovf")]):
        if tag == "ok":
            interp.write(p, r.fid, r.local, r.projs, IntV(val, ty))
            outs.append(Outcome(p, "ret", UnitV()))
        else:
            outs.append(Outcome(p, "panic", msg="attempt to add/subtract with overflow"))
    return outs


# ---------------------------------------------------------------- std blanket conversions
@model(r"^<([A-Z]\w*) as TryFrom<(\w+)>>::try_from$",
       "std blanket `impl<T, U: Into<T>> TryFrom<U> for T` (used only when /repo defines no TryFrom<U> for T): "
       "Ok(<T as From<U>>::from(u)), the From impl being executed from MIR")
def m_blanket_try_from(interp, path, args, ret_ty, callee):
    m = re.match(r"^<([A-Z]\w*) as TryFrom<(\w+)>>::try_from$", canon(callee))
    t, u = m.group(1), m.group(2)
    kind, target = interp.resolve("<%s as From<%s>>::from" % (t, u), args, t)
    if kind != "mir":
        raise Refuse("blanket TryFrom: no MIR body for <%s as From<%s>>::from" % (t, u))
    outs = []
    for o in interp.call_function(target, list(args), path):
        outs.append(Outcome(o.path, "ret", EnumV(ret_ty, 0, {0: [o.value]})) if o.kind == "ret" else o)
    return outs


@model(r"^<(.+) as TryInto<(.+)>>::try_into$",
       "std blanket `impl<T, U: TryFrom<T>> TryInto<U> for T`: forwards to <U as TryFrom<T>>::try_from")
def m_blanket_try_into(interp, path, args, ret_ty, callee):
    m = re.match(r"^<(.+) as TryInto<(.+)>>::try_into$", canon(callee))
    return interp.call_named(path, "<%s as TryFrom<%s>>::try_from" % (m.group(2), m.group(1)), args, ret_ty)


@model(r"^<((?![iu](?:8|16|32|64|128|size)\b|[TU]\b)[A-Za-z_]\w*) as Into<([A-Z]\w*)>>::into$",
       "std blanket `impl<T, U: From<T>> Into<U> for T`: forwards to <U as From<T>>::from")
def m_blanket_into(interp, path, args, ret_ty, callee):
    m = re.match(r"^<((?![iu](?:8|16|32|64|128|size)\b|[TU]\b)[A-Za-z_]\w*) as Into<([A-Z]\w*)>>::into$", canon(callee))
    return interp.call_named(path, "<%s as From<%s>>::from" % (m.group(2), m.group(1)), args, ret_ty)


@model(r"<impl u(16|32|64|128)>::to_(be|le)_bytes$", "byte decomposition of an unsigned primitive")
def m_to_bytes(interp, path, args, ret_ty, callee):
    m = re.search(r"<impl u(\d+)>::to_(be|le)_bytes$", canon(callee))
    n = int(m.group(1)) // 8
    x = args[0].term
    bs = [IntV((x / (256 ** i)) % 256, "u8") for i in range(n)]      # little-endian order
    if m.group(2) == "be":
        bs.reverse()
    return StructV("[u8; %d]" % n, bs)


# ---------------------------------------------------------------- conversions between primitive ints
@model(r"^<([iu](8|16|32|64|128|size)|T|U) as (Into|From)<([iu](8|16|32|64|128|size)|bool|T|U)>>::(into|from)$",
       "lossless primitive conversion (value preserved; refused if the target cannot hold the source type)")
def m_prim_from(interp, path, args, ret_ty, callee):
    v = args[0]
    if v.kind == "bool":
        return IntV(z3.If(v.term, 1, 0), ret_ty)
    if v.kind != "int" or ret_ty not in INT_TYPES:
        raise Refuse("Into/From on %r -> %s" % (v, ret_ty))
    slo, shi = int_range(v.ty)
    tlo, thi = int_range(ret_ty)
    if slo < tlo or shi > thi:
        raise Refuse("lossy Into/From %s -> %s" % (v.ty, ret_ty))
    return IntV(v.term, ret_ty)


@model(r"^<[iu](8|16|32|64|128|size) as TryFrom<([iu](8|16|32|64|128|size)|BInt<\d+>|BUint<\d+>)>>::try_from$",
       "Ok(v) iff the value fits the target type (primitive or bnum source)")
def m_prim_try_from(interp, path, args, ret_ty, callee):
    to = re.match(r"^<(\w+) as", norm_ty(callee)).group(1)
    x = args[0].term
    ok = in_range(x, to)
    return EnumV(ret_ty, z3.If(ok, 0, 1), {0: [IntV(x, to)], 1: [StructV("TryFromIntError", [])]})


@model(r"^<(BInt<\d+>|BUint<\d+>) as TryFrom<[iu](8|16|32|64|128|size)>>::try_from$",
       "bnum: Ok(v) iff the primitive value fits the big integer type")
def m_bnum_try_from_prim(interp, path, args, ret_ty, callee):
    to = re.match(r"^<(\w+<\d+>) as", canon(callee)).group(1)
    x = args[0].term
    ok = in_range(x, to)
    return EnumV(ret_ty, z3.If(ok, 0, 1), {0: [IntV(x, to)], 1: [StructV("TryFromIntError", [])]})


@model(r"^<Vec<.*> as IntoIterator>::into_iter$", "consuming iterator over an entry-list vector")
def m_vec_into_iter(interp, path, args, ret_ty, callee):
    v = args[0]
    if v.kind != "struct" or not norm_ty(v.ty).startswith("Vec<"):
        raise Refuse("Vec::into_iter on %r" % (v,))
    return StructV("VecIntoIter", list(v.fields))


@model(r"^<Vec<.*> as (__)?Deref(Mut)?>::deref(_mut)?$", "a vector viewed as a slice: same elements (entry-list model)")
def m_vec_deref(interp, path, args, ret_ty, callee):
    from .interp import _ConstRef
    r = args[0]
    if isinstance(r, _ConstRef):
        return _ConstRef(ret_ty or "&[T]", r.target)
    if r.kind == "ref":
        return RefV(ret_ty or "&[T]", r.fid, r.local, r.projs)
    raise Refuse("Vec::deref on %r" % (r,))


@model(r"^<.* as Clone>::clone$", "Copy types: bitwise copy")
def m_clone(interp, path, args, ret_ty, callee):
    v = deref(interp, path, args[0])
    if v.kind in ("int", "bool", "struct", "enum", "unit"):
        return v
    raise Refuse("clone of %r" % (v,))


@model(r"^(cmp::)?(min|max)::<[iu](8|16|32|64|128|size)>$|^<[iu](8|16|32|64|128|size) as Ord>::(min|max)$",
       "integer min / max")
def m_minmax(interp, path, args, ret_ty, callee):
    x, y = args[0].term, args[1].term
    ismin = "min" in callee.rsplit("::", 1)[-1] or "min::<" in callee
    return IntV(z3.If(x <= y, x, y) if ismin else z3.If(x >= y, x, y), args[0].ty)


# ---------------------------------------------------------------- ranges and slices
@model(r"^<Range<.*> as IntoIterator>::into_iter$|^<RangeInclusive<.*> as IntoIterator>::into_iter$", "identity")
def m_into_iter(interp, path, args, ret_ty, callee):
    return args[0]


@model(r"^<Range<[iu](8|16|32|64|128|size)> as Iterator>::next$", "if start < end { start += 1; Some(old) } else None")
def m_range_next(interp, path, args, ret_ty, callee):
    r = args[0]
    rng = interp.read(path, r.fid, r.local, r.projs)
    start, end = rng.fields[0], rng.fields[1]
    c = start.term < end.term
    outs = []
    for p, tag in interp.fork(path, [(c, "some"), (z3.Not(c), "none")]):
        if tag == "some":
            interp.write(p, r.fid, r.local, r.projs, StructV(rng.ty, [IntV(start.term + 1, start.ty), end]))
            outs.append(Outcome(p, "ret", some(ret_ty, start)))
        else:
            outs.append(Outcome(p, "ret", none(ret_ty)))
    return outs


@model(r"^RangeInclusive::<.*>::new$", "(start, end, exhausted=false)")
def m_rangeinc_new(interp, path, args, ret_ty, callee):
    return StructV(ret_ty, [args[0], args[1], BoolV(False)])


@model(r"^RangeInclusive::<.*>::contains::<.*>$|^<impl RangeInclusive<.*>>::contains::<.*>$|"
       r"^<RangeInclusive<.*> as RangeBounds<.*>>::contains::<.*>$", "start <= x <= end")
def m_rangeinc_contains(interp, path, args, ret_ty, callee):
    r = deref(interp, path, args[0])
    x = deref(interp, path, args[1])
    return BoolV(z3.And(r.fields[0].term <= x.term, x.term <= r.fields[1].term))


@model(r"<impl \[.*\]>::rotate_left$", "rotate a fixed-size array by a concrete amount")
def m_rotate_left(interp, path, args, ret_ty, callee):
    r = args[0]
    arr = interp.read(path, r.fid, r.local, r.projs)
    k = concrete(args[1].term)
    if k is None or arr.kind != "struct":
        raise Refuse("rotate_left with symbolic amount")
    fs = list(arr.fields)
    k = k % len(fs)
    interp.write(path, r.fid, r.local, r.projs, StructV(arr.ty, fs[k:] + fs[:k]))
    return UnitV()


@model(r"^Arguments::<'_>::(from_str|new_const::<\d+>)$", "panic message (opaque)")
def m_fmt_args(interp, path, args, ret_ty, callee):
    a = args[0]
    if a.kind == "str":
        return a
    return StrV("<fmt>")


# ---------------------------------------------------------------- derived / default trait methods on repo types
@model(r"^<.* as PartialOrd(<[^>]*>)?>::(lt|le|gt|ge)$",
       "default method: via the type's own partial_cmp (executed from its MIR)")
def m_partial_ord_default(interp, path, args, ret_ty, callee):
    op = callee.rsplit("::", 1)[1]
    target = callee[:callee.rindex("::")] + "::partial_cmp"
    outs = []
    for o in interp.do_call(path, None, None, target, args, "Option<Ordering>"):
        if o.kind != "ret":
            outs.append(o)
            continue
        opt = o.value
        d = opt.variants[1][0].discr
        t = {"lt": d == -1, "le": z3.Or(d == -1, d == 0), "gt": d == 1, "ge": z3.Or(d == 1, d == 0)}[op]
        outs.append(Outcome(o.path, "ret", BoolV(z3.And(opt.discr == 1, t))))
    return outs


def _di(x):
    return z3.IntVal(x) if isinstance(x, int) else x


@model(r"^<Option<(.+)> as PartialEq>::eq$", "derived: both None, or both Some with equal payloads")
def m_option_eq(interp, path, args, ret_ty, callee):
    from .interp import _ConstRef
    t = re.match(r"^<Option<(.+)> as PartialEq>::eq$", canon(callee)).group(1)
    a, b = deref(interp, path, args[0]), deref(interp, path, args[1])
    same = a.discr == b.discr if not (isinstance(a.discr, int) and isinstance(b.discr, int)) else z3.BoolVal(a.discr == b.discr)
    pa, pb = a.variants.get(1), b.variants.get(1)
    if not pa or not pb:
        return BoolV(z3.And(same, _di(a.discr) == 0)) if (pa or pb) else BoolV(same)
    outs = []
    for o in interp.call_named(path, "<%s as PartialEq>::eq" % t,
                               [_ConstRef("&" + t, pa[0]), _ConstRef("&" + t, pb[0])], "bool"):
        if o.kind != "ret":
            outs.append(o)
        else:
            outs.append(Outcome(o.path, "ret", BoolV(z3.And(same, z3.Or(_di(a.discr) == 0, o.value.term)))))
    return outs


@model(r"^<.* as PartialEq(<[^>]*>)?>::ne$", "default method: !eq")
def m_ne_default(interp, path, args, ret_ty, callee):
    target = callee[:callee.rindex("::")] + "::eq"
    outs = []
    for o in interp.do_call(path, None, None, target, args, "bool"):
        outs.append(Outcome(o.path, "ret", BoolV(z3.Not(o.value.term))) if o.kind == "ret" else o)
    return outs


@model(r"^(cmp::)?(min|max)::<(.+)>$", "std::cmp::min / max via the type's Ord::cmp (ties: min gives the first, max the second)")
def m_cmp_minmax(interp, path, args, ret_ty, callee):
    from .interp import _ConstRef
    m = re.match(r"^(?:cmp::)?(min|max)::<(.+)>$", canon(callee))
    op, t = m.group(1), m.group(2)
    outs = []
    for o in interp.call_named(path, "<%s as Ord>::cmp" % t, [_ConstRef("&" + t, args[0]), _ConstRef("&" + t, args[1])], "Ordering"):
        if o.kind != "ret":
            outs.append(o)
            continue
        d = o.value.discr
        greater = d == 1
        pick_second = greater if op == "min" else z3.Not(greater)
        for p2, tag in interp.fork(o.path, [(pick_second, "second"), (z3.Not(pick_second), "first")]):
            outs.append(Outcome(p2, "ret", args[1] if tag == "second" else args[0]))
    return outs


@model(r"^<.* as Ord>::(max|min)$", "default method via cmp")
def m_ord_minmax_default(interp, path, args, ret_ty, callee):
    op = callee.rsplit("::", 1)[1]
    target = callee[:callee.rindex("::")] + "::cmp"
    outs = []
    # cmp takes references: build temporaries in a scratch frame
    fid = path.nfid
    path.nfid += 1
    path.frames[fid] = {"_a": args[0], "_b": args[1]}
    ra = RefV("&" + args[0].ty, fid, "_a")
    rb = RefV("&" + args[1].ty, fid, "_b")
    for o in interp.do_call(path, None, None, target, [ra, rb], "Ordering"):
        if o.kind != "ret":
            outs.append(o)
            continue
        d = o.value.discr
        # max: if self > other { self } else { other } ; min: if self <= other (i.e. not Greater) ...
        pick_a = (d == 1) if op == "max" else (d != 1)
        for p, tag in interp.fork(o.path, [(pick_a, "a"), (z3.Not(pick_a), "b")]):
            outs.append(Outcome(p, "ret", args[0] if tag == "a" else args[1]))
    return outs


# ---------------------------------------------------------------- library constants
def library_const(interp, name, want_ty):
    n = norm_ty(name)
    m = re.match(r"^(BInt|BUint)::<(\d+)>::(MIN|MAX|ZERO|ONE|TWO|TEN|BITS|BYTES)$", n) or \
        re.match(r"^<impl (BInt|BUint)<(\d+)>>::(MIN|MAX|ZERO|ONE|TWO|TEN|BITS|BYTES)$", n)
    if m:
        ty = "%s<%s>" % (m.group(1), m.group(2))
        lo, hi = int_range(ty)
        k = m.group(3)
        if k in ("BITS", "BYTES"):
            bits = 64 * int(m.group(2))
            return IntV(bits if k == "BITS" else bits // 8, norm_ty(want_ty) if want_ty else "u32")
        return IntV({"MIN": lo, "MAX": hi, "ZERO": 0, "ONE": 1, "TWO": 2, "TEN": 10}[k], ty)
    m = re.match(r"^(?:core::num::|std::)?([iu](?:8|16|32|64|128|size))::(MIN|MAX|BITS)$", name.strip()) or \
        re.match(r"^([iu](?:8|16|32|64|128|size))::(MIN|MAX|BITS)$", n) or \
        re.match(r"^<impl ([iu](?:8|16|32|64|128|size))>::(MIN|MAX|BITS)$", n)
    if m:
        lo, hi = int_range(m.group(1))
        if m.group(2) == "BITS":
            return IntV(INT_TYPES[m.group(1)][0], "u32")
        return IntV(lo if m.group(2) == "MIN" else hi, m.group(1))
    # layout constants only feed rustc's pointer-alignment / null-pointer debug assertions (vec![..] lowering); heap cells
    # of the model live at a fixed aligned non-null address, so any power of two serves
    if re.search(r" as (std::mem::|core::mem::)?SizedTypeProperties>::(ALIGN|SIZE)$", name.strip()):
        return IntV(8, "usize")
    return None


# ---------------------------------------------------------------- byte slices (read-only views; entry-list model)
def _elems(interp, path, v):
    v = deref(interp, path, v)
    if v.kind != "struct" or v.ty.startswith("SymLenVec"):
        raise Refuse("byte-slice view of %r" % (v,))
    return v


@model(r"^array::<impl \[u8; \d+\]>::as_slice$|^<impl \[u8; \d+\]>::as_slice$", "an array viewed as a slice: same elements")
def m_array_as_slice(interp, path, args, ret_ty, callee):
    from .interp import _ConstRef
    return _ConstRef(ret_ty or "&[u8]", _elems(interp, path, args[0]))


@model(r"^<(Vec<u8>|\[u8\]|\[u8; \d+\]) as Index<(RangeTo|RangeFrom)<usize>>>::index$",
       "sub-slice with a concrete bound: the elements before / from that position; a bound past the end panics")
def m_bytes_index_range(interp, path, args, ret_ty, callee):
    from .interp import _ConstRef
    base = _elems(interp, path, args[0])
    rng = args[1]
    b = z3.simplify(rng.fields[0].term)
    if not z3.is_int_value(b):
        raise Refuse("sub-slice with a symbolic bound")
    b = b.as_long()
    n = len(base.fields)
    if b > n:
        return [Outcome(path, "panic", msg="range end index %d out of range for slice of length %d" % (b, n))]
    part = base.fields[:b] if "RangeTo<" in canon(callee) else base.fields[b:]
    return _ConstRef(ret_ty or "&[u8]", StructV("[u8]", list(part)))


@model(r"^(std::|alloc::)?slice::<impl \[&\[u8\]\]>::concat::<u8>$|^<impl \[&\[u8\]\]>::concat::<u8>$",
       "concatenation of the listed slices, in order")
def m_slices_concat(interp, path, args, ret_ty, callee):
    parts = _elems(interp, path, args[0])
    out = []
    for p_ in parts.fields:
        out += list(_elems(interp, path, p_).fields)
    return StructV("Vec<u8>", out)


@model(r"^(std::|alloc::)?slice::<impl \[u8\]>::to_vec$|^<impl \[u8\]>::to_vec$", "a vector with the same elements")
def m_bytes_to_vec(interp, path, args, ret_ty, callee):
    return StructV("Vec<u8>", list(_elems(interp, path, args[0]).fields))


@model(r"^(radix_rust::)?(slice::)?copy_u8_array::<\d+>$", "radix_rust::copy_u8_array: the N bytes of the slice; any other length panics")
def m_copy_u8_array(interp, path, args, ret_ty, callee):
    n = int(re.search(r"copy_u8_array::<(\d+)>$", canon(callee)).group(1))
    src = _elems(interp, path, args[0])
    if len(src.fields) != n:
        return [Outcome(path, "panic", msg="copy_u8_array: slice of length %d into [u8; %d]" % (len(src.fields), n))]
    return StructV("[u8; %d]" % n, list(src.fields))


@model(r"<impl u(16|32|64|128)>::from_(be|le)_bytes$", "the unsigned integer with these big- / little-endian bytes")
def m_uint_from_bytes(interp, path, args, ret_ty, callee):
    m = re.search(r"<impl (u\d+)>::from_(be|le)_bytes$", canon(callee))
    ty, end = m.group(1), m.group(2)
    bs = [f.term for f in _elems(interp, path, args[0]).fields]
    if len(bs) * 8 != int(ty[1:]):
        raise Refuse("from_bytes: %d bytes for %s" % (len(bs), ty))
    if end == "le":
        bs = bs[::-1]
    acc = z3.IntVal(0)
    for b in bs:
        acc = acc * 256 + b
    return IntV(acc, ty)


@model(r"<impl u(16|32|64|128)>::to_(be|le)_bytes$", "the big- / little-endian bytes of the unsigned integer")
def m_uint_to_bytes(interp, path, args, ret_ty, callee):
    m = re.search(r"<impl (u\d+)>::to_(be|le)_bytes$", canon(callee))
    ty, end = m.group(1), m.group(2)
    n = int(ty[1:]) // 8
    x = args[0].term
    le = [IntV((x / (256 ** i)) % 256, "u8") for i in range(n)]
    return StructV("[u8; %d]" % n, le if end == "le" else le[::-1])
