"""Parser for rustc's textual MIR (-Zunpretty=mir). Produces Function objects (header, local types, basic blocks).

Only syntax is handled here; all semantics live in interp.py. Anything the parser does not understand is kept
as a raw string and makes the interpreter refuse the function (never silently skipped).
"""
import re


class MirSyntaxError(Exception):
    pass


def split_top(s, sep=","):
    """Split on `sep` at bracket depth 0 (handles (), [], {}, <> and string literals)."""
    out, depth, cur, i, n = [], 0, [], 0, len(s)
    instr = False
    while i < n:
        c = s[i]
        if instr:
            cur.append(c)
            if c == "\\" and i + 1 < n:
                cur.append(s[i + 1])
                i += 1
            elif c == '"':
                instr = False
        elif c == '"':
            instr = True
            cur.append(c)
        elif c in "([{":
            depth += 1
            cur.append(c)
        elif c in ")]}":
            depth -= 1
            cur.append(c)
        elif c == "<":
            # generic bracket unless it is a comparison (never in MIR operand position) or `->`
            depth += 1
            cur.append(c)
        elif c == ">":
            if i > 0 and s[i - 1] == "-" or i > 0 and s[i - 1] == "=":
                cur.append(c)  # `->` or `=>`
            else:
                depth -= 1
                cur.append(c)
        elif c == sep and depth == 0:
            out.append("".join(cur).strip())
            cur = []
        else:
            cur.append(c)
        i += 1
    last = "".join(cur).strip()
    if last:
        out.append(last)
    return out


def find_matching(s, start):
    """s[start] is an opening bracket; return index of its match."""
    pairs = {"(": ")", "[": "]", "{": "}", "<": ">"}
    o = s[start]
    c = pairs[o]
    depth, i, n = 0, start, len(s)
    instr = False
    while i < n:
        ch = s[i]
        if instr:
            if ch == "\\":
                i += 1
            elif ch == '"':
                instr = False
        elif ch == '"':
            instr = True
        elif ch == o:
            depth += 1
        elif ch == c:
            if o == "<" and i > 0 and s[i - 1] in "-=":
                pass
            else:
                depth -= 1
                if depth == 0:
                    return i
        i += 1
    raise MirSyntaxError("unbalanced %s in %r" % (o, s[:200]))


class Function:
    def __init__(self, name, kind):
        self.name = name          # full printed path
        self.kind = kind          # 'fn' | 'const' | 'static' | 'promoted'
        self.params = []          # [(local, type)]
        self.ret = None
        self._locals = {}         # local -> type (header part; body `let`s are added lazily)
        self._blocks = {}         # 'bb0' -> Block
        self._body = None         # unparsed body lines (parsed on first access: the dumps are 10-50 MB)
        self.const_value = None   # for `const X: T = const V;`
        self.line = 0
        self.src_file = None
        self.src_line = None
        self.generic = False

    @property
    def last_segment(self):
        return last_segment(self.name)

    def _force(self):
        if self._body is not None:
            body, self._body = self._body, None
            _parse_body(self, body)

    @property
    def locals(self):
        self._force()
        return self._locals

    @property
    def blocks(self):
        self._force()
        return self._blocks

    def __repr__(self):
        return "<MIR %s %s>" % (self.kind, self.name)


class Block:
    def __init__(self, name):
        self.name = name
        self.stmts = []     # raw statement strings (without trailing ;)
        self.term = None    # raw terminator string


def last_segment(path):
    # strip generic args at the end and closure suffixes are kept
    p = path
    # remove trailing generic args ::<...>
    while p.endswith(">"):
        # find matching '<'
        depth = 0
        i = len(p) - 1
        while i >= 0:
            if p[i] == ">" and i > 0 and p[i - 1] == "-":
                pass                      # the arrow of a fn type, not a bracket
            elif p[i] == ">":
                depth += 1
            elif p[i] == "<":
                depth -= 1
                if depth == 0:
                    break
            i -= 1
        if i >= 2 and p[i - 2:i] == "::":
            p = p[:i - 2]
        else:
            break
    parts = split_path(p)
    return parts[-1] if parts else p


def split_path(p):
    """Split a path on `::` at bracket depth 0."""
    out, depth, cur, i = [], 0, [], 0
    n = len(p)
    while i < n:
        c = p[i]
        if c in "<([{":
            depth += 1
            cur.append(c)
        elif c in ">)]}":
            if c == ">" and i > 0 and p[i - 1] == "-":
                cur.append(c)
            else:
                depth -= 1
                cur.append(c)
        elif c == ":" and depth == 0 and i + 1 < n and p[i + 1] == ":":
            out.append("".join(cur))
            cur = []
            i += 1
        else:
            cur.append(c)
        i += 1
    out.append("".join(cur))
    return out


HEADER_FN = re.compile(r"^fn (.*)$")
IMPL_AT = re.compile(r"<impl at ([^:>]+):(\d+):\d+: \d+:\d+>")


def parse_mir(text):
    """Returns list of Function."""
    lines = text.split("\n")
    funcs = []
    i, n = 0, len(lines)
    while i < n:
        ln = lines[i]
        if ln.startswith("fn ") or ln.startswith("const ") or ln.startswith("static ") or ln.startswith("promoted["):
            if ln.startswith("fn "):
                f = _parse_fn_header(ln)
            else:
                f = _parse_const_header(ln)
            f.line = i + 1
            m = IMPL_AT.search(f.name)
            if m:
                f.src_file, f.src_line = m.group(1), int(m.group(2))
            if f.const_value is not None:
                funcs.append(f)
                i += 1
                continue
            # body until a line that is exactly "}"
            i += 1
            body = []
            while i < n and lines[i] != "}":
                body.append(lines[i])
                i += 1
            f._body = body
            funcs.append(f)
        i += 1
    return funcs


def _parse_fn_header(ln):
    # fn NAME(ARGS) -> RET {
    s = ln[3:].rstrip()
    if not s.endswith("{"):
        raise MirSyntaxError("fn header: " + ln[:200])
    s = s[:-1].rstrip()
    # the argument list is the last top-level (...) group before ' -> RET' (or end)
    # find the '(' that starts args: scan for the first '(' at depth 0 that is preceded by the fn name
    depth = 0
    idx = None
    i = 0
    while i < len(s):
        c = s[i]
        if c in "<[{":
            depth += 1
        elif c in ">]}":
            if not (c == ">" and i > 0 and s[i - 1] == "-"):
                depth -= 1
        elif c == "(" and depth == 0:
            idx = i
            break
        elif c == "(":
            depth += 1
        elif c == ")":
            depth -= 1
        i += 1
    if idx is None:
        raise MirSyntaxError("fn header (no args): " + ln[:200])
    end = find_matching(s, idx)
    name = s[:idx]
    f = Function(name, "fn")
    args = s[idx + 1:end]
    for a in split_top(args):
        if not a:
            continue
        m = re.match(r"(_\d+): (.*)$", a, re.S)
        if not m:
            raise MirSyntaxError("fn arg: %r in %s" % (a, ln[:200]))
        f.params.append((m.group(1), m.group(2).strip()))
        f.locals[m.group(1)] = m.group(2).strip()
    rest = s[end + 1:].strip()
    if rest.startswith("->"):
        f.ret = rest[2:].strip()
    else:
        f.ret = "()"
    f.locals["_0"] = f.ret
    return f


def _parse_const_header(ln):
    # const NAME: T = {      |  const NAME: T = const V;   | static NAME: T = {
    kind, rest = ln.split(" ", 1)
    rest = rest.rstrip()
    if rest.startswith("mut "):
        rest = rest[4:]
    # split "NAME: T = ..." : find ': ' at depth 0
    depth = 0
    i = 0
    colon = None
    while i < len(rest):
        c = rest[i]
        if c in "<([{":
            depth += 1
        elif c in ">)]}":
            if not (c == ">" and i > 0 and rest[i - 1] == "-"):
                depth -= 1
        elif c == ":" and depth == 0:
            if rest[i:i + 2] == "::":
                i += 2
                continue
            colon = i
            break
        i += 1
    if colon is None:
        raise MirSyntaxError("const header: " + ln[:200])
    name = rest[:colon]
    tail = rest[colon + 1:].strip()
    eq = tail.rfind(" = ")
    ty, val = tail[:eq].strip(), tail[eq + 3:].strip()
    f = Function(name, "promoted" if "::promoted[" in name else kind)
    f.ret = ty
    f.locals["_0"] = ty
    if val != "{":
        f.const_value = val.rstrip(";")
    return f


LET_RE = re.compile(r"^\s*let (?:mut )?(_\d+): (.*);$")
BB_RE = re.compile(r"^\s*(bb\d+)(?: \(cleanup\))?: \{$")


def _parse_body(f, body):
    cur = None
    pending = None
    for ln in body:
        s = ln.strip()
        if not s:
            continue
        if cur is None:
            m = LET_RE.match(ln)
            if m:
                f.locals[m.group(1)] = m.group(2).strip()
                continue
            m = BB_RE.match(ln)
            if m:
                cur = Block(m.group(1))
                f.blocks[cur.name] = cur
                pending = None
                continue
            # scope / debug / closing braces of scopes
            continue
        # inside a block
        if s == "}":
            if pending is not None:
                raise MirSyntaxError("unterminated statement in %s %s: %r" % (f.name, cur.name, pending))
            cur = None
            continue
        if pending is not None:
            s = pending + " " + s
            pending = None
        if not s.endswith(";"):
            pending = s   # multi-line statement
            continue
        s = s[:-1]
        if _is_terminator(s):
            cur.term = s
        else:
            cur.stmts.append(s)


TERM_PREFIXES = ("goto ->", "switchInt(", "return", "unreachable", "resume", "assert(", "drop(", "falseEdge",
                 "falseUnwind", "abort", "tailcall")


def _is_terminator(s):
    if s.startswith(TERM_PREFIXES):
        return True
    # call: `_x = f(..) -> [return: bbN, ...]` or `-> unwind ...` / `-> bbN`
    if re.search(r"\) -> (\[return: bb\d+|unwind |bb\d+)", s):
        return True
    return False
