"""Symbolic values of the MIR interpreter. Integers are z3 Int terms with explicit range discipline."""
import re
import z3

INT_TYPES = {
    "u8": (8, False), "u16": (16, False), "u32": (32, False), "u64": (64, False), "u128": (128, False),
    "usize": (64, False),
    "i8": (8, True), "i16": (16, True), "i32": (32, True), "i64": (64, True), "i128": (128, True),
    "isize": (64, True), "char": (32, False),
}

BIG_RE = re.compile(r"^(BInt|BUint)<(\d+)>$")


def int_range(ty):
    m = BIG_RE.match(ty)
    if m:
        bits, signed = 64 * int(m.group(2)), m.group(1) == "BInt"
    else:
        bits, signed = INT_TYPES[ty]
    if signed:
        return -(1 << (bits - 1)), (1 << (bits - 1)) - 1
    return 0, (1 << bits) - 1


def is_int_ty(ty):
    return ty in INT_TYPES or bool(BIG_RE.match(ty))


AMBIGUOUS_NAMES = set()     # enum names defined more than once in the dumped crates (filled by Program.scan_sources)


def norm_ty(t):
    """Strip module paths: std::option::Option<bnum_integer::I192> -> Option<I192>. Names in AMBIGUOUS_NAMES keep
    their parent module, mangled into one identifier: errors::one_resource_pool::Error -> one_resource_pool__Error."""
    t = t.strip()
    if AMBIGUOUS_NAMES and "::" in t:
        t = _AMBIG_RE[0].sub(r"\1__\2", t) if _AMBIG_RE[0] is not None else t
    t = re.sub(r"\b(?:[A-Za-z_]\w*::)+(?=[A-Za-z_{\[(&*]|<impl )", "", t)
    t = re.sub(r"\s+", " ", t)
    return t


_AMBIG_RE = [None]


def set_ambiguous_names(names):
    AMBIGUOUS_NAMES.clear()
    AMBIGUOUS_NAMES.update(names)
    if AMBIGUOUS_NAMES:
        _AMBIG_RE[0] = re.compile(r"\b(\w+)::(%s)\b(?!::<)" % "|".join(sorted(re.escape(n) for n in AMBIGUOUS_NAMES)))
    else:
        _AMBIG_RE[0] = None


def zint(x):
    if isinstance(x, int):
        return z3.IntVal(x)
    return x


def concrete(t):
    """python int/bool if the z3 term is a literal after simplification, else None."""
    if isinstance(t, (int, bool)):
        return t
    s = z3.simplify(t)
    if z3.is_int_value(s):
        return s.as_long()
    if z3.is_true(s):
        return True
    if z3.is_false(s):
        return False
    return None


class V:
    kind = "?"
    ty = "?"


class IntV(V):
    kind = "int"

    def __init__(self, term, ty):
        self.term = zint(term)
        self.ty = ty

    def __repr__(self):
        return "Int<%s>(%s)" % (self.ty, z3.simplify(self.term))


class BoolV(V):
    kind = "bool"
    ty = "bool"

    def __init__(self, term):
        if isinstance(term, bool):
            term = z3.BoolVal(term)
        self.term = term

    def __repr__(self):
        return "Bool(%s)" % z3.simplify(self.term)


class StructV(V):
    """structs, tuples, closures (captures) and arrays (fields = elements)."""
    kind = "struct"

    def __init__(self, ty, fields):
        self.ty = ty
        self.fields = list(fields)

    def __repr__(self):
        return "%s%r" % (self.ty, self.fields)


class EnumV(V):
    kind = "enum"

    def __init__(self, ty, discr, variants):
        self.ty = ty
        self.discr = zint(discr)     # z3 Int: the discriminant VALUE as switchInt sees it
        self.variants = variants     # {discriminant value (int): [field values]}

    def __repr__(self):
        return "%s#%s%r" % (self.ty, z3.simplify(self.discr), self.variants)


class RefV(V):
    kind = "ref"

    def __init__(self, ty, fid, local, projs=()):
        self.ty = ty
        self.fid, self.local, self.projs = fid, local, tuple(projs)

    def __repr__(self):
        return "Ref(%s -> f%s.%s%s)" % (self.ty, self.fid, self.local, list(self.projs))


class UnitV(V):
    kind = "unit"
    ty = "()"

    def __repr__(self):
        return "()"


class StrV(V):
    kind = "str"
    ty = "&str"

    def __init__(self, text):
        self.text = text

    def __repr__(self):
        return "Str(%r)" % self.text


class StrSymV(V):
    """`&str` with a CONCRETE length and symbolic (or concrete) byte values: the string model of Engine M.
    Bytes are z3 Int terms; the jobs constrain them to ASCII (0..=127), so byte positions are char positions."""
    kind = "symstr"
    ty = "&str"

    def __init__(self, bytes_):
        self.bytes = [zint(b) for b in bytes_]

    def __repr__(self):
        return "StrSym(%r)" % ([z3.simplify(b) for b in self.bytes],)


class FnV(V):
    """zero-sized function item / tuple-struct constructor used as a function value."""
    kind = "fn"

    def __init__(self, name, ty=None):
        self.name = name
        self.ty = ty or ("fn:" + name)

    def __repr__(self):
        return "Fn(%s)" % self.name


class UndefV(V):
    kind = "undef"

    def __init__(self, ty="?"):
        self.ty = ty

    def __repr__(self):
        return "Undef"


def ite_value(c, a, b):
    """value-level if-then-else (used by library models that merge instead of forking)."""
    if a.kind == "int" and b.kind == "int":
        return IntV(z3.If(c, a.term, b.term), a.ty)
    if a.kind == "bool" and b.kind == "bool":
        return BoolV(z3.If(c, a.term, b.term))
    if a.kind == "struct" and b.kind == "struct" and len(a.fields) == len(b.fields):
        return StructV(a.ty, [ite_value(c, x, y) for x, y in zip(a.fields, b.fields)])
    if a.kind == "enum" and b.kind == "enum":
        vs = {}
        for k in set(a.variants) | set(b.variants):
            if k in a.variants and k in b.variants:
                vs[k] = [ite_value(c, x, y) for x, y in zip(a.variants[k], b.variants[k])]
            else:
                vs[k] = a.variants.get(k) or b.variants.get(k)
        return EnumV(a.ty, z3.If(c, a.discr, b.discr), vs)
    if a.kind == "unit":
        return a
    raise ValueError("cannot merge %r / %r" % (a, b))
