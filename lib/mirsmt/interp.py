"""Symbolic executor over rustc's textual MIR.

Path forking at every symbolic branch, feasibility pruning with z3, loops unrolled up to a bound with an
unwinding obligation, panics as first-class outcomes. Calls into functions that are in the MIR dump are executed
from their MIR; calls into std / third-party functions go through the library model table (models.py); anything
else raises Refuse (the check then reports "cannot encode", never a pass).
"""
import os
import re
import z3

from .parser import split_top, find_matching, split_path, last_segment, Function
from .values import (V, IntV, BoolV, StructV, EnumV, RefV, UnitV, StrV, StrSymV, FnV, UndefV, INT_TYPES, int_range,
                     is_int_ty, norm_ty, concrete, zint, ite_value)


class Refuse(Exception):
    """construct outside the supported fragment"""


STD_ENUMS = {
    "IntErrorKind": {"Empty": 0, "InvalidDigit": 1, "PosOverflow": 2, "NegOverflow": 3, "Zero": 4},
    "Option": {"None": 0, "Some": 1},
    "Result": {"Ok": 0, "Err": 1},
    "ControlFlow": {"Continue": 0, "Break": 1},
    "Ordering": {"Less": -1, "Equal": 0, "Greater": 1},
    "Bound": {"Included": 0, "Excluded": 1, "Unbounded": 2},
}


class Path:
    def __init__(self):
        self.pc = []
        self.frames = {}
        self.nfid = 0
        self.visits = {}
        self.notes = []

    def fork(self):
        p = Path()
        p.pc = list(self.pc)
        p.frames = {k: dict(v) for k, v in self.frames.items()}
        p.nfid = self.nfid
        p.visits = dict(self.visits)
        p.notes = list(self.notes)
        return p


class Outcome:
    def __init__(self, path, kind, value=None, msg=None):
        self.path, self.kind, self.value, self.msg = path, kind, value, msg

    def __repr__(self):
        return "<%s %r %s>" % (self.kind, self.value, self.msg or "")


class Program:
    """All MIR functions of the dumped crates + enum tables parsed from the crate sources."""

    def __init__(self, repo_root):
        self.repo_root = repo_root
        self.funcs = []
        self.by_last = {}
        self.closures = {}     # closure type string -> Function
        self.enums = dict((k, dict(v)) for k, v in STD_ENUMS.items())
        self.enum_ambiguous = set()
        self._impl_cache = {}
        self.struct_fields = {}

    def add_functions(self, funcs):
        owner = None
        seen = getattr(self, "_seen_sigs", set())
        self._seen_sigs = seen
        for f in funcs:
            if f.kind == "fn":
                # `const fn`s are printed twice (runtime MIR, then MIR for CTFE): keep the runtime body
                sig = (f.name, tuple(t for _, t in f.params), f.ret)
                if sig in seen:
                    owner = None
                    continue
                seen.add(sig)
            self.funcs.append(f)
            if f.kind == "promoted":
                # rustc prints promoted constants right after the body they belong to
                if owner is not None:
                    owner.promoteds[f.last_segment] = f
            else:
                owner = f
                f.promoteds = {}
            self.by_last.setdefault(f.last_segment, []).append(f)
            if "{closure#" in f.last_segment and f.params:
                t = f.params[0][1]
                t = t[1:].lstrip() if t.startswith("&") else t
                if t.startswith("mut "):
                    t = t[4:]
                self.closures.setdefault(t, []).append(f)

    def scan_sources(self, crate_dir):
        """enum name -> {variant: index}; struct name -> [field names] (for named-field aggregates)."""
        for root, _, files in os.walk(os.path.join(self.repo_root, crate_dir, "src")):
            for fn in files:
                if fn.endswith(".rs"):
                    try:
                        self._scan_file(os.path.join(root, fn))
                    except Exception:
                        pass

    def _scan_file(self, path):
        src = open(path, encoding="utf-8", errors="replace").read()
        src = re.sub(r"//[^\n]*", "", src)
        if not hasattr(self, "unit_structs"):
            self.unit_structs = set()
        for um in re.finditer(r"\bstruct\s+(\w+)\s*;", src):
            self.unit_structs.add(um.group(1))
        stem = os.path.splitext(os.path.basename(path))[0]
        if stem in ("mod", "lib", "main"):
            stem = os.path.basename(os.path.dirname(path))
        inline = []     # (start, end, name) of inline `mod name { ... }`
        for mm in re.finditer(r"\bmod\s+(\w+)\s*\{", src):
            try:
                inline.append((mm.end() - 1, find_matching(src, mm.end() - 1), mm.group(1)))
            except Exception:
                pass
        # paste!-generated enums inside a macro: `enum [<Parse $t Error>] { .. }` instantiated by `name! { A, B }`
        for m in re.finditer(r"\benum\s+\[<\s*(\w*)\s*\$(\w+)\s*(\w*)\s*>\]\s*\{", src):
            start = m.end() - 1
            try:
                end = find_matching(src, start)
            except Exception:
                continue
            variants, idx = {}, 0
            for part in split_top(src[start + 1:end]):
                part = re.sub(r"#\[[^\]]*\]", "", part).strip()
                vm = re.match(r"(\w+)", part)
                if vm:
                    variants[vm.group(1)] = idx
                    idx += 1
            macs = [mm for mm in re.finditer(r"macro_rules!\s*(\w+)", src) if mm.start() < m.start()]
            if not macs:
                continue
            mac = macs[-1].group(1)
            for inv in re.finditer(r"\b%s!\s*[\{\(]([^\}\)]*)[\}\)]" % re.escape(mac), src):
                for t in split_top(inv.group(1)):
                    t = t.strip()
                    if re.match(r"^\w+$", t):
                        name = m.group(1) + t + m.group(3)
                        if name not in self.enums:
                            self.enums[name] = dict(variants)
        for m in re.finditer(r"\benum\s+(\w+)\s*(?:<[^{]*>)?\s*(?:where[^{]*)?\{", src):
            name = m.group(1)
            start = m.end() - 1
            enclosing = [x for x in inline if x[0] < start < x[1]]
            parent = max(enclosing, key=lambda x: x[0])[2] if enclosing else stem
            try:
                end = find_matching(src, start)
            except Exception:
                continue
            body = src[start + 1:end]
            variants = {}
            idx = 0
            # (declarative macros such as known_enum! list `Variant = n;` items: same table, other separator)
            sep = ";" if (";" in body and "," not in body) else ","
            for part in split_top(body, sep):
                part = re.sub(r"#\[[^\]]*\]", "", part).strip()
                vm = re.match(r"(\w+)", part)
                if not vm:
                    continue
                em = re.search(r"=\s*(-?(?:0b[01_]+|0x[0-9a-fA-F_]+|0o[0-7_]+|\d[\d_]*))\s*$", part)
                if em and "(" not in part and "{" not in part:
                    idx = int(em.group(1).replace("_", ""), 0)
                variants[vm.group(1)] = idx
                idx += 1
            if name in STD_ENUMS:
                continue
            q = parent + "__" + name
            if q in self.enums and self.enums[q] != variants:
                self.enum_ambiguous.add(q)
            else:
                self.enums[q] = variants
            if name in self.enums and self.enums[name] != variants:
                self.enum_ambiguous.add(name)
                from . import values as _values
                _values.set_ambiguous_names(set(_values.AMBIGUOUS_NAMES) | {name})
            else:
                self.enums[name] = variants

    def macro_group_self(self, f):
        """Self type of a macro-generated impl block: items of one expansion are contiguous in the dump; a sibling
        constant of type Self (MIN/MAX/ZERO/ONE) or a `self` method names the type."""
        if not hasattr(self, "_index"):
            self._index = {id(g): i for i, g in enumerate(self.funcs)}
        i = self._index.get(id(f))
        if i is None or not f.src_file:
            return None
        span = (f.src_file, f.src_line)
        for step in (-1, 1):
            j = i + step
            while 0 <= j < len(self.funcs):
                g = self.funcs[j]
                if (g.src_file, g.src_line) != span:
                    break
                if g.kind != "promoted" and g.last_segment == f.last_segment and g.kind == f.kind:
                    break      # next expansion of the same macro
                if g.kind == "const" and g.last_segment in ("MIN", "MAX", "ZERO", "ONE"):
                    return norm_ty(g.ret)
                j += step
        return None

    def impl_self_type(self, f):
        """Self type of the impl block a function was defined in, read from the source line rustc printed."""
        if not f.src_file:
            return None
        key = (f.src_file, f.src_line)
        if key in self._impl_cache:
            return self._impl_cache[key]
        res = None
        try:
            lines = open(os.path.join(self.repo_root, f.src_file), encoding="utf-8", errors="replace").read().split("\n")
            text = " ".join(lines[f.src_line - 1:f.src_line + 3])
            m = re.match(r"\s*(?:unsafe\s+)?impl\s*(?:<[^>]*>)?\s*(?:(.+?)\s+for\s+)?([^{]+?)\s*(?:where\b.*)?\{", text)
            if m and "$" not in m.group(2):
                res = (norm_ty(m.group(2)), norm_ty(m.group(1)) if m.group(1) else None)
        except Exception:
            res = None
        self._impl_cache[key] = res
        return res


def _is_wild(t):
    t = t.lstrip("&").strip()
    if t.startswith("mut "):
        t = t[4:]
    return bool(re.match(r"^[A-Z]\w{0,1}$", t)) or t.startswith("impl ") or t == "Self"


def types_match(decl, actual):
    """decl: parameter type from the callee header; actual: type carried by the runtime value."""
    d, a = norm_ty(decl), norm_ty(actual)
    if d == a:
        return True
    if _is_wild(d):
        return True
    # references: &T vs &mut T vs & T
    dr = re.sub(r"^&(?:'\w+ )?(?:mut )?", "&", d)
    ar = re.sub(r"^&(?:'\w+ )?(?:mut )?", "&", a)
    if dr == ar:
        return True
    if dr.startswith("&") and ar.startswith("&") and _is_wild(dr[1:]):
        return True
    # generic containers with wildcard params: Option<T>
    dg = re.sub(r"\b[A-Z]\b", "@", dr)
    if "@" in dg:
        pat = re.escape(dg).replace("@", ".+")
        if re.match("^" + pat + "$", ar):
            return True
    return False


class Interp:
    def __init__(self, program, models, max_unroll=40, prune_timeout_ms=3000, overrides=None):
        self.prog = program
        self.models = models
        # job-specific models that take precedence over MIR bodies: [(compiled regex on the canonical callee,
        # handler)] -- used for assume-guarantee composition (a function already decided by another job is replaced
        # by its verified specification) and for environment stubs (system API answers)
        self.overrides = list(overrides or [])
        self.max_unroll = max_unroll
        self.solver = z3.Solver()
        self.solver.set("timeout", prune_timeout_ms)
        self.const_cache = {}
        self.const_overrides = []       # job-provided values of named constants: [(compiled regex, value)]
        self.fresh_capacity = 0         # number of free slots of a set / map created empty by the code under test
        self.stats = {"forks": 0, "prune_calls": 0, "calls": 0, "paths": 0, "model_calls": {}, "mir_calls": {}}
        self.depth = 0

    # ------------------------------------------------------------------ feasibility
    def feasible(self, path, cond):
        c = concrete(cond)
        if c is True:
            return True
        if c is False:
            return False
        self.stats["prune_calls"] += 1
        self.solver.push()
        for p in path.pc:
            self.solver.add(p)
        self.solver.add(cond)
        r = self.solver.check()
        self.solver.pop()
        return r != z3.unsat

    def assume(self, path, cond):
        c = concrete(cond)
        if c is True:
            return
        path.pc.append(cond)

    def fork(self, path, conds):
        """conds: list of (cond, tag). Returns [(path_i, tag)] for the feasible ones."""
        out = []
        feas = [(c, t) for c, t in conds if self.feasible(path, c)]
        for i, (c, t) in enumerate(feas):
            p = path if i == len(feas) - 1 else path.fork()
            self.assume(p, c)
            out.append((p, t))
        if len(feas) > 1:
            self.stats["forks"] += len(feas) - 1
        return out

    # ------------------------------------------------------------------ places
    def parse_place(self, s):
        s = s.strip()
        projs = []
        # trailing index projections
        while s.endswith("]"):
            # find matching '['
            depth, i = 0, len(s) - 1
            while i >= 0:
                if s[i] == "]":
                    depth += 1
                elif s[i] == "[":
                    depth -= 1
                    if depth == 0:
                        break
                i -= 1
            idx = s[i + 1:-1]
            s = s[:i]
            m = re.match(r"^(\d+) of (\d+)$", idx)
            if m:
                projs.insert(0, ("cindex", int(m.group(1))))
            elif re.match(r"^_\d+$", idx):
                projs.insert(0, ("index", idx))
            else:
                raise Refuse("index projection %r" % idx)
        if s.startswith("("):
            end = find_matching(s, 0)
            if end != len(s) - 1:
                raise Refuse("place syntax %r" % s)
            inner = s[1:-1].strip()
            if inner.startswith("*"):
                loc, pr = self.parse_place(inner[1:])
                return loc, pr + [("deref",)] + projs
            # downcast?  "PLACE as Variant"
            parts = self._split_top_kw(inner, " as ")
            if len(parts) == 2 and re.match(r"^\w+$", parts[1].strip()):
                loc, pr = self.parse_place(parts[0])
                return loc, pr + [("downcast", parts[1].strip())] + projs
            # field: "PLACE.N: TYPE"
            parts = self._split_top_kw(inner, ": ")
            left = parts[0]
            k = left.rfind(".")
            loc, pr = self.parse_place(left[:k])
            return loc, pr + [("field", int(left[k + 1:]))] + projs
        if re.match(r"^_\d+$", s):
            return s, projs
        raise Refuse("place syntax %r" % s)

    @staticmethod
    def _split_top_kw(s, kw):
        depth, i, n = 0, 0, len(s)
        instr = False
        while i < n:
            c = s[i]
            if instr:
                if c == "\\":
                    i += 1
                elif c == '"':
                    instr = False
            elif c == '"':
                instr = True
            elif c in "([{<":
                depth += 1
            elif c in ")]}":
                depth -= 1
            elif c == ">" and not (i > 0 and s[i - 1] in "-="):
                depth -= 1
            elif depth == 0 and s.startswith(kw, i):
                return [s[:i], s[i + len(kw):]]
            i += 1
        return [s]

    def variant_index(self, enum_ty, variant):
        base = norm_ty(enum_ty)
        base = re.sub(r"^&(mut )?", "", base)
        name = re.match(r"^(\w+)", base)
        name = name.group(1) if name else base
        if name in self.prog.enum_ambiguous:
            raise Refuse("enum name %s is ambiguous across modules" % name)
        tab = self.prog.enums.get(name)
        if tab is None or variant not in tab:
            raise Refuse("unknown enum variant %s::%s" % (name, variant))
        return tab[variant]

    def read(self, path, fid, local, projs):
        v = path.frames[fid].get(local)
        if v is None:
            raise Refuse("read of unknown local %s" % local)
        return self._read_proj(path, fid, v, list(projs))

    def _read_proj(self, path, fid, v, projs):
        while projs:
            p = projs.pop(0)
            k = p[0]
            if k == "deref":
                if v.kind != "ref":
                    raise Refuse("deref of non-reference %r" % (v,))
                v = self.read(path, v.fid, v.local, v.projs)
            elif k == "field":
                if v.kind == "struct":
                    if p[1] >= len(v.fields):
                        raise Refuse("field %d out of range in %r" % (p[1], v))
                    v = v.fields[p[1]]
                else:
                    raise Refuse("field of %r" % (v,))
            elif k == "downcast":
                if v.kind != "enum":
                    raise Refuse("downcast of %r" % (v,))
                idx = self.variant_index(v.ty, p[1])
                if not projs or projs[0][0] != "field":
                    raise Refuse("downcast without field")
                fp = projs.pop(0)
                if idx not in v.variants:
                    raise Refuse("payload of absent variant %s of %r" % (p[1], v))
                v = v.variants[idx][fp[1]]
            elif k == "cindex":
                v = v.fields[p[1]]
            elif k == "index":
                iv = path.frames[fid][p[1]]
                c = concrete(iv.term)
                if v.kind != "struct":
                    raise Refuse("index of %r" % (v,))
                if c is not None:
                    if not (0 <= c < len(v.fields)):
                        raise Refuse("concrete index out of bounds (bounds check should have panicked)")
                    v = v.fields[c]
                else:
                    # symbolic index: ite chain over the elements (bounds were checked by a preceding assert)
                    r = v.fields[-1]
                    for j in range(len(v.fields) - 2, -1, -1):
                        r = ite_value(iv.term == j, v.fields[j], r)
                    v = r
            else:
                raise Refuse("projection %r" % (p,))
        return v

    def write(self, path, fid, local, projs, newv):
        projs = list(projs)
        if not projs:
            path.frames[fid][local] = newv
            return
        root = path.frames[fid].get(local)
        path.frames[fid][local] = self._write_proj(path, fid, root, projs, newv)

    def _write_proj(self, path, fid, v, projs, newv):
        if not projs:
            return newv
        p = projs[0]
        k = p[0]
        if k == "deref":
            if v is None or v.kind != "ref":
                raise Refuse("write through non-reference")
            self.write(path, v.fid, v.local, list(v.projs) + projs[1:], newv)
            return v
        if k == "field":
            if v is None or v.kind == "undef":
                raise Refuse("field write into uninitialised aggregate")
            if v.kind != "struct":
                raise Refuse("field write into %r" % (v,))
            fs = list(v.fields)
            fs[p[1]] = self._write_proj(path, fid, fs[p[1]], projs[1:], newv)
            return StructV(v.ty, fs)
        if k == "cindex":
            fs = list(v.fields)
            fs[p[1]] = self._write_proj(path, fid, fs[p[1]], projs[1:], newv)
            return StructV(v.ty, fs)
        if k == "index":
            iv = path.frames[fid][p[1]]
            c = concrete(iv.term)
            if c is None:
                fs = []
                for j, old in enumerate(v.fields):
                    upd = self._write_proj(path, fid, old, projs[1:], newv)
                    fs.append(ite_value(iv.term == j, upd, old))
                return StructV(v.ty, fs)
            fs = list(v.fields)
            fs[c] = self._write_proj(path, fid, fs[c], projs[1:], newv)
            return StructV(v.ty, fs)
        if k == "downcast":
            idx = self.variant_index(v.ty, p[1])
            fp = projs[1]
            vs = dict(v.variants)
            fs = list(vs.get(idx, []))
            while len(fs) <= fp[1]:
                fs.append(UndefV())
            fs[fp[1]] = self._write_proj(path, fid, fs[fp[1]], projs[2:], newv)
            vs[idx] = fs
            return EnumV(v.ty, v.discr, vs)
        raise Refuse("write projection %r" % (p,))

    def resolve_ref_target(self, path, fid, local, projs):
        """Normalise a place containing derefs to (fid, local, projs) without deref where possible."""
        projs = list(projs)
        cur_fid, cur_local, acc = fid, local, []
        for i, p in enumerate(projs):
            if p[0] == "deref":
                v = self.read(path, cur_fid, cur_local, acc)
                if v.kind != "ref":
                    raise Refuse("deref of non-ref in borrow")
                if isinstance(v, _ConstRef):
                    raise _ThroughConst()
                cur_fid, cur_local, acc = v.fid, v.local, list(v.projs)
            elif p[0] == "index":
                iv = path.frames[fid][p[1]]
                c = concrete(iv.term)
                if c is None:
                    raise Refuse("borrow of symbolically indexed element")
                acc.append(("cindex", c))
            else:
                acc.append(p)
        return cur_fid, cur_local, acc

    # ------------------------------------------------------------------ operands / constants
    def local_type(self, func, local):
        return func.locals.get(local, "?")

    def eval_operand(self, path, fid, func, s, want_ty=None):
        s = s.strip()
        if s.startswith("no_retag "):
            s = s[9:]
        if s.startswith("copy ") or s.startswith("move "):
            loc, projs = self.parse_place(s[5:])
            return self.read(path, fid, loc, projs)
        if s.startswith("const "):
            return self.eval_const(path, func, s[6:].strip(), want_ty)
        if re.match(r"^_\d+$", s) or s.startswith("("):
            loc, projs = self.parse_place(s)
            return self.read(path, fid, loc, projs)
        if re.match(r"^[A-Za-z_<]", s):
            return FnV(s)      # bare path: function item / tuple-struct constructor used as a value
        raise Refuse("operand %r" % s)

    def eval_const(self, path, func, c, want_ty=None):
        m = re.match(r"^(-?\d+)_(\w+)$", c)
        if m:
            return IntV(int(m.group(1)), m.group(2))
        if c in ("true", "false"):
            return BoolV(c == "true")
        if c == "()":
            return UnitV()
        if c.startswith('"'):
            return StrV(c[1:c.rfind('"')])
        if c.startswith("ZeroSized: "):
            return FnV(c[len("ZeroSized: "):].strip())
        m = re.match(r"^'(.)'$", c)
        if m:
            return IntV(ord(m.group(1)), "char")
        m = re.match(r"^(-?\d+(?:\.\d+)?(?:[eE][-+]?\d+)?)(f32|f64)$", c)
        if m:
            raise Refuse("floating point constant")
        if re.match(r"^[A-Za-z_<]", c):
            return self.eval_named_const(path, func, c, want_ty)
        raise Refuse("constant %r" % c)

    def eval_named_const(self, path, func, name, want_ty):
        key = (name, norm_ty(want_ty) if want_ty else None)
        if key in self.const_cache:
            return self.const_cache[key]
        for rx, val in self.const_overrides:
            if rx.search(name):
                return val
        segs = split_path(name)
        last = segs[-1]
        v = None
        plain = [x for x in segs if not x.startswith("<")]
        if len(plain) >= 2:
            en = re.sub(r"<.*$", "", plain[-2])
            if en in self.prog.enum_ambiguous and len(plain) >= 3:
                en = plain[-3] + "__" + en
            if en in self.prog.enums and plain[-1] in self.prog.enums[en] and en not in self.prog.enum_ambiguous:
                idx = self.prog.enums[en][plain[-1]]
                v = EnumV(norm_ty(want_ty) if want_ty else en, idx, {idx: []})
                self.const_cache[key] = v
                return v
        # promoted constant of the current function
        if last.startswith("promoted[") and last in getattr(func, "promoteds", {}):
            v = self.eval_const_body(path, func.promoteds[last])
        elif last.startswith("promoted["):
            owner = re.sub(r"::<.*>$", "", segs[-2]) if len(segs) >= 2 else ""
            cands = [f for f in self.prog.by_last.get(last, []) if f.kind == "promoted"]
            cands = [f for f in cands if split_path(f.name)[-2:-1] and re.sub(r"::<.*>$", "", split_path(f.name)[-2]) == owner]
            if want_ty:
                cands = [f for f in cands if norm_ty(f.ret) == norm_ty(want_ty)]
            same = [f for f in cands if f.src_file == func.src_file and f.src_line == func.src_line]
            if same:
                cands = same
            if len(cands) != 1:
                raise Refuse("promoted const %s: %d candidates" % (name, len(cands)))
            v = self.eval_const_body(path, cands[0])
        elif self.models.library_const(self, name, want_ty) is not None:
            v = self.models.library_const(self, name, want_ty)
        else:
            cands = [f for f in self.prog.by_last.get(last, []) if f.kind in ("const", "static")]
            if want_ty:
                c2 = [f for f in cands if types_match(f.ret, want_ty)]
                if c2:
                    cands = c2
            if len(cands) > 1 and len(segs) >= 2:
                self_ty = norm_ty(re.sub(r"::<.*>$", "", segs[-2]))
                c2 = []
                for f in cands:
                    st = self.prog.impl_self_type(f)
                    if st and st[0] == self_ty:
                        c2.append(f)
                if c2:
                    cands = c2
                else:
                    # macro-generated impls (self type not readable from the source line): associated constants
                    # of type Self are told apart by their declared type
                    c2 = [f for f in cands if norm_ty(f.ret) == self_ty and self.prog.impl_self_type(f) is None]
                    if len(c2) == 1:
                        cands = c2
                    else:
                        c2 = [f for f in cands if self.prog.macro_group_self(f) == self_ty]
                        if len(c2) == 1:
                            cands = c2
            if len(cands) == 1:
                v = self.eval_const_body(path, cands[0])
            elif not cands:
                v = self.models.library_const(self, name, want_ty)
                if v is None and last in getattr(self.prog, "unit_structs", ()):
                    v = StructV(last, [])       # value of a unit struct (`struct X;`)
                if v is None:
                    raise Refuse("unknown constant %s" % name)
            else:
                raise Refuse("ambiguous constant %s (%d candidates)" % (name, len(cands)))
        self.const_cache[key] = v
        return v

    def eval_const_body(self, path, f):
        if f.const_value is not None:
            cv = f.const_value
            if cv.startswith("const "):
                cv = cv[6:]
            return self.eval_const(path, f, cv, f.ret)
        p = Path()
        outs = self.call_function(f, [], p)
        if len(outs) != 1 or outs[0].kind != "ret":
            raise Refuse("const %s did not evaluate to a single value" % f.name)
        v = outs[0].value
        # a promoted `&T`: copy the pointee frame into the requesting path lazily -> return by value wrapper
        if v.kind == "ref":
            target = self.read(outs[0].path, v.fid, v.local, v.projs)
            return _ConstRef(v.ty, target)
        return v

    # ------------------------------------------------------------------ rvalues
    BINOPS = {"Add", "Sub", "Mul", "Div", "Rem", "BitXor", "BitAnd", "BitOr", "Shl", "Shr", "Eq", "Lt", "Le", "Ne",
              "Ge", "Gt", "Cmp", "AddWithOverflow", "SubWithOverflow", "MulWithOverflow", "AddUnchecked",
              "SubUnchecked", "MulUnchecked", "ShlUnchecked", "ShrUnchecked"}

    def wrap(self, term, ty):
        lo, hi = int_range(ty)
        c = concrete(term)
        size = hi - lo + 1
        if c is not None:
            return zint(((c - lo) % size) + lo)
        # context-aware: when the current path condition already excludes leaving the range (the usual case: the value
        # came from a narrower type or was range-checked before), keep the plain term -- wrap-around ites over
        # non-linear terms are what makes the final queries hard
        p = getattr(self, "_cur_path", None)
        if p is not None and not self.feasible(p, z3.Or(term < lo, term > hi)):
            return term
        return z3.If(z3.And(term >= lo, term <= hi), term, ((term - lo) % size) + lo)

    @staticmethod
    def tdiv(a, b):
        """Rust truncating division on z3 Ints (z3's `/` on Int is Euclidean-style)."""
        ca, cb = concrete(a), concrete(b)
        if cb == 0:
            return zint(0)   # callers guard division by zero (checked_* models / MIR Assert); keep the term total
        if ca is not None and cb is not None:
            q = abs(ca) // abs(cb)
            return zint(q if (ca >= 0) == (cb >= 0) else -q)
        if cb is not None:
            # (k * x) / c with c | k is exactly (k / c) * x: spares the solver a non-linear division (products of a
            # symbolic amount with `Decimal::from(integer)` = integer * 10^18, divided by 10^18 again)
            sa = z3.simplify(a)
            if z3.is_mul(sa) and sa.num_args() >= 2 and z3.is_int_value(sa.arg(0)) and cb != 0 \
                    and sa.arg(0).as_long() % cb == 0:
                rest = sa.arg(1)
                for i in range(2, sa.num_args()):
                    rest = rest * sa.arg(i)
                return zint(sa.arg(0).as_long() // cb) * rest
            if cb > 0:
                return z3.If(a >= 0, a / cb, -((-a) / cb))
            return z3.If(a >= 0, -(a / (-cb)), (-a) / (-cb))
        return z3.If(a >= 0, z3.If(b > 0, a / b, -(a / (-b))), z3.If(b > 0, -((-a) / b), (-a) / (-b)))

    @classmethod
    def trem(cls, a, b):
        return a - b * cls.tdiv(a, b)

    def binop(self, op, a, b, dest_ty):
        if a.kind == "bool" and b.kind == "bool":
            t = {"BitAnd": z3.And, "BitOr": z3.Or, "BitXor": z3.Xor}.get(op)
            if t:
                return BoolV(t(a.term, b.term))
            if op == "Eq":
                return BoolV(a.term == b.term)
            if op == "Ne":
                return BoolV(a.term != b.term)
            raise Refuse("bool binop %s" % op)
        if a.kind != "int" or b.kind != "int":
            raise Refuse("binop %s on %r, %r" % (op, a, b))
        x, y, ty = a.term, b.term, a.ty
        if op in ("Eq", "Ne", "Lt", "Le", "Gt", "Ge"):
            t = {"Eq": x == y, "Ne": x != y, "Lt": x < y, "Le": x <= y, "Gt": x > y, "Ge": x >= y}[op]
            return BoolV(t)
        if op == "Cmp":
            return EnumV("Ordering", z3.If(x < y, -1, z3.If(x == y, 0, 1)), {-1: [], 0: [], 1: []})
        if op in ("AddWithOverflow", "SubWithOverflow", "MulWithOverflow"):
            r = {"A": x + y, "S": x - y, "M": x * y}[op[0]]
            lo, hi = int_range(ty)
            ov = z3.Or(r < lo, r > hi)
            # rustc lowers checked arithmetic to `t = OpWithOverflow(a, b); assert(!t.1) -> bb; use t.0`:
            # t.0 is only read after the assert, where the exact result is in range, so it is kept unwrapped
            # (keeps the terms free of wrap-around ites). The overflow flag itself is exact.
            return StructV("(%s, bool)" % ty, [IntV(r, ty), BoolV(ov)])
        if op in ("Add", "Sub", "Mul", "AddUnchecked", "SubUnchecked", "MulUnchecked"):
            r = {"A": x + y, "S": x - y, "M": x * y}[op[0]]
            return IntV(self.wrap(r, ty), ty)
        if op == "Div":
            cy = concrete(y)
            if cy is not None and cy != -1:
                return IntV(self.tdiv(x, y), ty)     # cannot leave the range
            return IntV(self.wrap(self.tdiv(x, y), ty), ty)
        if op == "Rem":
            return IntV(self.trem(x, y), ty)
        if op in ("Shl", "Shr", "ShlUnchecked", "ShrUnchecked"):
            k = concrete(y)
            if k is None:
                raise Refuse("shift by symbolic amount")
            bits = int_range(ty)[1].bit_length() + (1 if int_range(ty)[0] < 0 else 0)
            k = k % bits
            if op.startswith("Shl"):
                return IntV(self.wrap(x * (1 << k), ty), ty)
            # arithmetic shift right = floor division (z3 Int `/` with positive divisor is floor)
            return IntV(x / (1 << k), ty)
        if op in ("BitAnd", "BitOr", "BitXor"):
            cx, cy = concrete(x), concrete(y)
            if cx is not None and cy is not None:
                lo, hi = int_range(ty)
                size = hi - lo + 1
                ux, uy = cx % size, cy % size
                r = {"BitAnd": ux & uy, "BitOr": ux | uy, "BitXor": ux ^ uy}[op]
                return IntV(self.wrap(zint(r), ty), ty)
            if op == "BitAnd":
                mask, other = (cy, x) if cy is not None else (cx, y)
                if mask is not None and mask >= 0 and (mask & (mask + 1)) == 0 and int_range(ty)[0] == 0:
                    return IntV(other % (mask + 1), ty)
            raise Refuse("bitwise %s on symbolic operands" % op)
        raise Refuse("binop %s" % op)

    def cast(self, v, to_ty, kind):
        to = norm_ty(to_ty)
        if kind == "IntToInt":
            if v.kind == "bool":
                return IntV(z3.If(v.term, 1, 0), to)
            if v.kind == "enum":
                return IntV(self.wrap(v.discr, to), to)
            if to == "bool":
                raise Refuse("int to bool cast")
            if v.kind == "int" and is_int_ty(v.ty) and is_int_ty(to):
                (slo, shi), (tlo, thi) = int_range(v.ty), int_range(to)
                if tlo <= slo and shi <= thi:
                    return IntV(v.term, to)          # widening cast: value unchanged
            return IntV(self.wrap(v.term, to), to)
        if kind == "Transmute" and v.kind == "ref" and to == "usize":
            return IntV(4096, "usize")        # address of a model heap cell: fixed, aligned, non-null
        if kind in ("PointerCoercion(Unsize, Implicit)", "PointerCoercion(Unsize, AsCast)", "Transmute", "PtrToPtr"):
            if isinstance(v, _ConstRef):
                return v
            if v.kind == "ref":
                return RefV(to, v.fid, v.local, v.projs)
            if kind.startswith("PointerCoercion(Unsize") and v.kind == "struct" and "dyn " in to:
                return v        # Box<T> -> Box<dyn Trait>: a box is its content (see the Box::new model)
        if kind.startswith("PointerCoercion(ReifyFnPointer") or kind.startswith("PointerCoercion(ClosureFnPointer"):
            return v
        raise Refuse("cast kind %s" % kind)

    def eval_rvalue(self, path, fid, func, s, dest_ty):
        s = s.strip()
        if s.startswith("&"):
            body = s[1:].lstrip()
            for pre in ("raw const ", "raw mut ", "mut ", "fake shallow ", "fake ", "(fake shallow) ", "(fake) "):
                if body.startswith(pre):
                    body = body[len(pre):]
            loc, projs = self.parse_place(body)
            # reference to a promoted/const-ref value: keep it as such
            v0 = path.frames[fid].get(loc)
            if projs == [("deref",)] and isinstance(v0, _ConstRef):
                return v0
            try:
                tf, tl, tp = self.resolve_ref_target(path, fid, loc, projs)
            except _ThroughConst:
                return _ConstRef(dest_ty, self.read(path, fid, loc, projs))
            return RefV(norm_ty(dest_ty), tf, tl, tp)
        m = re.match(r"^discriminant\((.*)\)$", s)
        if m:
            loc, projs = self.parse_place(m.group(1))
            v = self.read(path, fid, loc, projs)
            if v.kind != "enum":
                raise Refuse("discriminant of %r" % (v,))
            return IntV(v.discr, norm_ty(dest_ty))
        m = re.match(r"^(Len|PtrMetadata)\((.*)\)$", s)
        if m:
            v = self.eval_operand(path, fid, func, m.group(2)) if m.group(1) == "PtrMetadata" else \
                self.read(path, fid, *self.parse_place(m.group(2)))
            if isinstance(v, _ConstRef):
                v = v.target
            elif v.kind == "ref":
                v = self.read(path, v.fid, v.local, v.projs)
            if v.kind == "struct" and (v.ty.startswith("[") or norm_ty(v.ty).startswith("Vec<")):
                return IntV(len(v.fields), "usize")      # array / slice / vector viewed as a slice (entry-list model)
            if v.kind == "struct" and v.ty == "SymLenVec<u8>":
                return IntV(v.fields[0].term, "usize")
            if v.kind == "struct" and v.ty == "SymSlice":
                return IntV(v.fields[0].term, "usize")       # slice of symbolic length (contents not modelled)
            raise Refuse("Len of %r" % (v,))
        m = re.match(r"^(\w+)\((.*)\)$", s)
        if m and m.group(1) in self.BINOPS:
            ops = split_top(m.group(2))
            a = self.eval_operand(path, fid, func, ops[0])
            b = self.eval_operand(path, fid, func, ops[1])
            return self.binop(m.group(1), a, b, dest_ty)
        if m and m.group(1) in ("Not", "Neg"):
            a = self.eval_operand(path, fid, func, m.group(2))
            if m.group(1) == "Not":
                if a.kind == "bool":
                    return BoolV(z3.Not(a.term))
                lo, hi = int_range(a.ty)
                return IntV((hi + lo) - a.term, a.ty)
            return IntV(self.wrap(-a.term, a.ty), a.ty)
        m = re.match(r"^(.*) as (.+?) \(([^()]*(?:\([^()]*\))?[^()]*)\)$", s)
        if m and (m.group(1).startswith(("copy ", "move ", "const "))):
            v = self.eval_operand(path, fid, func, m.group(1))
            return self.cast(v, m.group(2), m.group(3))
        if s.startswith("["):
            inner = s[1:find_matching(s, 0)]
            rep = self._split_top_kw(inner, "; ")
            if len(rep) == 2:
                v = self.eval_operand(path, fid, func, rep[0])
                n = int(re.match(r"(?:const )?(\d+)", rep[1]).group(1))
                return StructV(norm_ty(dest_ty), [v] * n)
            elems = [self.eval_operand(path, fid, func, e) for e in split_top(inner)]
            return StructV(norm_ty(dest_ty), elems)
        if s == "()":
            return UnitV()
        if s.startswith(("(copy ", "(move ", "(const ")):
            inner = s[1:find_matching(s, 0)]
            elems = [self.eval_operand(path, fid, func, e) for e in split_top(inner)]
            return StructV(norm_ty(dest_ty), elems)
        if s.startswith(("copy ", "move ", "const ", "no_retag ")):
            return self.eval_operand(path, fid, func, s, dest_ty)
        return self.eval_aggregate(path, fid, func, s, dest_ty)

    def eval_aggregate(self, path, fid, func, s, dest_ty):
        # closure / coroutine
        if s.startswith("{closure@"):
            end = find_matching(s, 0)
            cty = s[:end + 1]
            rest = s[end + 1:].strip()
            fields = []
            if rest.startswith("{"):
                inner = rest[1:find_matching(rest, 0)]
                for part in split_top(inner):
                    k = part.find(": ")
                    fields.append(self.eval_operand(path, fid, func, part[k + 2:]))
            return StructV(cty, fields)
        # Path(args) | Path { f: v } | Path
        # the path ends at the first `(` / `{` outside generic brackets (`Result::<(A, B), E>::Ok(x)`)
        depth, cut = 0, len(s)
        for i, ch in enumerate(s):
            if ch == "<":
                depth += 1
            elif ch == ">" and not (i > 0 and s[i - 1] in "-="):
                depth -= 1
            elif ch in "({" and depth == 0:
                cut = i
                break
        pathname = s[:cut].strip()
        if not pathname:
            raise Refuse("rvalue %r" % s)
        rest = s[cut:].strip()
        args = []
        if rest.startswith("("):
            inner = rest[1:find_matching(rest, 0)]
            args = [self.eval_operand(path, fid, func, a) for a in split_top(inner)]
        elif rest.startswith("{"):
            inner = rest[1:find_matching(rest, 0)]
            for part in split_top(inner):
                k = part.find(": ")
                args.append(self.eval_operand(path, fid, func, part[k + 2:]))
        segs = split_path(pathname)
        segs = [x for x in segs if not x.startswith("<")]  # drop turbofish segments
        dty = norm_ty(dest_ty)
        if len(segs) >= 2:
            en = re.sub(r"<.*$", "", segs[-2])
            if en in self.prog.enum_ambiguous and len(segs) >= 3:
                en = segs[-3] + "__" + en
            if en in self.prog.enums and segs[-1] in self.prog.enums[en]:
                if en in self.prog.enum_ambiguous:
                    raise Refuse("enum name %s is ambiguous" % en)
                idx = self.prog.enums[en][segs[-1]]
                return EnumV(dty, idx, {idx: args})
        if len(segs) == 1:
            # bare variant name (rustc trims the path when the variant name is unique): the destination type names
            # the enum
            m2 = re.match(r"^(\w+)", dty)
            en = m2.group(1) if m2 else None
            if en in self.prog.enums and en not in self.prog.enum_ambiguous and en not in STD_ENUMS \
                    and segs[0] in self.prog.enums[en]:
                idx = self.prog.enums[en][segs[0]]
                return EnumV(dty, idx, {idx: args})
        return StructV(dty, args)

    # ------------------------------------------------------------------ calls
    def resolve(self, callee, args, ret_ty):
        """-> ('mir', Function) | ('model', handler) ; raises Refuse."""
        name = callee
        if self.overrides:
            cn = self.models.canon(name)
            for rx, h in self.overrides:
                if rx.search(cn) or rx.search(name):
                    return ("model", h)
        # closure call through Fn* traits
        m = re.match(r"^<(.+) as (?:std|core)::ops::(FnOnce|FnMut|Fn)<.*>>::(call_once|call_mut|call)$", name)
        if m:
            ct = m.group(1).lstrip("&").strip()
            if ct.startswith("mut "):
                ct = ct[4:]
            if ct in self.prog.closures:
                tup = args[1] if len(args) > 1 else None
                cargs = list(tup.fields) if tup is not None and tup.kind == "struct" else []
                return ("closure", self.pick_closure(ct, cargs, ret_ty))
            return ("fnvalue", None)
        base = re.sub(r"::<[^:]*>$", "", name) if name.endswith(">") and not name.startswith("<") else name
        last = last_segment(name)
        cands = [f for f in self.prog.by_last.get(last, []) if f.kind == "fn" and len(f.params) == len(args)]
        c2 = []
        for f in cands:
            ok = all(types_match(pt, a.ty) for (_, pt), a in zip(f.params, args))
            if ok and ret_ty is not None and not types_match(f.ret, ret_ty) and not _is_wild(norm_ty(ret_ty)):
                ok = False
            if ok:
                c2.append(f)
        cands = c2
        if len(cands) > 1:
            # disambiguate by Self type / trait from the call path
            m = re.match(r"^<(.+?) as (.+)>::\w+", name)
            want_self, want_trait = None, None
            if m:
                want_self, want_trait = norm_ty(m.group(1)), norm_ty(re.sub(r"<.*$", "", m.group(2)))
            else:
                segs = split_path(re.sub(r"::<.*?>$", "", name))
                if len(segs) >= 2:
                    s2 = segs[-2]
                    mm = re.match(r"^<impl (.+)>$", s2)
                    want_self = norm_ty(mm.group(1)) if mm else norm_ty(s2)
            c3 = []
            for f in cands:
                st = self.prog.impl_self_type(f)
                if st is None:
                    continue
                if want_self and st[0] != want_self:
                    continue
                if want_trait and st[1] and re.sub(r"<.*$", "", st[1]) != want_trait:
                    continue
                c3.append(f)
            if c3:
                cands = c3
        if len(cands) > 1:
            # free functions printed with a (partial) module path: the candidate whose full name ends with it
            plain = re.sub(r"::<.*>$", "", name)
            c4 = [f for f in cands if f.name == plain or f.name.endswith("::" + plain)]
            if len(c4) == 1:
                cands = c4
        if len(cands) > 1:
            # exact (non-wildcard) matches win over generic ones
            exact = [f for f in cands if all(norm_ty(pt) == norm_ty(a.ty) or
                                             re.sub(r"^&(mut )?", "&", norm_ty(pt)) == re.sub(r"^&(mut )?", "&", norm_ty(a.ty))
                                             for (_, pt), a in zip(f.params, args))]
            if len(exact) == 1:
                cands = exact
        # library models take precedence for std/core/third-party paths only
        h = self.models.lookup(name)
        if h is not None and (not cands or getattr(h, "force", False)):
            return ("model", h)
        if len(cands) == 1:
            return ("mir", cands[0])
        if h is not None:
            return ("model", h)
        if not cands:
            raise Refuse("unmodelled callee %s (arg types %s)" % (name, [a.ty for a in args]))
        raise Refuse("ambiguous callee %s: %s" % (name, [f.name for f in cands][:4]))

    def pick_closure(self, cty, cargs, ret_ty):
        cands = self.prog.closures.get(cty, [])
        if len(cands) > 1:
            c2 = [f for f in cands if len(f.params) == len(cargs) + 1 and
                  all(types_match(pt, a.ty) for (_, pt), a in zip(f.params[1:], cargs))]
            if c2:
                cands = c2
        if len(cands) > 1 and ret_ty:
            c2 = [f for f in cands if types_match(f.ret, ret_ty)]
            if c2:
                cands = c2
        if len(cands) > 1:
            # macro-generated closures share one source span: the body belonging to the innermost function on the
            # call stack that has closures of this type is the one that was created there
            if not hasattr(self.prog, "_index"):
                self.prog._index = {id(g): i for i, g in enumerate(self.prog.funcs)}
            idx = self.prog._index
            for fobj in reversed(getattr(self, "fn_stack", [])):
                c2 = [f for f in cands if f.name.startswith(fobj.name + "::{closure#")]
                if c2:
                    if len(c2) > 1 and id(fobj) in idx:
                        # several expansions of one macro have identical names: rustc prints a closure body right
                        # after the function that creates it, so the nearest following body is the one
                        after = [f for f in c2 if idx.get(id(f), -1) > idx[id(fobj)]]
                        if after:
                            c2 = [min(after, key=lambda f: idx[id(f)])]
                    cands = c2
                    break
        if len(cands) != 1:
            raise Refuse("closure %s: %d candidate bodies" % (cty, len(cands)))
        return cands[0]

    def call_function(self, f, args, path):
        """Execute MIR function f. Returns list of Outcome (kind 'ret' or 'panic')."""
        self.stats["calls"] += 1
        self.stats["mir_calls"][f.name] = self.stats["mir_calls"].get(f.name, 0) + 1
        self.depth += 1
        if self.depth > 60:
            raise Refuse("call depth > 60 (recursion?)")
        if not hasattr(self, "fn_stack"):
            self.fn_stack = []
        self.fn_stack.append(f)
        try:
            fid = path.nfid
            path.nfid += 1
            frame = {}
            for (loc, ty), a in zip(f.params, args):
                frame[loc] = a
            path.frames[fid] = frame
            outs = []
            work = [(path, "bb0")]
            while work:
                p, bb = work.pop()
                self._run_block(f, fid, p, bb, work, outs)
            return outs
        finally:
            self.depth -= 1
            self.fn_stack.pop()

    def _run_block(self, f, fid, path, bbname, work, outs):
        key = (fid, bbname)
        path.visits[key] = path.visits.get(key, 0) + 1
        if path.visits[key] > self.max_unroll:
            outs.append(Outcome(path, "unwind", msg="loop bound %d exceeded at %s %s" % (self.max_unroll, f.name, bbname)))
            return
        blk = f.blocks.get(bbname)
        if blk is None:
            raise Refuse("missing block %s in %s" % (bbname, f.name))
        for st in blk.stmts:
            self.exec_stmt(path, fid, f, st)
        t = blk.term
        if t is None:
            raise Refuse("block without terminator")
        if t.startswith("goto -> "):
            work.append((path, t[8:].strip()))
            return
        if t == "return":
            v = path.frames[fid].get("_0")
            if v is None:
                v = UnitV()
            outs.append(Outcome(path, "ret", v))
            return
        if t == "unreachable":
            # reached only on infeasible paths if the program is well-formed: make it an obligation
            outs.append(Outcome(path, "panic", msg="unreachable reached in %s" % f.name))
            return
        if t.startswith("switchInt("):
            end = find_matching(t, len("switchInt"))
            opnd = t[len("switchInt("):end]
            v = self.eval_operand(path, fid, f, opnd)
            tg = t[t.index("[", end) + 1:t.rindex("]")]
            targets, otherwise = [], None
            for part in split_top(tg):
                k, b = part.split(": ")
                if k.strip() == "otherwise":
                    otherwise = b.strip()
                else:
                    targets.append((int(k), b.strip()))
            if v.kind == "bool":
                term = z3.If(v.term, 1, 0)
                ty = "u8"
            elif v.kind == "int":
                term, ty = v.term, v.ty
            else:
                raise Refuse("switchInt on %r" % (v,))
            lo, hi = int_range(ty) if is_int_ty(ty) else (0, 0)
            conds = []
            vals = []
            for k, b in targets:
                if lo < 0 and k > hi:
                    k = k - (hi - lo + 1)
                vals.append(k)
                conds.append((term == k, b))
            if otherwise is not None:
                conds.append((z3.And([term != k for k in vals]) if vals else z3.BoolVal(True), otherwise))
            for p2, b in self.fork(path, conds):
                work.append((p2, b))
            return
        if t.startswith("assert("):
            end = find_matching(t, len("assert"))
            inner = split_top(t[len("assert("):end])
            cond_s = inner[0].strip()
            neg = cond_s.startswith("!")
            if neg:
                cond_s = cond_s[1:]
            cv = self.eval_operand(path, fid, f, cond_s)
            c = z3.Not(cv.term) if neg else cv.term
            m = re.search(r"success: (bb\d+)", t)
            for p2, tag in self.fork(path, [(c, "ok"), (z3.Not(c), "fail")]):
                if tag == "ok":
                    work.append((p2, m.group(1)))
                else:
                    outs.append(Outcome(p2, "panic", msg="assert failed in %s: %s" % (last_segment(f.name), inner[1][:80] if len(inner) > 1 else "")))
            return
        if t.startswith("drop("):
            m = re.search(r"return: (bb\d+)", t)
            work.append((path, m.group(1)))
            return
        # call
        m = re.match(r"^(.*?) = (.*)$", t)
        if not m:
            raise Refuse("terminator %r" % t)
        dest_s = m.group(1)
        rest = m.group(2)
        arrow = rest.rfind(") -> ")
        call_s, tail = rest[:arrow + 1], rest[arrow + 5:]
        rm = re.search(r"return: (bb\d+)", tail)
        ret_bb = rm.group(1) if rm else (tail.strip() if re.match(r"^bb\d+$", tail.strip()) else None)
        # split callee(args)
        # args are the last top-level parenthesised group
        depth, i = 0, len(call_s) - 1
        while i >= 0:
            ch = call_s[i]
            if ch == ")":
                depth += 1
            elif ch == "(":
                depth -= 1
                if depth == 0:
                    break
            i -= 1
        callee = call_s[:i].strip()
        arg_strs = split_top(call_s[i + 1:-1])
        args = [self.eval_operand(path, fid, f, a) for a in arg_strs]
        dloc, dprojs = self.parse_place(dest_s)
        dest_ty = self.local_type(f, dloc) if not dprojs else None
        results = self.do_call(path, fid, f, callee, args, dest_ty)
        for o in results:
            if o.kind == "ret":
                if ret_bb is None:
                    # diverging call that returned: treat as refuse
                    raise Refuse("diverging call returned: %s" % callee)
                self.write(o.path, fid, dloc, dprojs, o.value)
                work.append((o.path, ret_bb))
            else:
                outs.append(o)

    def do_call(self, path, fid, func, callee, args, dest_ty):
        # callee may be a local holding a function value: `move _5(args)`
        if callee.startswith(("move ", "copy ")):
            fv = self.eval_operand(path, fid, func, callee)
            return self.call_value(path, fv, args, dest_ty)
        if callee in ("panic", "core::panicking::panic", "std::rt::begin_panic", "core::panicking::panic_fmt",
                      "panic_fmt", "core::panicking::panic_explicit", "core::panicking::unreachable_display"):
            msg = args[0].text if args and args[0].kind == "str" else "panic"
            return [Outcome(path, "panic", msg="panic in %s: %s" % (last_segment(func.name), msg))]
        kind, target = self.resolve(callee, args, dest_ty)
        if kind == "mir":
            return self.call_function(target, args, path)
        if kind == "closure":
            # Fn*::call*(closure, (args,)) : untuple
            clo = args[0]
            tup = args[1]
            cargs = list(tup.fields) if tup.kind == "struct" else []
            return self.call_function(target, [clo] + cargs, path)
        if kind == "fnvalue":
            tup = args[1]
            cargs = list(tup.fields) if tup.kind == "struct" else []
            return self.call_value(path, args[0], cargs, dest_ty)
        self.stats["model_calls"][callee] = self.stats["model_calls"].get(callee, 0) + 1
        self._cur_path = path
        r = target(self, path, args, norm_ty(dest_ty) if dest_ty else None, callee)
        if isinstance(r, V):
            return [Outcome(path, "ret", r)]
        return r

    def call_named(self, path, name, args, dest_ty):
        """call a function by its printed path (used by library models that forward to another impl)."""
        kind, target = self.resolve(name, args, dest_ty)
        if kind == "mir":
            return self.call_function(target, list(args), path)
        if kind == "model":
            self.stats["model_calls"][name] = self.stats["model_calls"].get(name, 0) + 1
            r = target(self, path, list(args), norm_ty(dest_ty) if dest_ty else None, name)
            return [Outcome(path, "ret", r)] if isinstance(r, V) else r
        raise Refuse("call_named %s: %s" % (name, kind))

    def call_value(self, path, fv, args, dest_ty):
        """call a function VALUE (closure struct, fn item, tuple-struct constructor)."""
        fref = None
        while fv.kind == "ref":
            fref = fv
            fv = fv.target if hasattr(fv, "target") else self.read(path, fv.fid, fv.local, fv.projs)
        if fv.kind == "struct" and fv.ty.startswith("{closure@"):
            f = self.pick_closure(fv.ty, list(args), dest_ty)
            a0 = fv
            if f.params and norm_ty(f.params[0][1]).startswith("&"):
                # Fn / FnMut bodies take the closure by reference
                a0 = fref if fref is not None else _ConstRef(norm_ty(f.params[0][1]), fv)
            return self.call_function(f, [a0] + list(args), path)
        if fv.kind == "fn":
            name = fv.name
            # closure type with no captures
            if name.startswith("{closure@"):
                f = self.pick_closure(name, list(args), dest_ty)
                return self.call_function(f, [StructV(name, [])] + list(args), path)
            # fn(A) -> B {path}  : function item; tuple-struct constructors look the same
            m = re.search(r"\{(.*)\}$", name)
            target = m.group(1) if m else name
            try:
                kind, t = self.resolve(target, args, dest_ty)
            except Refuse:
                # tuple struct constructor, e.g. decimal::Decimal
                return [Outcome(path, "ret", StructV(norm_ty(dest_ty) if dest_ty else norm_ty(target), list(args)))]
            if kind == "mir":
                return self.call_function(t, list(args), path)
            if kind == "model":
                r = t(self, path, list(args), norm_ty(dest_ty) if dest_ty else None, target)
                return [Outcome(path, "ret", r)] if isinstance(r, V) else r
        raise Refuse("call of value %r" % (fv,))

    # ------------------------------------------------------------------ statements
    def exec_stmt(self, path, fid, f, st):
        self._cur_path = path
        if st.startswith(("StorageLive", "StorageDead", "ConstEvalCounter", "nop", "FakeRead", "AscribeUserType",
                          "PlaceMention", "Retag", "Coverage", "BackwardIncompatibleDropHint")):
            return
        m = re.match(r"^discriminant\((.*)\) = (-?\d+)$", st)
        if m:
            loc, projs = self.parse_place(m.group(1))
            v = self.read(path, fid, loc, projs)
            if v.kind == "undef":
                v = EnumV(norm_ty(self.local_type(f, loc)), 0, {})
            # the printed number is the variant INDEX
            idx = int(m.group(2))
            self.write(path, fid, loc, projs, EnumV(v.ty, self._variant_discr(v.ty, idx), v.variants))
            return
        if st.startswith("Deinit("):
            return
        if st.startswith("assume("):
            v = self.eval_operand(path, fid, f, st[len("assume("):-1])
            self.assume(path, v.term)
            return
        parts = self._split_top_kw(st, " = ")
        if len(parts) != 2:
            raise Refuse("statement %r" % st)
        loc, projs = self.parse_place(parts[0])
        dest_ty = self.local_type(f, loc) if not projs else self._proj_type(parts[0])
        # uninitialised aggregate written field by field
        if projs and path.frames[fid].get(loc) is None:
            raise Refuse("field-wise initialisation of %s" % loc)
        v = self.eval_rvalue(path, fid, f, parts[1], dest_ty)
        self.write(path, fid, loc, projs, v)

    def _variant_discr(self, enum_ty, index):
        name = re.match(r"^&?(\w+)", norm_ty(enum_ty)).group(1)
        if name in self.prog.enum_ambiguous:
            raise Refuse("enum name %s is ambiguous across modules" % name)
        tab = self.prog.enums.get(name)
        if tab is None:
            raise Refuse("unknown enum %s" % name)
        vals = list(tab.values())
        return vals[index]

    @staticmethod
    def _proj_type(place_s):
        m = re.search(r": ([^()]+(?:\([^()]*\))?[^()]*)\)\s*$", place_s)
        return m.group(1) if m else "?"


class _ThroughConst(Exception):
    pass


class _ConstRef(V):
    """`&T` produced by a promoted constant: an immutable reference carried by value."""
    kind = "ref"

    def __init__(self, ty, target):
        self.ty = norm_ty(ty)
        self.target = target
        self.fid, self.local, self.projs = ("const", id(self)), "_c", ()

    def __repr__(self):
        return "ConstRef(%r)" % (self.target,)


_orig_read_proj = Interp._read_proj


def _read_proj2(self, path, fid, v, projs):
    # handle _ConstRef at any depth by intercepting deref steps
    out = v
    projs = list(projs)
    while projs:
        p = projs[0]
        if p[0] == "deref" and isinstance(out, _ConstRef):
            projs.pop(0)
            out = out.target
            continue
        # delegate one step
        step = [projs.pop(0)]
        if step[0][0] == "downcast" and projs:
            step.append(projs.pop(0))
        out = _orig_read_proj(self, path, fid, out, step)
    return out


Interp._read_proj = _read_proj2
