"""Engine-M jobs for C47: the bounds checks of read_memory / write_memory (radix-engine/src/vm/wasm/wasmi.rs).

The wasmi store / Memory are environment: `Memory::data` answers with a byte slice of SYMBOLIC length (the linear memory
size, any multiple of 64 KiB up to 4 GiB), `Memory::write` follows wasmi's contract (Err when offset + len exceeds the
memory). Slices carry only their length; indexing a slice with a range outside it is a panic outcome."""
import re

import z3

from mir_engine import Job, find_function, lit
from mirsmt.values import IntV, BoolV, StructV, EnumV, UnitV
from mirsmt import models as _models
from mir_jobs import JOBS

PAGE = 65536
MAXPAGES = 65536


def _slice(n):
    return StructV("SymSlice", [IntV(n, "usize")])


def _m_opaque(interp, path, args, ret_ty, callee):
    return StructV("StoreContext", [])


def _m_slice_index_range(interp, path, args, ret_ty, callee):
    from mirsmt.interp import _ConstRef
    s = _models.deref(interp, path, args[0])
    r = args[1]
    n, start, end = s.fields[0].term, r.fields[0].term, r.fields[1].term
    outs = []
    for p, tag in interp.fork(path, [(z3.And(start <= end, end <= n), "ok"), (z3.Or(start > end, end > n), "oob")]):
        if tag == "ok":
            outs.append(_models.Outcome(p, "ret", _ConstRef("&[u8]", _slice(end - start))))
        else:
            outs.append(_models.Outcome(p, "panic", msg="slice index out of range"))
    return outs


def _m_to_vec(interp, path, args, ret_ty, callee):
    s = _models.deref(interp, path, args[0])
    return StructV("Vec<u8>", [IntV(s.fields[0].term, "usize")])


class MemAccess(Job):
    crate = "radix-engine"
    query_timeout_s = 60

    def __init__(self, op):
        self.op = op
        self.name = "c47m::wasmi_" + op
        self.what = ("%s for every linear memory size (any number of 64 KiB pages up to 4 GiB), every u32 pointer and "
                     "every %s: Ok exactly when [ptr, ptr+len) lies inside the memory -- then exactly that range is "
                     "%s -- otherwise Err(MemoryAccessError); never a panic (no arithmetic overflow, no out-of-range "
                     "slice index)" % (op, "u32 length" if op == "read_memory" else "data length below 2^33",
                                       "read" if op == "read_memory" else "written"))
        self.cover_labels = ["ok", "err", "exact end", "empty range at the end"]

    @property
    def env_overrides(self):
        def m_data(interp, path, args, ret_ty, callee):
            from mirsmt.interp import _ConstRef
            return _ConstRef("&[u8]", _slice(lit(self._inp["pages"]) * PAGE))

        def m_write(interp, path, args, ret_ty, callee):
            # wasmi contract: Err(MemoryError::OutOfBoundsAccess) iff offset + len > size, else the bytes are stored
            data = _models.deref(interp, path, args[3])
            ok = args[2].term + data.fields[0].term <= lit(self._inp["pages"]) * PAGE
            return EnumV(ret_ty, z3.If(ok, 0, 1), {0: [UnitV()], 1: [StructV("MemoryError", [])]})
        return [(re.compile(r"as_context(_mut)?$"), _m_opaque), (re.compile(r"Memory::data::<"), m_data),
                (re.compile(r"Memory::write::<"), m_write),
                (re.compile(r"^<\[u8\] as Index<Range<usize>>>::index$"), _m_slice_index_range),
                (re.compile(r"<impl \[u8\]>::to_vec$"), _m_to_vec)]

    def locate(self, prog):
        return find_function(prog, None, self.op, nparams=4, ret_contains="InvokeError<WasmRuntimeError>")

    def inputs(self):
        d = {k: z3.Int(k) for k in ("pages", "ptr", "len")}
        pre = [d["pages"] >= 0, d["pages"] <= MAXPAGES, d["ptr"] >= 0, d["ptr"] < (1 << 32), d["len"] >= 0,
               d["len"] < ((1 << 32) if self.op == "read_memory" else (1 << 33))]
        return d, pre

    def setup_path(self, path, inp):
        self._inp = inp

    def args(self, inp):
        store, mem = StructV("Store", []), StructV("Memory", [])
        if self.op == "read_memory":
            return [store, mem, IntV(lit(inp["ptr"]), "u32"), IntV(lit(inp["len"]), "u32")]
        from mirsmt.interp import _ConstRef
        return [store, mem, IntV(lit(inp["ptr"]), "u32"), _ConstRef("&[u8]", _slice(lit(inp["len"])))]

    def extract(self, v):
        d = {"some": v.discr == 0}
        if self.op == "read_memory" and v.variants.get(0) and v.variants[0][0].kind == "struct":
            d["val"] = v.variants[0][0].fields[0].term
        else:
            d["val"] = z3.IntVal(0)
        return d

    def native(self, nat, vals):
        if self.op == "write_memory" and int(vals["len"]) > (1 << 26):
            return {"panic": False, "skipped": True, "some": int(vals["ptr"]) + int(vals["len"]) <= int(vals["pages"]) * PAGE, "val": 0}
        if int(vals["pages"]) > 2048:
            # allocating more than 128 MiB per replay is avoided; such vectors are not generated
            return {"panic": False, "skipped": True, "some": int(vals["ptr"]) + int(vals["len"]) <= int(vals["pages"]) * PAGE, "val": int(vals["len"]) if self.op == "read_memory" else 0}
        t = nat.call(self.op, vals["pages"], vals["ptr"], vals["len"]).split()
        if t[0] == "panic":
            return {"panic": True, "msg": " ".join(t[1:])}
        return {"panic": False, "some": t[0] == "ok", "val": int(t[1]) if t[0] == "ok" else 0}

    def post(self, inp, res):
        d = {k: lit(v) for k, v in inp.items()}
        inside = d["ptr"] + d["len"] <= d["pages"] * PAGE
        posts = [("Ok exactly when the range lies inside the linear memory", lit(res["some"]) == inside)]
        if self.op == "read_memory":
            posts.append(("exactly len bytes are returned", z3.Implies(lit(res["some"]), lit(res["val"]) == d["len"])))
        return posts

    def covers(self, inp, res):
        d = {k: lit(v) for k, v in inp.items()}
        size = d["pages"] * PAGE
        return [("ok", z3.And(lit(res["some"]), d["len"] > 0)), ("err", z3.Not(lit(res["some"]))),
                ("exact end", z3.And(lit(res["some"]), d["ptr"] + d["len"] == size, d["len"] > 0)),
                ("empty range at the end", z3.And(lit(res["some"]), d["ptr"] == size, d["len"] == 0, size > 0))]

    def vectors(self, rng):
        out = []
        for pages in (0, 1, 2, 16):
            size = pages * PAGE
            for ptr, ln in ((0, 0), (0, size), (0, size + 1), (size, 0), (size, 1), (size + 1, 0), (max(0, size - 1), 1),
                            (max(0, size - 1), 2), (5, 7), ((1 << 32) - 1, 1), ((1 << 32) - 1, (1 << 32) - 1 if self.op == "read_memory" else 70000),
                            (rng.randrange(0, size + 10), rng.randrange(0, 100))):
                if self.op == "write_memory" and ln > (1 << 20):
                    continue
                out.append({"pages": pages, "ptr": min(ptr, (1 << 32) - 1), "len": ln})
        return out


JOBS["C47"] = [MemAccess("read_memory"), MemAccess("write_memory")]
