"""Shared pieces of the /verif driver: paths, obligation records, evidence, known findings."""
import hashlib
import json
import os
import re
import shutil
import subprocess
import time

VERIF = os.path.dirname(os.path.dirname(os.path.abspath(__file__)))
REPO = os.environ.get("VERIF_REPO", "/repo")
EVIDENCE_DIR = os.path.join(VERIF, "evidence")
REPLAY_DIR = os.path.join(VERIF, "replays")
KNOWN_FINDINGS = os.path.join(VERIF, "known_findings.txt")
GUARD = "radixdlt_radixdlt_scrypto_verif"

HELD = "held"                # solver verdict: assertion holds for every value inside the bound
VIOLATED = "violated"        # counterexample found AND reproduced natively against the real code
INCONCLUSIVE = "inconclusive"  # timeout / OOM / unknown / (error ...
VACUOUS = "vacuous"          # a reachability witness (cover) was not satisfied
BROKEN = "broken"            # check machinery failed (build error, function not found, bound too small,
                             # counterexample that does not reproduce natively)


class Obligation:
    """One solver-decided proof obligation (a Kani harness or an SMT query group)."""

    def __init__(self, engine, name, what):
        self.engine = engine
        self.name = name
        self.what = what
        self.status = None
        self.detail = ""
        self.solver_s = 0.0
        self.wall_s = 0.0
        self.checks = 0          # number of solver-level checks / queries decided
        self.covers = (0, 0)     # (satisfied, total) reachability witnesses
        self.key = None          # identity of a violation for known-findings matching
        self.replay = None       # path of the replay file for a violation
        self.witness = None      # concrete counterexample (json-able)
        self.extra = {}

    def to_json(self):
        d = {
            "engine": self.engine,
            "obligation": self.name,
            "what": self.what,
            "status": self.status,
            "solver_s": round(self.solver_s, 3),
            "wall_s": round(self.wall_s, 3),
            "checks_decided": self.checks,
            "covers_satisfied": "%d/%d" % self.covers,
        }
        if self.detail:
            d["detail"] = self.detail[:2000]
        if self.witness is not None:
            d["witness"] = self.witness
        if self.replay:
            d["replay"] = self.replay
        if self.key:
            d["key"] = self.key
        d.update(self.extra)
        return d


def sha256_file(path):
    h = hashlib.sha256()
    with open(path, "rb") as f:
        for chunk in iter(lambda: f.read(1 << 20), b""):
            h.update(chunk)
    return h.hexdigest()


def repo_head():
    try:
        return subprocess.check_output(["git", "-C", REPO, "rev-parse", "HEAD"], text=True).strip()
    except Exception:
        return "unknown"


def repo_dirty_files():
    try:
        out = subprocess.check_output(["git", "-C", REPO, "status", "--porcelain", "-uno"], text=True)
        return [l[3:] for l in out.splitlines() if l.strip()]
    except Exception:
        return []


def load_known_findings():
    """Returns (known, fixed): lists of dicts with property, key, text."""
    known, fixed = [], []
    if not os.path.exists(KNOWN_FINDINGS):
        return known, fixed
    for line in open(KNOWN_FINDINGS):
        line = line.strip()
        if not line or line.startswith("#"):
            continue
        m = re.match(r"known:\s+property=(\S+)\s+key=(\S+)\s+(.*)$", line)
        if m:
            known.append({"property": m.group(1), "key": m.group(2), "text": m.group(3)})
            continue
        m = re.match(r"fixed:\s+property=(\S+)\s+(\S+)\s+(.*)$", line)
        if m:
            fixed.append({"property": m.group(1), "commit": m.group(2), "text": m.group(3)})
    return known, fixed


def write_evidence(pid, tier, seed, obligations, spec, wall_s, violations, extra_cov=None):
    os.makedirs(EVIDENCE_DIR, exist_ok=True)
    decided = [o for o in obligations if o.status in (HELD, VIOLATED)]
    held = [o for o in obligations if o.status == HELD]
    nontrivial = [o for o in held if o.covers[1] == 0 or o.covers[0] == o.covers[1]]
    solver_s = sum(o.solver_s for o in obligations)
    expl = (
        "Solver-based bounded checking of the real code. Each obligation below is one solver verdict "
        "(CBMC/SAT on the goto-program Kani compiles from /repo, or z3/cvc5 on SMT-LIB generated from the MIR "
        "rustc emits for /repo's current tree) over ALL values of the symbolic inputs inside the stated bound. "
        "Functions encoded: %s. Bounds: %s. Outside the claim: %s. Obligations: %d, held: %d, "
        "solver seconds: %.1f." % (
            "; ".join(spec.get("functions", [])), spec.get("bounds", ""), spec.get("outside", ""),
            len(obligations), len(held), solver_s)
    )
    cov = {
        "explanation": expl,
        "obligations": len(obligations),
        "discharged": len(held),
        "evaluations": sum(max(1, o.checks) for o in decided),
        "distinct_nontrivial": len(nontrivial),
        "rule": "one evaluation = one solver-level check (CBMC property / SMT query) decided; an obligation is "
                "non-trivial when it held and every reachability witness (kani::cover / sat-check of the path "
                "condition) attached to it was satisfied, i.e. the assertion was reached on a feasible path",
        "samples": [o.to_json() for o in obligations],
        "checker_cmd": "cd /verif && ./check %s --tier %s" % (pid, tier),
        "trusted_base": spec.get("trusted_base", []),
        "functions_encoded": spec.get("functions", []),
        "bounds": spec.get("bounds", ""),
        "outside_claim": spec.get("outside", ""),
        "solver_seconds": round(solver_s, 2),
        "repo_head": repo_head(),
        "repo_dirty_files": repo_dirty_files()[:50],
        "exhaustive": False,
    }
    if extra_cov:
        cov.update(extra_cov)
    ev = {
        "property_id": pid,
        "tier": tier,
        "seed": seed,
        "level": "other",
        "coverage": cov,
        "assumptions": spec.get("assumptions", []),
        "wall_s": round(wall_s, 2),
        "violations": violations,
    }
    path = os.path.join(EVIDENCE_DIR, pid + ".json")
    tmp = path + ".tmp"
    with open(tmp, "w") as f:
        json.dump(ev, f, indent=1, default=str)
    os.replace(tmp, path)
    return path
