"""Engine-M jobs for C49: LimitsModule::{process_io_access, process_substate_key} (radix-engine)."""
import re

import z3

from mir_engine import Job, find_function, lit
from mirsmt.values import IntV, BoolV, StructV, EnumV, RefV, UnitV, UndefV
from mirsmt import models as _models
from mir_jobs import JOBS, const_ref

USIZE = (1 << 64) - 1
BIG = 1 << 40


def config_v(d):
    g = lambda k, dflt: IntV(d.get(k, dflt), "usize")      # noqa: E731
    return StructV("TransactionLimitsConfig", [g("depth", 8), g("max_heap", 0), g("max_track", 0), g("max_key", 0),
                                               g("max_val", 0), g("max_payload", 0), g("max_event", 0), g("max_log", 0),
                                               g("max_panic", 0), g("max_logs", 0), g("max_events", 0)])


def opt_usize(k, v):
    return EnumV("Option<usize>", k, {0: [], 1: [IntV(v, "usize")]})


class IoAccess(Job):
    crate = "radix-engine"
    query_timeout_s = 60

    def __init__(self):
        self.name = "c49m::limits_process_io_access"
        self.what = ("LimitsModule::process_io_access, one step from arbitrary heap / track byte totals with an arbitrary "
                     "IOAccess (database reads, heap or track substate update with any old / new size and key length): the "
                     "totals change by exactly key + new size for a new entry, new - old for a replacement and -(key + "
                     "old) for a removal; the step fails exactly when the heap total exceeds max_heap_substate_total_bytes "
                     "or the track total exceeds max_track_substate_total_bytes (boundary exact); no arithmetic panic "
                     "when the replaced entry was accounted for")
        self.cover_labels = ["ok", "heap exceeded", "track exceeded", "exactly at the heap limit", "removal"]

    @property
    def env_overrides(self):
        def m_keylen(interp, path, args, ret_ty, callee):
            return IntV(lit(self._d["klen"]), "usize")
        return [(re.compile(r"CanonicalSubstateKey::len$|^<impl .*>::len$"), m_keylen)]

    def locate(self, prog):
        return find_function(prog, "limits/module.rs", "process_io_access", nparams=2)

    def inputs(self):
        names = ["max_heap", "max_track", "H", "T", "kind", "klen", "oldk", "old", "newk", "new"]
        d = {k: z3.Int(k) for k in names}
        pre = [d["max_heap"] >= 0, d["max_heap"] <= BIG, d["max_track"] >= 0, d["max_track"] <= BIG, d["H"] >= 0, d["H"] <= BIG,
               d["T"] >= 0, d["T"] <= BIG, d["kind"] >= 0, d["kind"] <= 3, d["klen"] >= 32, d["klen"] <= 2000,
               d["oldk"] >= 0, d["oldk"] <= 1, d["newk"] >= 0, d["newk"] <= 1, d["old"] >= 0, d["old"] <= BIG, d["new"] >= 0,
               d["new"] <= BIG, z3.Implies(d["oldk"] == 0, d["old"] == 0), z3.Implies(d["newk"] == 0, d["new"] == 0)]
        # the entry being replaced / removed is part of the total it is subtracted from
        acc = d["klen"] + d["old"]
        pre += [z3.Implies(z3.And(d["kind"] == 3, d["oldk"] == 1), d["H"] >= acc),
                z3.Implies(z3.And(d["kind"] == 2, d["oldk"] == 1), d["T"] >= acc),
                # removing an entry that does not exist is not a transition the track / heap report
                z3.Implies(z3.And(d["kind"] >= 2, d["oldk"] == 0), d["newk"] == 1),
                # a running total is 0 or at least one canonical key long (every accounted entry includes its 32+ byte
                # key): totals in between are unreachable -- and cannot be rebuilt by the native scenario
                z3.Or(d["H"] == 0, d["H"] >= 32), z3.Or(d["T"] == 0, d["T"] >= 32),
                # ... and within the configured maxima (the step that exceeded one failed the transaction)
                d["H"] <= d["max_heap"], d["T"] <= d["max_track"]]
        return d, pre

    def setup_path(self, path, inp):
        self._d = {k: lit(v) for k, v in inp.items()}
        d = self._d
        path.frames["job"] = {"self": StructV("LimitsModule", [config_v(d), IntV(d["H"], "usize"), IntV(d["T"], "usize")])}

    def args(self, inp):
        d = {k: lit(v) for k, v in inp.items()}
        key = StructV("CanonicalSubstateKey", [UndefV(), UndefV(), UndefV()])
        io = EnumV("IOAccess", d["kind"], {0: [key, IntV(5, "usize")], 1: [key],
                                             2: [key, opt_usize(d["oldk"], d["old"]), opt_usize(d["newk"], d["new"])],
                                             3: [key, opt_usize(d["oldk"], d["old"]), opt_usize(d["newk"], d["new"])]})
        return [RefV("&mut LimitsModule", "job", "self", ()), const_ref("&IOAccess", io)]

    def extract_outcome(self, o):
        m = o.path.frames["job"]["self"]
        return {"ok": o.value.discr == 0, "H1": m.fields[1].term, "T1": m.fields[2].term}

    def native(self, nat, vals):
        h0, t0 = int(vals["H"]), int(vals["T"])
        if (0 < h0 < 32) or (0 < t0 < 32):
            return {"panic": False, "skipped": True, "ok": None}
        t = nat.call("limits_io", vals["max_heap"], vals["max_track"], h0, t0, vals["kind"], vals["klen"], vals["oldk"],
                     vals["old"], vals["newk"], vals["new"]).split()
        if t[0] == "panic":
            return {"panic": True, "msg": " ".join(t[1:])}
        r = {"panic": False, "ok": t[0] == "ok"}
        if t[0] == "ok" and len(t) >= 3:
            # totals after an accepted step, read back through two probing updates (-1 = probe inconclusive)
            if int(t[1]) >= 0:
                r["H1"] = int(t[1])
            if int(t[2]) >= 0:
                r["T1"] = int(t[2])
        if t[0] == "err" and t[1] == "heap":
            r["H1"] = int(t[2])
        if t[0] == "err" and t[1] == "track":
            r["T1"] = int(t[2])
        return r

    def post(self, inp, res):
        d = {k: lit(v) for k, v in inp.items()}
        r = {k: lit(v) for k, v in res.items() if v is not None and not isinstance(v, str)}
        if "ok" not in r:
            return []
        delta = z3.If(d["oldk"] == 0, d["klen"], 0) - z3.If(d["newk"] == 0, d["klen"], 0) + d["new"] - d["old"]
        h1 = d["H"] + z3.If(d["kind"] == 3, delta, 0)
        t1 = d["T"] + z3.If(d["kind"] == 2, delta, 0)
        posts = [("fails exactly when a total exceeds its configured maximum",
                  r["ok"] == z3.And(h1 <= d["max_heap"], t1 <= d["max_track"]))]
        if "H1" in r:
            posts.append(("the heap total changes by exactly the accounted difference", r["H1"] == h1))
        if "T1" in r:
            posts.append(("the track total changes by exactly the accounted difference", r["T1"] == t1))
        return posts

    def covers(self, inp, res):
        d = {k: lit(v) for k, v in inp.items()}
        if res.get("ok") is None:
            return []
        ok = lit(res["ok"])
        return [("ok", z3.And(ok, d["kind"] >= 2)), ("heap exceeded", z3.And(z3.Not(ok), d["kind"] == 3)),
                ("track exceeded", z3.And(z3.Not(ok), d["kind"] == 2)),
                ("exactly at the heap limit", z3.And(ok, d["kind"] == 3, lit(res.get("H1", 0)) == d["max_heap"], d["max_heap"] > 0)),
                ("removal", z3.And(ok, d["kind"] >= 2, d["newk"] == 0))]

    def vectors(self, rng):
        out = []
        for _ in range(40):
            kind = rng.randrange(4)
            klen = rng.choice([32, 40, 100])
            oldk = rng.randrange(2)
            newk = 1 if oldk == 0 else rng.randrange(2)
            old = rng.choice([0, 10, 500]) if oldk else 0
            new = rng.choice([0, 10, 600]) if newk else 0
            base = klen + old + rng.choice([0, 5, 1000])
            H = base if (kind == 3 and oldk) else rng.choice([0, 32, 700])
            T = base if (kind == 2 and oldk) else rng.choice([0, 32, 700])
            mh, mt = rng.choice([0, 100, 700, 10 ** 6]), rng.choice([0, 100, 700, 10 ** 6])
            delta = (klen if not oldk else 0) - (klen if not newk else 0) + new - old
            if rng.random() < 0.3 and kind == 3:
                mh = H + delta if H + delta >= 0 else mh
            out.append({"max_heap": mh, "max_track": mt, "H": H, "T": T, "kind": kind, "klen": klen, "oldk": oldk, "old": old,
                        "newk": newk, "new": new})
        return out


class KeySize(Job):
    crate = "radix-engine"
    env_overrides = [(re.compile(r"^Vec::<u8>::len$"), lambda interp, path, args, ret_ty, callee: IntV(
        _models.deref(interp, path, args[0]).fields[0].term, "usize"))]

    def __init__(self):
        self.name = "c49m::limits_process_substate_key"
        self.what = ("LimitsModule::process_substate_key for field, map and sorted keys of any length: rejected exactly "
                     "when the key size (1 for a field, the map key length, the sorted key length + 2) exceeds "
                     "max_substate_key_size")
        self.cover_labels = ["ok", "too long", "exactly at the limit (sorted)"]

    def locate(self, prog):
        return find_function(prog, "limits/module.rs", "process_substate_key", nparams=2)

    def inputs(self):
        d = {k: z3.Int(k) for k in ("max_key", "kind", "len")}
        return d, [d["max_key"] >= 0, d["max_key"] <= BIG, d["kind"] >= 0, d["kind"] <= 2, d["len"] >= 0, d["len"] <= BIG]

    def args(self, inp):
        d = {k: lit(v) for k, v in inp.items()}
        vec = StructV("Vec<u8>", [IntV(d["len"], "usize")])
        # SubstateKey: Field(u8) = 0, Map(Vec<u8>) = 1, Sorted(([u8; 2], Vec<u8>)) = 2
        key = EnumV("SubstateKey", d["kind"], {0: [IntV(7, "u8")], 1: [vec], 2: [StructV("([u8; 2], Vec<u8>)", [
            StructV("[u8; 2]", [IntV(0, "u8"), IntV(0, "u8")]), vec])]})
        m = StructV("LimitsModule", [config_v(d), IntV(0, "usize"), IntV(0, "usize")])
        return [const_ref("&LimitsModule", m), const_ref("&SubstateKey", key)]

    def extract(self, v):
        return {"ok": v.discr == 0}

    def native(self, nat, vals):
        if int(vals["len"]) > 10 ** 6:
            return {"panic": False, "skipped": True, "ok": None}
        t = nat.call("limits_key", vals["max_key"], vals["kind"], vals["len"]).split()
        if t[0] == "panic":
            return {"panic": True, "msg": " ".join(t[1:])}
        return {"panic": False, "ok": t[0] == "ok"}

    def post(self, inp, res):
        d = {k: lit(v) for k, v in inp.items()}
        if res.get("ok") is None:
            return []
        size = z3.If(d["kind"] == 0, 1, z3.If(d["kind"] == 1, d["len"], d["len"] + 2))
        return [("rejected exactly when the key size exceeds the maximum", lit(res["ok"]) == (size <= d["max_key"]))]

    def covers(self, inp, res):
        d = {k: lit(v) for k, v in inp.items()}
        if res.get("ok") is None:
            return []
        ok = lit(res["ok"])
        return [("ok", ok), ("too long", z3.Not(ok)), ("exactly at the limit (sorted)", z3.And(ok, d["kind"] == 2, d["len"] + 2 == d["max_key"]))]

    def vectors(self, rng):
        return [{"max_key": rng.choice([0, 1, 2, 10, 100]), "kind": rng.randrange(3), "len": rng.choice([0, 1, 8, 9, 10, 98, 99, 100, 101])}
                for _ in range(40)]


JOBS["C49"] = [IoAccess(), KeySize()]
