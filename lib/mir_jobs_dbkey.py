"""Engine-M jobs for C16 (sorted keys): SpreadPrefixKeyMapper::{sorted_to_db_sort_key, sorted_from_db_sort_key} with
to_hash_prefixed / from_hash_prefixed executed from their MIR; the hash function is an environment stub returning 32
arbitrary bytes (the claim is about where the 2-byte sort prefix and the payload sit in the database key, whatever the
hash is)."""
import re as _re

import z3

from mir_engine import Job, find_function, lit
from mirsmt.values import IntV, StructV
from mir_jobs import JOBS, const_ref

FILE = "radix-substate-store-interface/src/db_key_mapper.rs"


def _bytes(ty, terms):
    return StructV(ty, [IntV(t, "u8") for t in terms])


def _parse(s):
    t = s.split()
    if t[0] == "panic":
        return None
    if t[0] != "val":
        raise RuntimeError("native output: " + s)
    return [int(x) for x in t[1:]]


class SortedToDb(Job):
    crate = "radix-substate-store-interface"
    query_timeout_s = 60
    case_keys = ("n",)

    def __init__(self):
        self.name = "c16m::sorted_to_db_sort_key"
        self.what = ("SpreadPrefixKeyMapper::sorted_to_db_sort_key (with to_hash_prefixed; hash = 32 arbitrary bytes) for every "
                     "2-byte sort prefix and every payload of the case's length: the database key is 22 + n bytes long, it "
                     "STARTS with the two prefix bytes in their original order (so byte-lexicographic database order sorts "
                     "first by the prefix), and it ends with the payload unchanged")
        self.cover_labels = ["prefix bytes differ", "high prefix byte is the smaller one"]

    def cases(self, tier):
        return [{"n": n} for n in ((0, 3) if tier == "quick" else (0, 1, 3, 5))]

    def locate(self, prog):
        return find_function(prog, "db_key_mapper.rs", "sorted_to_db_sort_key", nparams=1)

    def _names(self):
        return ["p0", "p1"] + ["r%d" % i for i in range(self.case["n"])] + ["h%d" % i for i in range(32)]

    def inputs(self):
        d = {k: z3.Int(k) for k in self._names()}
        return d, [c for v in d.values() for c in (v >= 0, v <= 255)]

    @property
    def env_overrides(self):
        def m_hash(interp, path, args, ret_ty, callee):
            return StructV("Hash", [_bytes("[u8; 32]", path.frames["job"]["h"])])
        return [(_re.compile(r"(^|::)hash::<&\[u8\]>$"), m_hash)]

    def setup_path(self, path, inp):
        path.frames["job"] = {"h": [lit(inp["h%d" % i]) for i in range(32)]}

    def args(self, inp):
        d = {k: lit(v) for k, v in inp.items()}
        key = StructV("([u8; 2], Vec<u8>)", [_bytes("[u8; 2]", [d["p0"], d["p1"]]),
                                             _bytes("Vec<u8>", [d["r%d" % i] for i in range(self.case["n"])])])
        return [const_ref("&([u8; 2], Vec<u8>)", key)]

    def extract(self, v):
        k = v.fields[0].fields
        n = self.case["n"]
        out = {"len": z3.IntVal(len(k)), "k0": k[0].term if len(k) > 0 else z3.IntVal(-1),
               "k1": k[1].term if len(k) > 1 else z3.IntVal(-1)}
        for i in range(n):
            out["t%d" % i] = k[22 + i].term if len(k) > 22 + i else z3.IntVal(-1)
        return out

    def native(self, nat, vals):
        n = self.case["n"]
        t = _parse(nat.call("sorted_to_db", vals["p0"], vals["p1"], *[vals["r%d" % i] for i in range(n)]))
        if t is None:
            return {"panic": True}
        r = {"panic": False, "len": t[0], "k0": t[1], "k1": t[2]}
        for i in range(n):
            r["t%d" % i] = t[3 + i] if len(t) > 3 + i else -1
        return r

    def post(self, inp, res):
        d = {k: lit(v) for k, v in inp.items()}
        r = {k: lit(v) for k, v in res.items()}
        n = self.case["n"]
        return [("the database key is 2 prefix bytes + 20 hash bytes + the payload long", r["len"] == 22 + n),
                ("the database key starts with the two sort-prefix bytes in their original order",
                 z3.And(r["k0"] == d["p0"], r["k1"] == d["p1"])),
                ("the payload follows the hash prefix unchanged",
                 z3.And([r["t%d" % i] == d["r%d" % i] for i in range(n)]) if n else z3.BoolVal(True))]

    def covers(self, inp, res):
        d = {k: lit(v) for k, v in inp.items()}
        return [("prefix bytes differ", d["p0"] != d["p1"]), ("high prefix byte is the smaller one", d["p0"] < d["p1"])]

    def vectors(self, rng):
        out = []
        for _ in range(12):
            n = rng.choice([0, 3])
            v = {"n": n, "p0": rng.choice([0, 1, 255, 7]), "p1": rng.choice([0, 255, 1, 200])}
            v.update({"r%d" % i: rng.randrange(256) for i in range(n)})
            v.update({"h%d" % i: 0 for i in range(32)})
            out.append(v)
        return out


class SortedFromDb(Job):
    crate = "radix-substate-store-interface"
    query_timeout_s = 60
    case_keys = ("n",)

    def __init__(self):
        self.name = "c16m::sorted_from_db_sort_key"
        self.what = ("SpreadPrefixKeyMapper::sorted_from_db_sort_key (with from_hash_prefixed) for every database key of "
                     "22 + n bytes: the sort prefix returned is the key's first two bytes in order and the payload is "
                     "everything after the 20-byte hash prefix -- together with c16m::sorted_to_db_sort_key: mapping a sorted "
                     "key to its database key and back returns the original key")
        self.cover_labels = ["prefix bytes differ"]

    def cases(self, tier):
        return [{"n": n} for n in ((0, 3) if tier == "quick" else (0, 1, 3, 5))]

    def locate(self, prog):
        return find_function(prog, "db_key_mapper.rs", "sorted_from_db_sort_key", nparams=1)

    def inputs(self):
        d = {"b%d" % i: z3.Int("b%d" % i) for i in range(22 + self.case["n"])}
        return d, [c for v in d.values() for c in (v >= 0, v <= 255)]

    def args(self, inp):
        d = {k: lit(v) for k, v in inp.items()}
        key = StructV("DbSortKey", [_bytes("Vec<u8>", [d["b%d" % i] for i in range(22 + self.case["n"])])])
        return [const_ref("&DbSortKey", key)]

    def extract(self, v):
        q, c = v.fields[0].fields, v.fields[1].fields
        out = {"q0": q[0].term, "q1": q[1].term, "len": z3.IntVal(len(c))}
        for i in range(self.case["n"]):
            out["c%d" % i] = c[i].term if len(c) > i else z3.IntVal(-1)
        return out

    def native(self, nat, vals):
        n = self.case["n"]
        t = _parse(nat.call("sorted_from_db", *[vals["b%d" % i] for i in range(22 + n)]))
        if t is None:
            return {"panic": True}
        r = {"panic": False, "q0": t[0], "q1": t[1], "len": t[2]}
        for i in range(n):
            r["c%d" % i] = t[3 + i] if len(t) > 3 + i else -1
        return r

    def post(self, inp, res):
        d = {k: lit(v) for k, v in inp.items()}
        r = {k: lit(v) for k, v in res.items()}
        n = self.case["n"]
        return [("the sort prefix is the key's first two bytes, in order", z3.And(r["q0"] == d["b0"], r["q1"] == d["b1"])),
                ("the payload is everything after the 20-byte hash prefix",
                 z3.And([r["len"] == n] + [r["c%d" % i] == d["b%d" % (22 + i)] for i in range(n)]))]

    def covers(self, inp, res):
        d = {k: lit(v) for k, v in inp.items()}
        return [("prefix bytes differ", d["b0"] != d["b1"])]

    def vectors(self, rng):
        out = []
        for _ in range(10):
            n = rng.choice([0, 3])
            v = {"n": n}
            v.update({"b%d" % i: rng.randrange(256) for i in range(22 + n)})
            out.append(v)
        return out


JOBS.setdefault("C16", [])
JOBS["C16"] += [SortedToDb(), SortedFromDb()]
