"""Per-property specification: which obligations decide it, with bounds, stubs and what lies outside."""


def H(name, what, timeout=900, tiers=("quick", "thorough"), **kw):
    d = dict(name=name, what=what, timeout=timeout, tiers=tiers)
    d.update(kw)
    return d


PROPS = {}

PROPS["C07"] = dict(
    title="An intent can be committed at most once before it expires",
    functions=[
        "radix_engine::blueprints::transaction_tracker::TransactionTrackerSubstateV1::partition_for_expiry_epoch",
        "radix_engine::blueprints::transaction_tracker::TransactionTrackerSubstateV1::advance",
        "radix_engine::system::system_callback::System::validate_epoch_range (via verif shim)",
        "radix_engine::transaction::Nullification::of_intent / transaction_tracker_keys",
        "radix_transactions::validation::TransactionValidationConfig::latest (max_epoch_range)",
    ],
    bounds="start_epoch any u64 < 2^63, start_partition any u8 in the ring, every u64 expiry / current / next "
           "epoch; one inductive ring step from an arbitrary state (covers epoch histories of any length); no loops "
           "(no unwinding bound needed)",
    outside="that the status substate is really written to / read from the partition computed here (Track, SBOR, "
            "database), the executor's control flow around update_transaction_tracker; tracker lag >= 10460 epochs",
    assumptions=[
        "tracker parameters are the crate constants PARTITION_RANGE_START/END and EPOCHS_PER_PARTITION (as created by "
        "TransactionTrackerBlueprint::create)",
        "start_epoch < 2^63 (no u64 wrap in start_epoch + 19100)",
        "advance() is invoked only under the guard next_epoch >= start_epoch + epochs_per_partition, as in "
        "update_transaction_tracker (guard re-stated in the harness)",
        "epochs are non-decreasing over a history; tracker start_epoch <= current epoch and lags it by < 10460 epochs",
    ],
    trusted_base=["Kani 0.68 / CBMC 6.11 (cadical)", "rustc MIR->goto translation of Kani"],
    kani=[
        H("c07::c07_ring_step_preserves_live_records",
          "one advance() from an arbitrary ring state: a stored record is expired for every later epoch or is still "
          "found in the same partition, which is not the discarded one", timeout=900),
        H("c07::c07_ring_no_aliasing",
          "coverage is exactly [start, start+19100) and two covered epochs share a partition iff same 100-epoch bucket",
          timeout=600),
        H("c07::c07_tracker_covers_every_valid_intent",
          "validate_epoch_range accepts exactly start<=current<end; accepted intents within max_epoch_range always "
          "have a partition (the executor's expect cannot fire)", timeout=900),
        H("c07::c07_nullification_policy",
          "transaction intents are nullified on success and failure, subintents only on success, with their own "
          "expiry epoch and hash", timeout=600),
    ],
)

KANI_TB = ["Kani 0.68 / CBMC 6.11 (cadical)", "rustc MIR->goto translation of Kani"]

PROPS["C16"] = dict(
    title="Database key mapping is reversible and preserves sorted-index order",
    functions=[
        "radix_substate_store_interface::db_key_mapper::SpreadPrefixKeyMapper::{to_db_partition_key, "
        "from_db_partition_key, to_db_node_key, from_db_node_key, to_db_sort_key, from_db_sort_key, "
        "field_to/from_db_sort_key, map_to/from_db_sort_key, sorted_to/from_db_sort_key, to_hash_prefixed, "
        "from_hash_prefixed}",
    ],
    bounds="node id: all 30 bytes symbolic; partition number: any u8; field key: any u8; map keys: every content "
           "for lengths 0,1,2,4; sorted keys: every 2-byte prefix, payload lengths (0,3),(3,1),(2,2) with every "
           "content; loops unwound to 32 (node-id comparison) / 7 with unwinding assertions",
    outside="map/sorted key payloads longer than 4 bytes (the code path is length-generic: concat + slice at "
            "constant offset 20/22, but longer lengths are not explored); ordering among sorted keys with equal "
            "prefix (depends on the hash)",
    assumptions=[
        "radix_common::crypto::hash::hash is replaced by a stub returning an arbitrary 32-byte value on each call "
        "(kani::stub): verdicts hold for every hash function",
        "Vec lengths are concrete per harness (symbolic-length allocation exhausted memory under CBMC)",
    ],
    trusted_base=KANI_TB,
    kani=[
        H("c16::c16_partition_key_roundtrip", "node id + partition number: decode(encode(x)) = x, plain id is a "
          "suffix of the db key (injective)", stubbing=True, expect_stub="nondet_hash", timeout=600),
        H("c16::c16_field_key_roundtrip", "field key identity through SubstateKey-level entry points",
          stubbing=True, expect_stub="nondet_hash", timeout=600),
        H("c16::c16_map_key_roundtrip_len0", "map key len 0 round trip", stubbing=True, expect_stub="nondet_hash",
          timeout=600),
        H("c16::c16_map_key_roundtrip_len1", "map key len 1 round trip", stubbing=True, expect_stub="nondet_hash",
          timeout=600),
        H("c16::c16_map_key_roundtrip_len2", "map key len 2 round trip", stubbing=True, expect_stub="nondet_hash",
          timeout=600, tiers=("thorough",)),
        H("c16::c16_map_key_roundtrip_len4", "map key len 4 round trip", stubbing=True, expect_stub="nondet_hash",
          timeout=600),
        H("c16::c16_sorted_key_len0_len3", "sorted keys: round trip; db order of different prefixes = prefix order",
          stubbing=True, expect_stub="nondet_hash", timeout=900),
        H("c16::c16_sorted_key_len3_len1", "sorted keys (payload 3 vs 1)", stubbing=True,
          expect_stub="nondet_hash", timeout=900),
        H("c16::c16_sorted_key_len2_len2", "sorted keys (payload 2 vs 2)", stubbing=True,
          expect_stub="nondet_hash", timeout=900, tiers=("thorough",)),
    ],
)

PROPS["C13"] = dict(
    title="Substate locks are exclusive for writers",
    functions=["radix_engine::kernel::substate_locks::SubstateLockState::{no_lock, is_locked, try_lock, unlock} "
               "(via verif shims)"],
    bounds="one step from every state Read(n), n any usize < usize::MAX, or Write, with either request kind; plus "
           "every sequence of 6 operations (read-lock / write-lock / unlock) from no_lock against a counter model",
    outside="the SubstateLocks maps (locks, substate_lock_states, node_num_locked): handle lifetime and "
            "node_is_locked are NOT decided (IndexMap/HashMap-backed state does not finish under CBMC); sequences "
            "longer than 6 are covered only through the one-step refinement",
    assumptions=["unlock is only called for a live handle (as SubstateLocks::unlock does: it looks the handle up "
                 "first)", "fewer than usize::MAX simultaneous readers"],
    trusted_base=KANI_TB,
    kani=[
        H("c13::c13_lock_state_step", "one-step refinement of the readers/writer automaton from an arbitrary state",
          timeout=600),
        H("c13::c13_lock_state_sequences", "6 symbolic operations from no_lock vs counter model; exclusion "
          "invariant after every step", timeout=600),
    ],
)

PROPS["C14"] = dict(
    title="A database overlay behaves like the database with the commits applied",
    functions=["radix_rust::iterators::OverlayingIterator::{new, next} (the merge used by "
               "SubstateDatabaseOverlay listings)"],
    bounds="every strictly sorted underlying sequence of <= NU entries and every strictly sorted overlay of <= NO "
           "entries (upsert or delete) over a 6-key universe, arbitrary u8 payloads; (NU,NO) = (3,3) quick, plus "
           "(2,4), (4,2) thorough; unwind 8 with unwinding assertions",
    outside="SubstateDatabaseOverlay::{get_raw_substate_by_db_key, list_raw_values_from_db_key cursor handling, "
            "merge_database_updates, commit} over BTreeMap-backed state; partition resets",
    assumptions=["both inputs are sorted by key without duplicates (BTreeMap iteration order)"],
    trusted_base=KANI_TB,
    kani=[
        H("c14::c14_overlaying_iterator_3x3", "merge listing equals reference overlay lookup in key order (3+3)",
          timeout=2400),
        H("c14::c14_overlaying_iterator_2x4", "merge listing equals reference (2 underlying, 4 overlay)",
          timeout=2400, tiers=("thorough",)),
        H("c14::c14_overlaying_iterator_4x2", "merge listing equals reference (4 underlying, 2 overlay)",
          timeout=2400, tiers=("thorough",)),
    ],
)

PROPS["C03"] = dict(
    title="Every committed transaction conserves resources",
    functions=["radix_engine_interface::blueprints::resource::LiquidFungibleResource::{new, amount, is_empty, put, "
               "take_by_amount, take_all}", "radix_common::math::Decimal::{checked_add, checked_sub, cmp, is_zero}"],
    bounds="every pair of non-negative 192-bit Decimal values (balance, argument): full width, no loops",
    outside="non-fungible id sets (IndexSet), total-supply bookkeeping in the resource managers, "
            "reconcile_resource_state_and_events, and that every engine path moves value only through these "
            "containers: the end-to-end conservation statement is NOT decided, only its container kernel",
    assumptions=["amounts are non-negative (callers validate with check_fungible_amount before reaching the "
                 "container)"],
    trusted_base=KANI_TB + ["3x64-bit limb reference arithmetic written in the harness (dec.rs)"],
    kani=[
        H("c03::c03_take_by_amount_conserves", "take: before = after + taken exactly, or InsufficientBalance iff "
          "balance < request and container unchanged", timeout=900),
        H("c03::c03_put_conserves", "put: amount is the exact sum; taking it back restores the container",
          timeout=900),
        H("c03::c03_put_panics_only_on_overflow", "checked_add is None exactly when the exact sum leaves I192",
          timeout=600),
        H("c03::c03_take_all", "take_all returns the whole balance and leaves zero; is_empty <=> zero", timeout=600),
    ],
)

MIR_TB = ["rustc nightly MIR dump (--emit=mir) of /repo's crate", "lib/mirsmt symbolic executor (validated every "
          "run by the concrete-mode self-test against the natively compiled function)",
          "library model table lib/mirsmt/models.py: exact integer semantics of bnum/core primitives "
          "(checked_*/wrapping/cmp/casts/leading_zeros/pow)", "z3 4.x (QF_NIA / LIA over mathematical integers with "
          "explicit range constraints)"]

PROPS["C24"] = dict(
    title="Decimal arithmetic is exact or reports overflow",
    functions=[
        "radix_common::math::Decimal::{checked_add, checked_sub, checked_neg, checked_abs, cmp/eq, is_zero, "
        "is_negative, is_positive} (Kani, vs 3x64-bit limb reference)",
        "radix_common::math::Decimal::{checked_mul, checked_div} and PreciseDecimal::{checked_mul, checked_div} "
        "(MIR->SMT), including the repo's I192/I256/I320/I512 wrappers: From/TryFrom between widths, "
        "checked_mul/checked_div/mul/sub wrappers, leading_zeros, constants ONE/ZERO/MIN",
    ],
    bounds="every pair of 192-bit (Decimal) resp. 256-bit (PreciseDecimal) values: full width, no loops; bnum "
           "primitives at the bottom are interpreted by the library model table",
    outside="saturating_*/operator impls that expect() on the checked result; Decimal x primitive-integer impls; "
            "the correctness of bnum's own limb arithmetic for mul/div (trusted via the model table, cross-checked "
            "by the per-run self-test vectors); Display/FromStr",
    assumptions=["bnum BInt<N>::checked_{add,sub,mul,div}, cmp, leading_zeros, CastFrom behave as exact integer "
                 "operations with overflow = None (library model table)"],
    trusted_base=KANI_TB + MIR_TB,
    kani=[
        H("c24::c24_decimal_checked_add_sub_full_width", "checked_add/checked_sub agree with the limb reference on "
          "every pair of 192-bit values, including the None cases", timeout=900),
        H("c24::c24_decimal_neg_abs_cmp_full_width", "checked_neg/checked_abs/ordering/sign predicates agree with "
          "the limb reference on every pair of 192-bit values", timeout=900),
    ],
    mir=True,
)

PROPS["C25"] = dict(
    title="Rounding follows the declared rounding modes",
    functions=["radix_common::math::Decimal::checked_round", "radix_common::math::PreciseDecimal::checked_round",
               "radix_common::math::rounding_mode::ResolvedRoundingStrategy::{from_mode, from_midpoint_ordering, "
               "towards_zero, away_from_zero}", "the I192/I256 wrappers they call (pow, %, +, -, <<, >>, cmp, "
               "checked_add, checked_sub)"],
    bounds="every 192-bit (256-bit) value and every rounding mode symbolically; decimal places enumerated: Decimal "
           "0..=18 in both tiers, PreciseDecimal {0,1,17,18,35,36} quick and 0..=36 thorough",
    outside="checked_floor/checked_ceiling/for_withdrawal/check_fungible_amount wrappers (they only pick dp and mode); "
            "the two assert!s on decimal_places (dp outside [0, SCALE] panics by contract)",
    assumptions=["bnum primitives as in the library model table"],
    trusted_base=MIR_TB,
    mir=True,
)

PROPS["C29"] = dict(
    title="Calendar time conversions are correct and invertible",
    functions=["radix_common::time::UtcDateTime::{from_instant, to_instant, is_leap_year, "
               "num_leap_years_up_to_exclusive}", "radix_common::time::Instant::new"],
    bounds="from_instant: every i64; to_instant: every valid field tuple with year any u32 >= 1; month loops "
           "unrolled to 16 with an unwinding obligation (needs <= 12)",
    outside="add_days/hours/minutes/seconds (compositions of the two conversions with Instant::add_*); Display; "
            "FromStr is covered by the separate Kani window harness only within its stated byte window",
    assumptions=["the reference (days-from-civil, era / year-of-era / March-based day-of-year) is the proleptic "
                 "Gregorian calendar; round-trip and strict monotonicity follow from agreement with this reference, "
                 "which is a bijection between valid field tuples and seconds"],
    trusted_base=MIR_TB,
    mir=True,
)

PROPS["C14"]["bounds"] = ("every strictly sorted underlying sequence of <= NU entries and every strictly sorted "
                          "overlay of <= NO entries (upsert or delete) over a 6-key universe, arbitrary u8 payloads; "
                          "(NU,NO) = (2,2),(3,2) quick, plus (3,3),(2,4),(4,2) thorough; unwind 8 with unwinding "
                          "assertions")
PROPS["C14"]["kani"] = [
    H("c14::c14_overlaying_iterator_2x2", "merge listing equals reference overlay lookup in key order (2+2)",
      timeout=900),
    H("c14::c14_overlaying_iterator_3x2", "merge listing equals reference overlay lookup in key order (3+2)",
      timeout=1500),
    H("c14::c14_overlaying_iterator_3x3", "merge listing equals reference (3+3)", timeout=2400,
      tiers=("thorough",)),
    H("c14::c14_overlaying_iterator_2x4", "merge listing equals reference (2 underlying, 4 overlay)",
      timeout=2400, tiers=("thorough",)),
    H("c14::c14_overlaying_iterator_4x2", "merge listing equals reference (4 underlying, 2 overlay)",
      timeout=2400, tiers=("thorough",)),
]

PROPS["C12"] = dict(
    title="The transaction state cache reads back its own writes",
    functions=["radix_rust::iterators::OverlayingResultIterator::{new, next} (the fallible merge Track uses to list "
               "substates: tracked writes over database reads)"],
    bounds="every strictly sorted underlying sequence of <= NU Ok entries with an Err injected at any position (or "
           "none) and every strictly sorted overlay of <= NO entries (write or delete) over a 6-key universe; "
           "(NU,NO) = (2,2) quick, (3,3),(2,4) thorough; unwind 8 with unwinding assertions",
    outside="TrackedSubstateValue / TrackedSubstates read-after-write, take, revert and to_state_updates; "
            "MappedTrack::{scan_keys, drain_substates, scan_sorted_substates} over real maps and database "
            "(IndexMap-backed state does not finish under CBMC): only the listing merge component is decided",
    assumptions=["both inputs are sorted by key without duplicates (BTreeMap iteration order)"],
    trusted_base=KANI_TB,
    kani=[
        H("c14::c12_overlaying_result_iterator_2x2", "tracked writes win over database reads, deletes hide, order "
          "preserved, nothing is yielded after the first error (2+2)", timeout=3600),
        H("c14::c12_overlaying_result_iterator_3x3", "same, 3+3", timeout=3000, tiers=("thorough",)),
        H("c14::c12_overlaying_result_iterator_2x4", "same, 2+4", timeout=3000, tiers=("thorough",)),
    ],
)

PROPS["C20"] = dict(
    title="SBOR values round-trip and have a unique encoding",
    functions=["sbor::Encoder::write_size (VecEncoder)", "sbor::Decoder::read_size (VecDecoder)"],
    bounds="write->read: every usize; read->write: every byte string of length <= 5; loops unwound to 6 with "
           "unwinding assertions (the codec uses at most 4 bytes)",
    outside="the typed and generic Value codecs (strings, containers, enums, custom values): 6 symbolic bytes at "
            "depth 1 did not finish under CBMC (DESIGN section 4), so the property is decided ONLY for the "
            "codec's length prefix, which every container/string/bytes encoding goes through",
    assumptions=[],
    trusted_base=KANI_TB,
    kani=[
        H("c20::c20_size_roundtrip", "write_size accepts exactly sizes <= 0x0FFFFFFF and read_size returns the "
          "value consuming exactly the written bytes", timeout=600),
        H("c20::c20_size_canonical", "any accepted byte prefix re-encodes to itself (unique encoding), <= 4 bytes "
          "consumed, no panic", timeout=900),
    ],
)

PROPS["C29"]["functions"].append("<radix_common::time::UtcDateTime as FromStr>::from_str (Kani, byte-window bound)")
PROPS["C29"]["bounds"] += ("; from_str: the well-formed 20-byte template 2023-01-27T12:17:25Z with (a) the last seconds "
                           "digit replaced by every 2-byte UTF-8 scalar U+0080..U+07FF (21 bytes, 20 chars) and (b) "
                           "every ASCII byte at that position; unwind 24")
PROPS["C29"]["outside"] = PROPS["C29"]["outside"].replace(
    "FromStr is covered by the separate Kani window harness only within its stated byte window",
    "from_str on strings outside the stated one-position windows (arbitrary strings of even 4-5 symbolic bytes "
    "exhaust memory under CBMC)")
PROPS["C29"]["trusted_base"] = KANI_TB + MIR_TB
PROPS["C29"]["kani"] = [
    H("c29::c29_from_str_two_byte_char_window", "a 20-char / 21-byte input (one 2-byte UTF-8 scalar) is rejected "
      "with an error, never a panic", timeout=900),
    H("c29::c29_from_str_ascii_window", "every ASCII byte in the seconds field: accepted iff digit, exact fields, "
      "no panic", timeout=900),
]

# --- calibration outcome (round 2): harnesses that were never run to completion inside their cap are not part of
# any tier (a thorough run that times out would be "not decided", which is a broken check, not depth).
for _pid in ("C12", "C14"):
    PROPS[_pid]["kani"] = [h for h in PROPS[_pid]["kani"]
                           if h["name"] in ("c14::c14_overlaying_iterator_2x2", "c14::c14_overlaying_iterator_3x2",
                                            "c14::c14_overlaying_iterator_3x3",
                                            "c14::c12_overlaying_result_iterator_2x2")]
PROPS["C14"]["bounds"] = PROPS["C14"]["bounds"].replace("plus (3,3),(2,4),(4,2) thorough", "plus (3,3) thorough")
PROPS["C12"]["bounds"] = PROPS["C12"]["bounds"].replace("(NU,NO) = (2,2) quick, (3,3),(2,4) thorough",
                                                        "(NU,NO) = (2,2) in both tiers (larger sizes exist as "
                                                        "harnesses but were not calibrated)")

_c16_keep = {"c16::c16_partition_key_roundtrip": ("quick", "thorough"), "c16::c16_field_key_roundtrip": ("quick", "thorough"),
             "c16::c16_map_key_roundtrip_len0": ("quick", "thorough"), "c16::c16_map_key_roundtrip_len1": ("quick", "thorough"),
             "c16::c16_map_key_roundtrip_len2": ("thorough",), "c16::c16_map_key_roundtrip_len4": ("quick", "thorough"),
             "c16::c16_sorted_key_len0_len3": ("quick", "thorough")}
PROPS["C16"]["kani"] = [dict(h, tiers=_c16_keep[h["name"]]) for h in PROPS["C16"]["kani"] if h["name"] in _c16_keep]
PROPS["C16"]["bounds"] = ("node id: all 30 bytes symbolic; partition number: any u8; field key: any u8; map keys: every "
                          "content for lengths 0,1,4 (2 in thorough); sorted keys: every pair of 2-byte prefixes with "
                          "payload lengths (0,3), every content; loops unwound to 32 (node-id comparison) / 7 with "
                          "unwinding assertions")
PROPS["C16"]["outside"] += ("; sorted-key payload length pairs (3,1) and (2,2): harnesses exist but needed > 12 min / "
                            "7 GB under CBMC and are not part of any tier")

# c24_decimal_neg_abs_cmp_full_width did not finish inside 11 min on the loaded sandbox (never calibrated): it is not
# part of any tier; neg/abs/ordering are therefore outside the C24 claim (stated below).
PROPS["C24"]["kani"] = [h for h in PROPS["C24"]["kani"] if h["name"] == "c24::c24_decimal_checked_add_sub_full_width"]
PROPS["C24"]["functions"][0] = ("radix_common::math::Decimal::{checked_add, checked_sub} (Kani, vs 3x64-bit limb "
                                "reference)")
PROPS["C24"]["outside"] += ("; checked_neg/checked_abs/ordering (Kani harness exists, not calibrated); conversions "
                            "from primitive integers and Decimal<->PreciseDecimal")


# ---------------------------------------------------------------------------------------------------------------
# round 3: Engine-M jobs on radix-engine kernels (MIR of radix-engine + radix-common, native replay via verif_* shims)
MIR_TB_ENGINE = MIR_TB + ["IndexMap modelled as an insertion-ordered entry list of concrete length for the "
                          "into_iter().map(f).collect::<Result<IndexMap,_>>() pipeline (models.py)"]

PROPS["C41"] = dict(
    title="Liquidity pools stay solvent and fair",
    functions=["radix_engine::blueprints::pool::v1::v1_1::{OneResourcePoolBlueprint, TwoResourcePoolBlueprint, "
               "MultiResourcePoolBlueprint}::calculate_amount_owed (private; MIR executed directly, native replay "
               "through the verif_* shims) including the per-entry closures of the two/multi pools",
               "the radix-common code they call: PreciseDecimal::{from(Decimal), checked_div, checked_mul}, "
               "Decimal::try_from(PreciseDecimal), Decimal::checked_round, I192/I256/I512 wrappers"],
    bounds="every non-negative 192-bit pool-unit amount, total supply and reserve amount; divisibility enumerated "
           "(quick: a subset per pool, thorough: 0..=18); two/multi pools with a reserves map of 2 entries (3 in "
           "thorough for multi), every entry symbolic",
    outside="contribute (its ratio arithmetic sits inside SystemApi-driven code), protected_deposit/withdraw, the "
            "vault/bucket/resource-manager calls around calculate_amount_owed in redeem/get_redemption_value, v1_0 "
            "logic (superseded), reserves maps with more entries, divisibility > 18 (rejected by checked_round's "
            "assert; resources cannot have it)",
    assumptions=["amounts are non-negative (pool-unit bucket amounts, total supply and vault balances)",
                 "bnum primitives as in the library model table",
                 "IndexMap iteration = insertion order over distinct keys (entry-list model)"],
    trusted_base=MIR_TB_ENGINE,
    mir=True,
)

PROPS["C42"] = dict(
    title="Validator staking and emissions never create value",
    functions=["radix_engine::blueprints::consensus_manager::ValidatorBlueprint::calculate_stake_unit_amount",
               "radix_engine::blueprints::consensus_manager::create_sort_prefix_from_stake (incl. Decimal::checked_powi, "
               "checked_div, I192 -> u16 conversion from radix-common's MIR)"],
    bounds="every non-negative 192-bit XRD amount / total stake / stake-unit supply; every non-negative 192-bit stake "
           "for the sort prefix; checked_powi recursion unrolled for the concrete exponent 18",
    outside="calculate_redemption_value (reads the vault and the resource manager through SystemApi), unstake/claim "
            "bookkeeping, emission and reward distribution loops, validator-set selection in epoch_change: only the "
            "stake-unit pricing and the sort-key helper are decided",
    assumptions=["amounts are non-negative", "bnum primitives as in the library model table"],
    trusted_base=MIR_TB,
    mir=True,
)

PROPS["C44"] = dict(
    title="Consensus time and rounds only move forward",
    functions=["radix_engine::blueprints::consensus_manager::ConsensusManagerBlueprint::milli_to_minute"],
    bounds="every i64 millisecond timestamp",
    outside="check_non_decreasing_and_update_timestamps / next_round / epoch_change (SystemApi field I/O), round "
            "progress, compare_current_time: only the minute-rounding kernel is decided (exact trunc-division, "
            "hence monotone)",
    assumptions=[],
    trusted_base=MIR_TB,
    mir=True,
)


PROPS["C26"] = dict(
    title="Roots and powers are correctly truncated",
    functions=["radix_common::math::Decimal::{checked_sqrt, checked_cbrt, checked_nth_root, checked_powi}",
               "radix_common::math::PreciseDecimal::{checked_sqrt, checked_cbrt, checked_nth_root (degrees 0,1), "
               "checked_powi}", "the I192/I256/I320/I384/I512 wrappers they call"],
    bounds="every 192-bit / 256-bit value; root degree enumerated: sqrt, cbrt, nth_root for n in {0,1,2,3,4} (Decimal) "
           "and {0,1} (PreciseDecimal); exponent of checked_powi enumerated: Decimal {0,1,2,3,4,5,-1,-2}, "
           "PreciseDecimal {2,3,-1} (recursion unrolled for the concrete exponent)",
    outside="larger root degrees and exponents (the degree / exponent is a loop or recursion bound); the correctness "
            "of bnum's integer root algorithm itself (modelled as the floor root: the claim is about the repo's "
            "scaling, sign and range handling around it); for negative exponents only the zero-base failure is "
            "asserted",
    assumptions=["bnum BInt/BUint::{sqrt, cbrt, nth_root} return the floor root of a non-negative argument and "
                 "minus the floor root of the magnitude for a negative argument of odd degree (library model)",
                 "other bnum primitives as in the library model table"],
    trusted_base=MIR_TB,
    mir=True,
)

PROPS["C24"]["functions"] += [
    "radix_common::math::{Decimal, PreciseDecimal}::{checked_add, checked_sub, checked_neg, checked_abs} (MIR->SMT)",
    "PreciseDecimal::from(Decimal), Decimal::try_from(PreciseDecimal), PreciseDecimal::checked_truncate (all 7 modes), "
    "Decimal::from({i64,u64,i128,u128}), PreciseDecimal::from({i128,u128}), {i64,u64,i128,u8}::try_from(Decimal) "
    "(MIR->SMT; one job per concrete instantiation of the macro-generated impls)"]
PROPS["C24"]["outside"] = ("saturating_*/operator impls that expect() on the checked result; Decimal x primitive-integer "
                           "arithmetic impls; From/TryFrom for the remaining primitive widths (same macro bodies as the "
                           "instantiations checked); ordering; the correctness of bnum's own limb arithmetic (trusted "
                           "via the model table, cross-checked by the per-run self-test vectors and, for add/sub, by the "
                           "Kani harness against a limb-level reference); Display/FromStr")
PROPS["C25"]["functions"] += ["{Decimal, PreciseDecimal}::{checked_floor, checked_ceiling}"]
PROPS["C25"]["outside"] = ("for_withdrawal / check_fungible_amount wrappers in radix-engine-interface (they only pick dp "
                           "and mode); the two assert!s on decimal_places (dp outside [0, SCALE] panics by contract)")
PROPS["C29"]["functions"] += ["radix_common::time::Instant::{add_days, add_hours, add_minutes, add_seconds}",
                              "radix_common::time::UtcDateTime::{add_days, add_hours, add_minutes, add_seconds} "
                              "(thorough tier; composition from MIR with to_instant/from_instant replaced by the "
                              "contract the other two jobs decide)"]
PROPS["C29"]["outside"] = PROPS["C29"]["outside"].replace(
    "add_days/hours/minutes/seconds (compositions of the two conversions with Instant::add_*); ", "")


PROPS["C27"] = dict(
    title="Decimal text parsing and printing are exact inverses",
    functions=["<radix_common::math::Decimal as FromStr>::from_str", "<radix_common::math::PreciseDecimal as FromStr>::"
               "from_str", "<I192 / I256 as FromStr>::from_str (repo wrapper around bnum's parser)",
               "I192/I256 checked_mul / checked_add / checked_sub / pow / is_negative wrappers"],
    bounds="every ASCII string (each byte 0..=127 symbolic) of length 0..=5 (Decimal, quick; 0..=7 thorough) and "
           "0..=5 (PreciseDecimal, quick; 0..=7 thorough); the split on '.' forks on every placement of the dots",
    outside="longer strings (hence range overflow and more than 7 digits), non-ASCII text, Display and therefore the "
            "print -> parse round trip (core::fmt is not modelled)",
    assumptions=["bnum's BInt::from_str_radix(_, 10) as in the library model (read from bnum 0.11 src/bint/radix.rs; "
                 "validated on every run by the self-test strings against the native function): optional leading '+' "
                 "or '-', then only digits; empty -> Empty, lone sign -> InvalidDigit",
                 "str::split / collect / len / starts_with / Vec index as in the string model (concrete length, symbolic "
                 "bytes)"],
    trusted_base=MIR_TB,
    mir=True,
)


PROPS["C13"]["functions"].append(
    "radix_engine::kernel::substate_locks::SubstateLocks::{lock, unlock, new_lock_handle} and the SubstateLockState "
    "methods they call (MIR->SMT, maps as bounded symbolic slot arrays)")
PROPS["C13"]["bounds"] += ("; Engine M: ONE lock / unlock step from an arbitrary SubstateLocks state with <= 3 open "
                           "handles, <= 3 substate lock-state entries and <= 2 node counters (all keys, ids and counts "
                           "symbolic) that satisfies the representation invariant; the invariant is re-established, "
                           "so histories of any length within those capacities are covered")
PROPS["C13"]["outside"] = ("states with more simultaneously open handles / tracked substates / nodes than the slot "
                           "capacities; the iteration order of the handle table (swap_remove); is_locked / "
                           "node_is_locked / get are read only through the invariant they observe; the kernel code "
                           "that calls SubstateLocks (substate_io.rs)")
PROPS["C13"]["assumptions"] += ["hash / index maps behave as dictionaries (library model: bounded slot arrays with "
                                "distinct present keys; entry().or_insert, get, get_mut, insert, swap_remove)",
                                "NodeId / SubstateKey are used only through Copy/Clone and equality (opaque values)"]
PROPS["C13"]["trusted_base"] = KANI_TB + MIR_TB
PROPS["C13"]["mir"] = True


PROPS["C06"] = dict(
    title="Fees are fully paid and exactly distributed",
    functions=["radix_engine::system::system_modules::costing::SystemLoanFeeReserve::{new, consume_execution_internal, "
               "consume_finalization_internal, check_execution_cost_unit_limit, check_finalization_cost_unit_limit, "
               "finalize}", "radix_transactions::model::TipSpecifier::{proportion, fee_multiplier} (from "
               "radix-transactions' MIR)", "the Decimal code they call (from radix-common's MIR)"],
    bounds="every costing parameter set with non-negative prices <= 10^12 XRD per unit and any u32 limits / loan, every "
           "tip specifier (none, any u16 percentage, any u32 basis points), free credit <= 10^27 XRD; consume: one "
           "step from an ARBITRARY reserve state (any balance, any committed units); finalize: every state whose "
           "effective prices are the ones new() derives",
    outside="repay_all / consume_royalty / consume_storage / lock_fee (IndexMap- and Vec-backed bookkeeping), the "
            "distribution shares of FeeReserveFinalizationSummary, royalty vault crediting, refunds and the vault "
            "payments in finalize_fees_for_commit (Track writes), loan repayment ordering across a real execution",
    assumptions=["costing parameters are non-negative (asserted by new())",
                 "bnum primitives as in the library model table"],
    trusted_base=MIR_TB,
    mir=True,
)


PROPS["C14"]["functions"].append(
    "radix_substate_store_impls::substate_database_overlay::merge_database_updates and the From conversions between "
    "DatabaseUpdates and the staging types (MIR->SMT; BTreeMaps as bounded symbolic slot arrays, the incoming IndexMaps "
    "as entry lists)")
PROPS["C14"]["bounds"] += ("; Engine M: ONE commit merged into an arbitrary staged state of <= 2 nodes x <= 2 "
                           "partitions (Delta or Reset) x <= 1 entry each (capacity 3, two slots kept free for the "
                           "commit), the commit touching one partition (Delta or Reset, symbolic) with 2 entries; "
                           "every key and value symbolic; the verdict is compared at an arbitrary (node, partition, "
                           "sort key)")
PROPS["C14"]["outside"] = ("SubstateDatabaseOverlay::{get_raw_substate_by_db_key, list_raw_values_from_db_key} (the "
                           "reads combine the staged state with the root through OverlayingIterator, whose merge is the "
                           "Kani part of this claim) and commit_overlay_into_root_store; commits touching several "
                           "partitions or nodes at once; staged partitions with more entries than the slot capacity")
PROPS["C14"]["assumptions"] += ["BTreeMap behaves as a dictionary (slot-array model); IndexMap iteration = insertion "
                                "order over distinct keys (entry-list model)"]
PROPS["C14"]["trusted_base"] = KANI_TB + MIR_TB
PROPS["C14"]["mir"] = True


PROPS["C03"]["functions"].append(
    "radix_engine_interface::blueprints::resource::LiquidNonFungibleResource::{take_by_ids, put, take_all} (MIR->SMT; "
    "the container's IndexSet as a bounded symbolic slot array, the argument set as an entry list)")
PROPS["C03"]["bounds"] += ("; non-fungible container: any content of <= 4 ids (symbolic), requests of 0..3 distinct "
                           "symbolic ids (put: 0..2); membership compared for an arbitrary probe id")
PROPS["C03"]["outside"] = ("take_by_amount (depends on the set's iteration order), larger id sets, total-supply "
                           "bookkeeping in the resource managers, reconcile_resource_state_and_events, and that every "
                           "engine path moves value only through these containers: the end-to-end conservation "
                           "statement is NOT decided, only its container kernels")
PROPS["C03"]["assumptions"] += ["IndexSet behaves as a set (slot-array model: swap_remove / extend / clear; iteration "
                                "order not modelled)"]
PROPS["C03"]["trusted_base"] = KANI_TB + MIR_TB
PROPS["C03"]["mir"] = True


PROPS["C47"] = dict(
    title="Host memory access from WASM is always bounds-checked",
    functions=["radix_engine::vm::wasm::wasmi::{read_memory, write_memory} (private, generic over the wasmi store; MIR "
               "executed directly, native replay through the verif_read_memory / verif_write_memory shims on a real "
               "wasmi Memory)"],
    bounds="every linear memory size of 0..=65536 pages of 64 KiB, every u32 pointer, every u32 length (read) / data "
           "length below 2^33 (write); 64-bit usize",
    outside="the host functions that call them (consume_buffer, read_slice, buffer bookkeeping in scrypto_runtime.rs), "
            "the bytes themselves (slices carry only their length), 32-bit hosts (ptr + len is computed in usize), "
            "wasmi's own implementation of Memory::data / Memory::write",
    assumptions=["wasmi::Memory::data returns the whole linear memory (length = pages * 65536)",
                 "wasmi::Memory::write returns Err exactly when offset + len exceeds the memory size and never panics",
                 "indexing a slice with a range panics exactly when start > end or end > len"],
    trusted_base=MIR_TB,
    mir=True,
)


PROPS["C37"] = dict(
    title="Resource assertions accept exactly the balances they describe",
    functions=["radix_common::data::manifest::model::ManifestResourceConstraint::{validate_fungible, "
               "is_valid_for_fungible_use, validate_non_fungible}", "GeneralResourceConstraint::{validate_fungible, "
               "validate_amount, is_valid_for_fungible_use, is_valid_independent_of_resource_type}", "LowerBound / "
               "UpperBound::{validate_amount, is_valid_for_fungible_use, equivalent_decimal}", "AllowedIds::"
               "is_valid_for_fungible_use"],
    bounds="fungible: every constraint form, every 192-bit amount / bound value, every non-negative balance; "
           "non-fungible: the five non-general forms with constraint sets of <= 2 and balance sets of <= 3 distinct "
           "symbolic ids",
    outside="GeneralResourceConstraint on non-fungible balances (required ids + allow-list), normalize, the "
            "AggregateResourceBalances / ManifestResourceConstraints collections, the worktop's use of these "
            "validators, larger id sets",
    assumptions=["balances are non-negative", "IndexSet behaves as a set (entry-list model: len, is_empty, difference, "
                 "is_subset)"],
    trusted_base=MIR_TB,
    mir=True,
)


PROPS["C34"] = dict(
    title="Transaction validation enforces exactly the configured limits",
    functions=["radix_transactions::validation::TransactionValidator::{validate_header_v1, "
               "validate_transaction_header_v2, validate_intent_header_v2}",
               "radix_transactions::validation::AcrossIntentAggregation::update_headers", "radix_common::types::Epoch::after"],
    bounds="every header field value (u8 network, u64 epochs, u16 / u32 tips, optional i64 timestamps), every value of "
           "the configuration fields involved (required network or none, min/max tip percentage and basis points, "
           "max_epoch_range), an arbitrary non-empty running aggregation window",
    outside="message / instruction / blob / reference / signature counts and the subintent tree (they need prepared "
            "transactions and hash-keyed maps), record_reference_count / finalize, the preparation settings",
    assumptions=["the aggregation holds non-empty windows before the step (what update_headers maintains)"],
    trusted_base=MIR_TB,
    mir=True,
)


PROPS["C49"] = dict(
    title="Execution limits are enforced exactly",
    functions=["radix_engine::system::system_modules::limits::LimitsModule::{process_io_access, process_substate_key}"],
    bounds="process_io_access: one step from arbitrary heap / track totals (<= 2^40 bytes), every IOAccess form with any "
           "old / new size and key length 32..=2000, every pair of configured maxima; process_substate_key: field / map / "
           "sorted keys of any length, any max_substate_key_size",
    outside="call depth, invoke payload, event / log / panic-message limits (they go through the module API of a running "
            "kernel), process_substate_value (IndexedScryptoValue), the costing module's cost unit limits (decided under "
            "C06), and that the track / heap report every size change to the module",
    assumptions=["an update or removal names an entry that is part of the running total (so the subtraction cannot "
                 "underflow)", "CanonicalSubstateKey::len is an arbitrary value in 32..=2000 (environment stub)"],
    trusted_base=MIR_TB,
    mir=True,
)


PROPS["C12"]["functions"].append(
    "radix_engine::track::state_updates::TrackedSubstateValue::{get, set, take, revert_writes, into_value}, "
    "Write::into_value (MIR->SMT, one step from every state of the per-substate read/write state machine)")
PROPS["C12"]["bounds"] += ("; Engine M: one get / set / take / revert_writes step from every TrackedSubstateValue state "
                           "(all six variants, both read and write sub-states, opaque symbolic values)")
PROPS["C12"]["outside"] = ("MappedTrack::{get / set / remove substate plumbing, scan_keys, drain_substates, "
                           "scan_sorted_substates} over real maps and database and TrackedSubstates::to_state_updates "
                           "(map- and iterator-heavy): only the listing merge component and the per-substate state "
                           "machine are decided")
PROPS["C12"]["trusted_base"] = KANI_TB + MIR_TB
PROPS["C12"]["mir"] = True


PROPS["C40"] = dict(
    title="Access controller changes need two roles or an elapsed timer",
    functions=["every Transition / TransitionMut implementation of AccessControllerV2Substate in radix-engine/src/"
               "blueprints/access_controller/v2/state_machine.rs (17 transitions) and validate_recovery_proposal, "
               "radix_common::time::Instant::add_minutes"],
    bounds="one transition from EVERY state tuple (primary locking, both recovery attempts with arbitrary proposals, both "
           "badge-withdraw attempts, arbitrary timer instant), every input proposal, every clock value / clock comparison "
           "answer, every configured delay (none or any u32 minutes)",
    outside="which role may call which method (the roles_template / role assignment module), the rule replacement performed "
            "after a confirmed recovery, the V1 state machine, the vault / proof objects themselves (the vault component "
            "is a stub that always succeeds), the structure of a RecoveryProposal (compared as an opaque value)",
    assumptions=["Runtime::current_time returns an arbitrary instant and Runtime::compare_against_current_time an arbitrary "
                 "boolean (environment stubs; natively a scripted MockApi answers the same calls)",
                 "RecoveryProposal equality is value equality (opaque id)"],
    trusted_base=MIR_TB,
    mir=True,
)


PROPS["C44"]["functions"].append(
    "ConsensusManagerBlueprint::check_non_decreasing_and_update_timestamps (the actor's field store -- actor_open_field, "
    "field_read_typed, field_write_typed, field_close and the versioned payload wrappers -- is an environment stub holding "
    "the two timestamp substates; native replay through a scripted MockApi with a real SBOR field store)")
PROPS["C44"]["bounds"] = ("every i64 millisecond timestamp; for the update: every stored millisecond (i64) and minute (i32) "
                          "value and every proposed time")
PROPS["C44"]["outside"] = ("next_round / epoch_change (round and epoch counters, leader proposal history, validator "
                           "statistics: key-value and index collections through the system API), get_current_time / "
                           "compare_current_time readers")
PROPS["C44"]["assumptions"] = ["the field store returns what was last written (environment stub)"]


PROPS["C42"]["functions"].append(
    "ValidatorBlueprint::calculate_redemption_value (vault amount and stake-unit supply reads are environment stubs; "
    "native replay through a scripted MockApi) and its composition with calculate_stake_unit_amount (stake then redeem on "
    "the grown pool)")
PROPS["C42"]["bounds"] += "; redemption / round trip: amounts up to 10^30 XRD (10^48 attos)"
PROPS["C42"]["outside"] = ("the unstake / claim bookkeeping around calculate_redemption_value (claim NFTs, pending withdraw "
                           "vault), owner stake-unit locking, emission and reward distribution loops, validator-set selection "
                           "in epoch_change")
PROPS["C42"]["assumptions"] += ["Vault::amount / ResourceManager::total_supply return arbitrary non-negative Decimals "
                                "(environment stubs); in the round trip they return stake + xrd and supply + minted units"]


PROPS["C10"] = dict(
    title="Funds behind a live proof cannot be withdrawn",
    functions=["radix_engine::blueprints::resource::FungibleVaultBlueprint::{lock_amount, unlock_amount, internal_take, "
               "internal_put}", "radix_engine_interface::blueprints::resource::{LockedFungibleResource::amount, "
               "LiquidFungibleResource::{take_by_amount, put}}"],
    bounds="one lock / unlock step from an arbitrary vault state: any liquid balance <= 10^22 XRD, <= 3 (lock: <= 2) "
           "distinct locked amounts with any counts 1..=1000, any requested amount; counts compared for an arbitrary probe "
           "amount",
    outside="non-fungible vaults and buckets (id sets), the proof objects themselves (proof_common.rs: cloning / dropping "
            "calls unlock), take / take_advanced / recall / burn (they operate on the liquid balance only, which is what "
            "makes locked funds unreachable), divisibility checks, more than 3 simultaneously locked distinct amounts",
    assumptions=["the actor's field store returns what was last written (environment stub; natively a MockApi with a real "
                 "SBOR field store)", "IndexMap behaves as a dictionary (slot-array model, keys() in slot order)"],
    trusted_base=MIR_TB,
    mir=True,
)


PROPS["C28"] = dict(
    title="Addresses and identifiers have lossless, network-bound text forms",
    functions=["<radix_common::data::scrypto::model::NonFungibleLocalId as FromStr>::from_str (all four forms) with "
               "is_canonically_formatted_integer, StringNonFungibleLocalId::{new, validate_slice}, "
               "BytesNonFungibleLocalId::{new, validate}, NonFungibleLocalId::{string, bytes, try_from(Vec<u8>)}",
               "radix_common::address::AddressBech32Decoder::{validate_and_decode, validate_and_decode_ignore_hrp}, "
               "AddressBech32Encoder::encode_to_fmt, HrpSet::get_entity_hrp, EntityType::from_repr"],
    bounds="local ids: every ASCII text of length 0..=6 (quick) / 0..=8 (thorough) for the integer / unknown forms; for the "
           "'<', '[' and '{' forms lengths 1..=6 (8 thorough; strings 1..=6) plus the boundary lengths 66/67 (string of 64 / 65 "
           "characters, all but the last two lower-case), 130/132 (64 / 65 bytes) and 68/69/70 (RUID body of 66 / 67 / 68 "
           "characters, every byte symbolic). Addresses: every outcome of the bech32 layer x every HRP of the network / "
           "another network / unrelated x Bech32 or Bech32m x payload of 0, 1 or 30 bytes with any first byte",
    outside="the bech32 crate itself (checksum polymod, character set, 5-bit regrouping) and hex::decode are environment "
            "stubs (documented contracts); Display / to_string and the binary (SBOR) forms, NonFungibleGlobalId text, "
            "typed-address wrappers (try_from_bech32 length and entity-type checks per address type), non-ASCII text",
    assumptions=["core's str::parse::<u64> as in the library model (optional '+', digits; validated every run by the "
                 "self-test strings)", "string model: concrete length, symbolic ASCII bytes",
                 "hex::decode succeeds exactly on an even number of hex digits (both cases) and yields half as many bytes; "
                 "bech32::decode / from_base32 / the Bech32 writer succeed or fail arbitrarily and carry HRP, variant and "
                 "payload through unchanged"],
    trusted_base=MIR_TB,
    mir=True,
)

PROPS["C08"] = dict(
    title="Protected calls succeed exactly when the access rule is satisfied",
    functions=["radix_engine::system::system_modules::auth::Authorization::{check_authorization_against_access_rule, "
               "verify_auth_rule, verify_proof_rule}",
               "Authorization::{auth_zone_stack_matches_rule, auth_zone_stack_has_amount, auth_zone_stack_matches, "
               "global_auth_zone_matches, proof_matches} and AuthZone::local_implicit_non_fungible_proofs, "
               "GlobalCaller::is_actually_frame_owned"],
    bounds="(a) rule trees: AllowAll, DenyAll and every Protected rule tree of composite depth <= 1 (quick) / <= 2 "
           "(thorough) with lists of 2 entries, all five basic requirement forms over 3 non-fungible badges and 2 "
           "resources, any u8 count, any amount <= 10^12 XRD; every set of visible badges. (b) leaf predicates over the "
           "auth-zone stack: the actor's zone, a caller chain of <= 2 zones and a global-caller chain of <= 2 zones (3 "
           "topologies quick, all 9 thorough), <= 2 proofs per zone with any resource (of 2) / amount <= 10^12 XRD / id, "
           "one simulated resource and one implicit badge per zone, optional direct-caller package, global caller of "
           "either kind incl. the frame-owned marker",
    outside="(a) uses the leaf predicates as an environment stub and (b) decides them separately over the real traversal; "
            "the two are composed by assume-guarantee, not run as one query. Outside: zone chains longer than 2, more than "
            "2 proofs per zone, proofs with several ids, the owner-role fallback and role-key lookup in "
            "check_authorization_against_role_key_internal (key-value substates), rule trees that are wider or deeper, "
            "how auth zones are built (auth_module.rs)",
    assumptions=["(a) auth_zone_stack_matches_rule answers 'the badge is visible' and auth_zone_stack_has_amount answers "
                 "'a proof of that resource with at least the amount is present' -- the statements decided by (b)",
                 "(b) kernel substate reads answer from a symbolic table of AuthZone values; Proof::resource_address / "
                 "amount / non_fungible_local_ids answer from a symbolic table of proofs; the package-of-direct-caller and "
                 "global-caller badge ids (Blake2b of the address) are abstract injective functions of the caller; sets "
                 "created by the code have room for 3 elements (2 are ever inserted)"],
    trusted_base=MIR_TB,
    mir=True,
)



PROPS["C35"] = dict(
    title="Subintent structure validation accepts exactly well-formed trees",
    functions=["radix_transactions::validation::TransactionValidator::{validate_intents_and_structure, "
               "validate_intent_relationships}", "SubintentRelationshipDetails::default_for, IntentHash::is_for_subintent, "
               "AcrossIntentAggregation::{start, finalize}"],
    bounds="every intent tree with <= 3 non-root subintents and <= 3 (quick) / <= 4 (thorough) declared child references in "
           "total, distributed in every way over the root and the subintents (3-subintent shapes in the quick tier: those "
           "with exactly 3 references); hashes range over 5 values each (so duplicates, missing children, shared children, "
           "cycles and unreachable subintents all occur), max_subintent_depth 0..4, root = transaction intent or subintent, "
           "yield counts 0..3, each intent's own validation succeeding or failing",
    outside="trees with more than 3 non-root subintents or more than 4 child references; how the hashes and the yield "
            "summaries are computed (preparation, manifest interpretation); reference-count aggregation (part of C34)",
    assumptions=["the IntentTreeStructure / IntentStructure / HasSubintentHash methods answer from a symbolic table of "
                 "intents; validate_intent answers a yield summary whose child_yields has one entry per declared child (as "
                 "ManifestYieldSummary::new_with_children builds it)",
                 "no intent hash is the all-zero hash used as PLACEHOLDER_PARENT (hash preimage resistance)",
                 "IndexMap keeps insertion order when nothing is removed (slot order of the model)"],
    trusted_base=MIR_TB,
    mir=True,
)

PROPS["C39"] = dict(
    title="Account deposit rules are enforced exactly",
    functions=["radix_engine::blueprints::account::AccountBlueprintBottlenoseExtension::{try_deposit_or_refund, "
               "try_deposit_batch_or_refund}",
               "AccountBlueprint::{try_deposit_or_refund, try_deposit_batch_or_refund, try_deposit_or_abort, "
               "try_deposit_batch_or_abort, deposit_batch, is_deposit_allowed, validate_badge_is_authorized_depositor, "
               "validate_badge_is_present}"],
    bounds="single bucket: every combination of bucket resource (XRD / another fungible / a non-fungible), resource "
           "preference (none / allowed / disallowed), default rule (accept / reject / allow existing), vault present or "
           "not, named badge absent or present of either kind (3 ids), on the authorized-depositor list or not (an "
           "unrelated badge is always listed), proven or not. Batches: 1..2 buckets (3 in the thorough tier) of any of the "
           "3 resources with a preference and a vault flag PER resource and the same rule / badge situations",
    outside="batches of more than 3 buckets; deposit / get_vault themselves (vault creation and put are exercised natively "
            "only), withdrawals, the setters, how the badge proof is evaluated (C08), 'only that account's vaults change' "
            "(kernel-level), rejected-deposit events",
    assumptions=["get_resource_preference / get_default_deposit_rule / does_vault_exist answer the account's symbolic state; "
                 "the authorized-depositor entry read answers by the key it was opened with (abstract injective encoding of "
                 "the badge) in the authorized-depositor collection; AccountBlueprint::deposit, Runtime::assert_access_rule "
                 "and Runtime::emit_event are recorded effects; natively all of these are the real functions over the "
                 "MockApi key-value store, the state being built with the real setters"],
    trusted_base=MIR_TB,
    mir=True,
)

PROPS["C09"] = dict(
    title="Resources cannot vanish or be duplicated inside a transaction",
    functions=["radix_engine::blueprints::resource::WorktopBlueprint::{put, take, take_all, assert_contains, "
               "assert_contains_amount, drain} (via the verif dispatcher verif_worktop_invoke)"],
    bounds="one step of each operation from every worktop holding <= 2 buckets of distinct resources (of 3) with any "
           "amounts <= 10^12 XRD, any requested resource / amount, any incoming bucket",
    outside="ONLY the worktop clauses of the property are decided ('taking from the worktop never yields more than was put "
            "there', 'worktop assertions pass exactly when the worktop holds the asserted amounts', nothing is lost in a "
            "worktop step). Outside: take_non_fungibles / assert_contains_non_fungibles, the Cuttlefish "
            "assert_resources_* (C37 decides the constraint semantics), worktop drop, bucket and proof lifecycles, the "
            "transaction processor and the kernel's end-of-transaction checks",
    assumptions=["the actor's field store returns what was written; Bucket::{amount, put, take, drop_empty}, "
                 "ResourceManager::new_empty_bucket behave by their contracts over a symbolic amount per bucket (take fails "
                 "when asked for more than the bucket holds, drop_empty fails on a non-empty bucket)"],
    trusted_base=MIR_TB,
    mir=True,
)

PROPS["C41"]["functions"] += [
    "OneResourcePoolBlueprint::contribute (with_state, the four-state case analysis, mint arithmetic)",
    "TwoResourcePoolBlueprint::contribute: the arms with units in circulation (one-sided liquidity on either side; normal "
    "operation incl. the [required-1, required-2] candidate pipeline with filter_map / map / max_by), take_advanced rounding, "
    "deposits, change bucket"]
PROPS["C41"]["bounds"] += ("; contribute: every contribution, reserve and unit supply <= 10^12 units; one-resource pool: all "
                           "four pool states; two-resource pool: one run per arm, divisibilities (18,18) for the one-sided "
                           "arms (held), (0,18) [thorough also (18,0)] for the fairness of the normal arm "
                           "(KNOWN FINDING, see known_findings.txt), conservation of the contributed amounts (thorough)")
PROPS["C41"]["outside"] = ("the two-resource pool's new-pool arm (square roots), the fairness of its normal arm at "
                           "divisibility 18 (the solver does not decide the non-linear query within 200 s), the "
                           "multi-resource pool's contribute, redeem's vault / bucket calls around calculate_amount_owed, "
                           "protected_deposit / withdraw, v1_0 logic (superseded), reserves maps with more entries")
PROPS["C41"]["assumptions"] += [
    "contribute: the pool's state field, vault / bucket amounts, Bucket::take_advanced (rounds down to the resource's "
    "divisibility), Vault::put, ResourceManager::{total_supply, mint_fungible}, drop_empty and events are environment stubs over "
    "a symbolic resource ledger; natively the real functions run over the MockApi resource ledger"]
PROPS["C03"]["functions"].append(
    "radix_engine::blueprints::resource::FungibleVaultBlueprint::{lock_amount, unlock_amount} (liquid <-> locked moves; "
    "the same obligations as C10, registered under C03 for their conservation clause)")
PROPS["C06"]["functions"].append("SystemLoanFeeReserve::repay_all (deferred execution / finalization units, loan repayment)")
PROPS["C06"]["bounds"] += ("; repay_all: one step from an arbitrary reserve state with any committed and deferred units (no "
                           "deferred storage)")
PROPS["C06"]["outside"] = PROPS["C06"]["outside"].replace("repay_all / consume_royalty", "deferred storage in repay_all, consume_royalty")

PROPS["C09"]["functions"] = ["radix_engine::blueprints::resource::WorktopBlueprint::{put, take, take_non_fungibles, take_all, "
                             "assert_contains, assert_contains_amount, assert_contains_non_fungibles, drain} (via the verif "
                             "dispatcher verif_worktop_invoke)"]
PROPS["C09"]["bounds"] += ("; non-fungible operations: held id sets of <= 2 and asked id sets of <= 2 distinct symbolic ids")
PROPS["C09"]["outside"] = PROPS["C09"]["outside"].replace("Outside: take_non_fungibles / assert_contains_non_fungibles, the Cuttlefish", "Outside: the Cuttlefish")
PROPS["C44"]["functions"] += ["radix_common::types::Round::calculate_progress",
                              "radix_engine_interface::blueprints::consensus_manager::EpochChangeCondition::{should_epoch_change, "
                              "is_change_criterion_met, is_actual_duration_close_to_target}",
                              "ConsensusManagerBlueprint::{next_round, update_proposal_statistics} (epoch_change is a recorded "
                              "effect)"]
PROPS["C44"]["bounds"] += ("; rounds / epochs: every pair of u64 rounds; every epoch-change condition, i64 start / current time and "
                           "round; next_round from an arbitrary manager state (any epoch, round, stored timestamps <= 10^15 ms, "
                           "0..2 gap leaders (3 thorough), 3 validators in the statistics)")
PROPS["C44"]["outside"] = PROPS["C44"].get("outside", "") + ("; epoch_change itself (validator set rotation, emissions, rewards), "
                                                              "natively the epoch-change path of next_round is not replayable "
                                                              "(a counterexample there ends as not decided, not as a violation)")

PROPS["C10"]["functions"].append("radix_engine::blueprints::resource::NonFungibleVaultBlueprint::{lock_non_fungibles, "
                                 "unlock_non_fungibles} (lock table as a slot-array map; internal_take_non_fungibles / "
                                 "internal_put are recorded effects on the liquid id set)")
PROPS["C10"]["bounds"] += ("; non-fungible vault: a universe of 3 ids, each liquid, locked with any count <= 1000 or absent, "
                           "requests of 0..2 distinct ids")

PROPS["C34"]["functions"].append("radix_transactions::validation::TransactionValidator::validate_message_v2 (with "
                                 "MessageContentsV1::len, DecryptorsByCurveV2::{curve_type, number_of_decryptors})")
PROPS["C34"]["bounds"] += ("; messages: every shape (none / plaintext text or bytes / encrypted with 0..2 decryptor groups), every "
                           "length, decryptor count and limit <= 3000")

PROPS["C44"]["functions"].append("ConsensusManagerBlueprint::{get_current_time_v2, compare_current_time_v2, epoch_minute_to_instant, "
                                 "epoch_milli_to_instant} and Instant::compare")
PROPS["C44"]["bounds"] += "; time queries: every stored clock, every i64 instant, both precisions, all five operators"

PROPS["C37"]["functions"].append("GeneralResourceConstraint::normalize (normalisation preserves the set of accepted balances)")

PROPS["C07"]["functions"].append(
    "radix_engine::system::system_callback::System::update_transaction_tracker (via the verif shim "
    "system_callback::verif::update_transaction_tracker; Engine M: Track and SBOR are environment stubs, natively a real "
    "Track over a one-substate database)")
PROPS["C07"]["bounds"] += ("; Engine M: ONE commit (update_transaction_tracker) from an arbitrary tracker state -- any partition "
                           "range lo < hi within u8 of at most 255 partitions (the count is computed in u8; the real ring is 1..=255), any start partition in it, epochs_per_partition <= 2^40, start epoch <= 2^62, "
                           "any next epoch >= start epoch -- with exactly one nullification (transaction intent or subintent) whose "
                           "expiry epoch is covered by the tracker and not before the next epoch, success or failure")
PROPS["C07"]["outside"] = ("that Track / the database persist and return what update_transaction_tracker writes (Track is "
                           "exercised natively only), the executor's control flow around update_transaction_tracker and the "
                           "read of the status at transaction start (check_intent_validity); several nullifications in one "
                           "transaction (the loop body is the same per intent); simulated (preview) nullifications; tracker "
                           "lag >= 10460 epochs")
PROPS["C07"]["assumptions"] += ["Track::{read_substate, set_substate, delete_partition} and the SBOR conversions around them are "
                                "environment stubs that record the partition number and the typed value (replayed natively over "
                                "the real Track)",
                                "the expiry epoch of a nullification is covered by the tracker (the code `expect`s it; shown by "
                                "c07_tracker_covers_every_valid_intent) and is >= the next epoch (the intent was valid in the "
                                "epoch that commits it)"]
PROPS["C07"]["trusted_base"] = KANI_TB + MIR_TB
PROPS["C07"]["mir"] = True

PROPS["C16"]["functions"].append(
    "Engine M: SpreadPrefixKeyMapper::{sorted_to_db_sort_key, sorted_from_db_sort_key, to_hash_prefixed, "
    "from_hash_prefixed} from their MIR (hash = environment stub returning 32 arbitrary bytes)")
PROPS["C16"]["bounds"] += ("; Engine M: every 2-byte sort prefix, every payload content of length 0 and 3 (1 and 5 in thorough), "
                           "every 32-byte hash value; every database key of 22 + n bytes for the inverse")
PROPS["C16"]["assumptions"] = PROPS["C16"].get("assumptions", []) + [
    "Engine M: radix_common::crypto::hash is an environment stub (32 arbitrary bytes): the claim is about where the sort "
    "prefix and the payload sit in the database key, whatever the hash is"]
PROPS["C16"]["trusted_base"] = KANI_TB + MIR_TB
PROPS["C16"]["mir"] = True

PROPS["C14"]["functions"].append(
    "Engine M (read side): SubstateDatabaseOverlay::{list_raw_values_from_db_key, get_raw_substate_by_db_key} from their MIR "
    "(the listing is read off the iterator structure the function builds: root listing + BTreeMap range of the staged "
    "updates + the mapping closures, combined with the OverlayingIterator semantics the Kani harnesses establish)")
PROPS["C14"]["bounds"] += ("; Engine M reads: an arbitrary staged state of one node x one partition (absent, Delta or Reset) with "
                           "<= 3 staged entries, any requested partition, any cursor (none or any sort key), the verdict compared "
                           "at an arbitrary sort key; the root is an arbitrary database (its answer at that key is symbolic)")
PROPS["C14"]["outside"] = ("commit_overlay_into_root_store; commits touching several partitions or nodes at once; staged "
                           "partitions with more entries than the slot capacity; list_partition_keys; the ORDER in which the "
                           "listing yields its entries beyond what OverlayingIterator (Kani) and BTreeMap::range (std, trusted) "
                           "provide: the Engine-M listing job decides membership and value per key, not the sequence")
PROPS["C14"]["assumptions"] += ["the root database's listing from a cursor yields exactly its entries with key >= cursor, sorted "
                                "(the SubstateDatabase contract); BTreeMap::range / iter yield the selected entries sorted (std)",
                                "sort keys are modelled as one byte; node keys as one byte (the code only compares them)"]

PROPS["C06"]["functions"].append("SystemLoanFeeReserve::{consume_royalty, consume_royalty_internal, revert_royalty} (royalty "
                                 "breakdown as a bounded slot-array map)")
PROPS["C06"]["bounds"] += ("; royalties: one consume_royalty / revert_royalty step from an arbitrary reserve whose breakdown holds "
                           "<= 2 recipients (one slot kept free) with entries in [1 atto, 10^40] adding up to the committed royalty "
                           "cost; any XRD / USD / free amount in [0, 10^40], any recipient (package or component, 6 vault ids)")
PROPS["C06"]["outside"] = PROPS["C06"]["outside"].replace("deferred storage in repay_all, consume_royalty / consume_storage", "deferred storage in repay_all, consume_storage")
PROPS["C06"]["assumptions"] = PROPS["C06"].get("assumptions", []) + [
    "royalties: the breakdown map behaves as a dictionary (slot-array model); recipients are compared by kind and vault id (the "
    "address component is fixed per kind); negative royalty amounts are excluded (the code panics on them by contract)"]
