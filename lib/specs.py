"""Per-property specification: which obligations decide it, with bounds, stubs and what lies outside."""


def H(name, what, timeout=900, tiers=("quick", "thorough"), **kw):
    d = dict(name=name, what=what, timeout=timeout, tiers=tiers)
    d.update(kw)
    return d


PROPS = {}

PROPS["C07"] = dict(
    title="An intent can be committed at most once before it expires",
    functions=[
        "radix_engine::blueprints::transaction_tracker::TransactionTrackerSubstateV1::partition_for_expiry_epoch",
        "radix_engine::blueprints::transaction_tracker::TransactionTrackerSubstateV1::advance",
        "radix_engine::system::system_callback::System::validate_epoch_range (via verif shim)",
        "radix_engine::transaction::Nullification::of_intent / transaction_tracker_keys",
        "radix_transactions::validation::TransactionValidationConfig::latest (max_epoch_range)",
    ],
    bounds="start_epoch any u64 < 2^63, start_partition any u8 in the ring, every u64 expiry / current / next "
           "epoch; one inductive ring step from an arbitrary state (covers epoch histories of any length); no loops "
           "(no unwinding bound needed)",
    outside="that the status substate is really written to / read from the partition computed here (Track, SBOR, "
            "database), the executor's control flow around update_transaction_tracker; tracker lag >= 10460 epochs",
    assumptions=[
        "tracker parameters are the crate constants PARTITION_RANGE_START/END and EPOCHS_PER_PARTITION (as created by "
        "TransactionTrackerBlueprint::create)",
        "start_epoch < 2^63 (no u64 wrap in start_epoch + 19100)",
        "advance() is invoked only under the guard next_epoch >= start_epoch + epochs_per_partition, as in "
        "update_transaction_tracker (guard re-stated in the harness)",
        "epochs are non-decreasing over a history; tracker start_epoch <= current epoch and lags it by < 10460 epochs",
    ],
    trusted_base=["Kani 0.68 / CBMC 6.11 (cadical)", "rustc MIR->goto translation of Kani"],
    kani=[
        H("c07::c07_ring_step_preserves_live_records",
          "one advance() from an arbitrary ring state: a stored record is expired for every later epoch or is still "
          "found in the same partition, which is not the discarded one", timeout=900),
        H("c07::c07_ring_no_aliasing",
          "coverage is exactly [start, start+19100) and two covered epochs share a partition iff same 100-epoch bucket",
          timeout=600),
        H("c07::c07_tracker_covers_every_valid_intent",
          "validate_epoch_range accepts exactly start<=current<end; accepted intents within max_epoch_range always "
          "have a partition (the executor's expect cannot fire)", timeout=900),
        H("c07::c07_nullification_policy",
          "transaction intents are nullified on success and failure, subintents only on success, with their own "
          "expiry epoch and hash", timeout=600),
    ],
)
