"""Engine-M job for C35: TransactionValidator::validate_intents_and_structure (with validate_intent_relationships) over an
abstract intent tree: the IntentTreeStructure / IntentStructure trait methods are environment stubs answering from a
symbolic table of intents (hashes, declared children, yield summaries)."""
import re

import z3

from mir_engine import Job, find_function, lit
from mirsmt.values import IntV, BoolV, StructV, EnumV, RefV, UnitV, UndefV
from mirsmt import models as _models
from mir_jobs import JOBS, const_ref

FILE = "transaction_structure_validator.rs"
INF = 99


def hash_v(t):
    return StructV("Hash", [IntV(t, "u8")])


def sub_hash_v(t):
    return StructV("SubintentHash", [hash_v(t)])


def intent_hash_v(kind, t):
    return EnumV("IntentHash", kind, {0: [StructV("TransactionIntentHash", [hash_v(t)])], 1: [sub_hash_v(t)]})


def validator_v(maxd):
    u = UndefV()
    cfg = StructV("TransactionValidationConfigV1", [
        IntV(16, "usize"), IntV(512, "usize"), IntV(0, "u16"), IntV(65535, "u16"), IntV(100, "u64"),
        IntV(1000, "usize"), u, BoolV(True), u, u, BoolV(True), IntV(0, "u32"), IntV(1000000, "u32"),
        IntV(maxd, "usize"), IntV(64, "usize"), IntV(512, "usize")])
    return StructV("TransactionValidator", [cfg, EnumV("Option<u8>", 0, {0: [], 1: [IntV(0, "u8")]})])


class IntentTree(Job):
    """A case fixes the shape: n non-root subintents and the number of declared children of the root and of each
    subintent; hashes, yield counts, the depth limit and the root kind are symbolic."""
    crate = "radix-transactions"
    query_timeout_s = 120
    max_unroll = 40
    case_keys = ("shape",)

    def __init__(self):
        self.name = "c35m::validate_intents_and_structure"
        self.what = ("TransactionValidator::validate_intents_and_structure (incl. validate_intent_relationships) over every "
                     "intent tree with <= 3 non-root subintents and <= 4 declared child references in total, any hashes "
                     "(so duplicates, missing children, shared children, cycles and unreachable subintents all occur), any "
                     "max_subintent_depth <= 4, root = transaction intent or subintent, any yield counts <= 3: accepted "
                     "exactly when the subintents are pairwise distinct, every declared child is present, every subintent "
                     "is the child of exactly one intent, all are reachable from the root within the depth limit, every "
                     "child yields to its parent as often as the parent yields to it, and every intent's own validation "
                     "succeeds; on acceptance every subintent's recorded depth is its distance from the root")
        self.cover_labels = ["accepted chain of depth 3", "rejected: cycle among subintents", "rejected: yield mismatch",
                             "rejected: depth limit", "rejected: child of two intents", "rejected: duplicate subintent"]

    # shape = (n, root child count, (child counts of the subintents...))
    def cases(self, tier):
        shapes = []
        for n in (0, 1, 2, 3):
            def rec(prefix, left, k):
                if k == 0:
                    yield prefix
                    return
                for c in range(left + 1):
                    yield from rec(prefix + (c,), left - c, k - 1)
            budget = 4 if tier == "thorough" else 3
            for counts in rec((), budget, n + 1):
                total = sum(counts)
                if tier == "quick" and n == 3 and total != 3:
                    continue            # quick: for 3 subintents only the shapes with exactly 3 references
                shapes.append({"shape": (n, counts[0], tuple(counts[1:]))})
        return shapes

    def _shape(self):
        sh = self.case["shape"]
        if isinstance(sh, str):
            sh = eval(sh)
        return (sh[0], sh[1], tuple(sh[2]))

    def _names(self):
        n, rc, cs = self._shape()
        ns = ["maxd", "rk", "rh", "rvok"]
        for j in range(rc):
            ns += ["rc%d" % j, "ry%d" % j]
        for i in range(n):
            ns += ["h%d" % i, "vok%d" % i, "py%d" % i]
            for j in range(cs[i]):
                ns += ["c%d_%d" % (i, j), "y%d_%d" % (i, j)]
        return ns

    def inputs(self):
        d = {k: z3.Int(k) for k in self._names()}
        pre = []
        for k, v in d.items():
            if k == "maxd":
                pre += [v >= 0, v <= 4]
            elif k == "rk" or k.startswith(("rvok", "vok")):
                pre += [v >= 0, v <= 1]
            elif k == "rh":
                pre += [v >= 1, v <= 5]           # never the all-zero placeholder hash
            elif k.startswith(("ry", "py", "y")):
                pre += [v >= 0, v <= 3]
            else:
                pre += [v >= 1, v <= 5]           # subintent / child hashes
        # a root subintent is not also one of the non-root subintents: it would have to be its own descendant, i.e. its
        # hash would have to commit to itself (see DESIGN 0.6: the real code panics on such a mock tree)
        n = self._shape()[0]
        pre += [z3.Or(d["rk"] == 0, d["h%d" % i] != d["rh"]) for i in range(n)]
        return d, pre

    # ---- environment: the intent tree
    def _root_v(self, d):
        n, rc, cs = self._shape()
        return StructV("RootIntent", [intent_hash_v(d["rk"], d["rh"]), StructV("Vec<SubintentHash>", [
            sub_hash_v(d["rc%d" % j]) for j in range(rc)]), IntV(-1, "i32")])

    def _sub_v(self, d, i):
        n, rc, cs = self._shape()
        return StructV("SubIntent", [sub_hash_v(d["h%d" % i]), StructV("Vec<SubintentHash>", [
            sub_hash_v(d["c%d_%d" % (i, j)]) for j in range(cs[i])]), IntV(i, "i32")])

    @property
    def fresh_capacity(self):
        return self._shape()[0] + 1

    @property
    def const_overrides(self):
        return [(re.compile(r"PLACEHOLDER_PARENT$"), intent_hash_v(0, 0))]

    @property
    def env_overrides(self):
        from mirsmt.interp import _ConstRef
        R = re.compile

        def m_root(interp, path, args, ret_ty, callee):
            return _ConstRef("&RootIntent", self._root_v(self._d))

        def m_subs(interp, path, args, ret_ty, callee):
            n = self._shape()[0]
            return StructV("SetRefIter", [self._sub_v(self._d, i) for i in range(n)])

        def m_intent_hash(interp, path, args, ret_ty, callee):
            return _models.deref(interp, path, args[0]).fields[0]

        def m_children(interp, path, args, ret_ty, callee):
            return StructV("VecIntoIter", list(_models.deref(interp, path, args[0]).fields[1].fields))

        def m_len(interp, path, args, ret_ty, callee):
            return IntV(len(_models.deref(interp, path, args[0]).fields), "usize")

        def m_identity(interp, path, args, ret_ty, callee):
            return args[0]

        def m_enumerate(interp, path, args, ret_ty, callee):
            return StructV("EnumIter", [args[0], IntV(0, "usize")])

        def m_enum_next(interp, path, args, ret_ty, callee):
            r = args[0]
            it = interp.read(path, r.fid, r.local, r.projs)
            inner, k = it.fields
            if not inner.fields:
                return EnumV(ret_ty, 0, {0: []})
            e = inner.fields[0]
            interp.write(path, r.fid, r.local, r.projs, StructV("EnumIter", [
                StructV(inner.ty, inner.fields[1:]), IntV(k.term + 1, "usize")]))
            return EnumV(ret_ty, 1, {1: [StructV("(usize, &T)", [k, _ConstRef("&" + e.ty, e)])]})

        def m_validate(interp, path, args, ret_ty, callee):
            intent = _models.deref(interp, path, args[0])
            d = self._d
            idx = z3.simplify(intent.fields[2].term).as_long()
            kids = intent.fields[1].fields
            if idx < 0:
                vok, py, ys = d["rvok"], 0, [d["ry%d" % j] for j in range(len(kids))]
            else:
                vok, py, ys = d["vok%d" % idx], d["py%d" % idx], [d["y%d_%d" % (idx, j)] for j in range(len(kids))]
            cy = StructV("SymMap<SubintentHash, usize>", [StructV("Slot", [kids[j], IntV(ys[j], "usize"), BoolV(True)])
                                                          for j in range(len(kids))])
            summary = StructV("ManifestYieldSummary", [IntV(py, "usize"), cy])
            err = EnumV("IntentValidationError", 4, {4: [IntV(1, "usize"), IntV(0, "usize")]})
            return EnumV(ret_ty, z3.If(lit(vok) == 1, 0, 1), {0: [summary], 1: [err]})

        def m_eq(interp, path, args, ret_ty, callee):
            return BoolV(_models.val_eq(_models.deref(interp, path, args[0]), _models.deref(interp, path, args[1])))
        return [(R(r"as IntentTreeStructure>::root$"), m_root),
                (R(r"as IntentTreeStructure>::non_root_subintents$"), m_subs),
                (R(r"as IntentStructure>::intent_hash$|as HasSubintentHash>::subintent_hash$"), m_intent_hash),
                (R(r"as IntentStructure>::children$"), m_children),
                (R(r"as IntentStructure>::validate_intent$"), m_validate),
                (R(r"^<Enumerate<.*> as Iterator>::next$"), m_enum_next),
                (R(r"^<Enumerate<.*> as IntoIterator>::into_iter$"), m_identity),
                (R(r"^<impl ExactSizeIterator.*as Iterator>::enumerate$"), m_enumerate),
                (R(r"^<impl ExactSizeIterator.*as ExactSizeIterator>::len$"), m_len),
                (R(r"^<impl ExactSizeIterator.*as IntoIterator>::into_iter$"), m_identity),
                (R(r"^<impl ExactSizeIterator.*Item = &.*as Iterator>::next$"), _models.m_set_iter_next),
                (R(r"^<impl ExactSizeIterator.*Item = SubintentHash> as Iterator>::next$"), _models.m_intoiter_next),
                (R(r"^<(IntentHash|SubintentHash) as PartialEq>::eq$"), m_eq),
                (R(r"^<(ManifestYieldSummary|IntentHash|SubintentHash) as Clone>::clone$"), _models.m_clone)]

    def locate(self, prog):
        return find_function(prog, FILE, "validate_intents_and_structure", nparams=2)

    def setup_path(self, path, inp):
        self._d = {k: lit(v) for k, v in inp.items()}
        path.frames["job"] = {"tree": StructV("Tree", [])}

    def args(self, inp):
        d = {k: lit(v) for k, v in inp.items()}
        return [const_ref("&TransactionValidator", validator_v(d["maxd"])), RefV("&impl IntentTreeStructure", "job", "tree", ())]

    def extract_outcome(self, o):
        v = o.value
        n = self._shape()[0]
        ok = v.discr == 0
        res = {"ok": ok}
        depths = [z3.IntVal(-1)] * n
        if v.variants.get(0):
            info = v.variants[0][0]                   # ValidatedIntentTreeInformation
            rel = info.fields[0]                      # IntentRelationships { root_intent, non_root_subintents }
            m = rel.fields[1]
            for i in range(n):
                if i < len(m.fields) and m.fields[i].fields[1].kind == "struct":
                    depths[i] = m.fields[i].fields[1].fields[2].term
        for i in range(n):
            res["depth%d" % i] = z3.If(ok, depths[i], -1)
        return res

    def native(self, nat, vals):
        n, rc, cs = self._shape()
        toks = [vals["maxd"], vals["rk"], vals["rh"], vals["rvok"], rc]
        for j in range(rc):
            toks += [vals["rc%d" % j], vals["ry%d" % j]]
        toks.append(n)
        for i in range(n):
            toks += [vals["h%d" % i], vals["vok%d" % i], vals["py%d" % i], cs[i]]
            for j in range(cs[i]):
                toks += [vals["c%d_%d" % (i, j)], vals["y%d_%d" % (i, j)]]
        t = nat.call("intent_tree", *toks).split()
        if t[0] == "panic":
            return {"panic": True, "msg": " ".join(t[1:])}
        res = {"panic": False, "ok": t[0] == "ok"}
        for i in range(n):
            res["depth%d" % i] = int(t[2 + i]) if t[0] == "ok" else -1
        return res

    # ---- the documented meaning of a well-formed tree
    def _spec(self, d):
        n, rc, cs = self._shape()
        H = [d["h%d" % i] for i in range(n)]
        refs = {-1: [(d["rc%d" % j], d["ry%d" % j]) for j in range(rc)]}
        for i in range(n):
            refs[i] = [(d["c%d_%d" % (i, j)], d["y%d_%d" % (i, j)]) for j in range(cs[i])]
        distinct = z3.And([H[i] != H[j] for i in range(n) for j in range(i)]) if n > 1 else z3.BoolVal(True)
        all_refs = [(p, c, y) for p in refs for (c, y) in refs[p]]
        present = z3.And([z3.Or([c == h for h in H]) if H else z3.BoolVal(False) for (_, c, _) in all_refs]) \
            if all_refs else z3.BoolVal(True)
        one_parent = z3.And([z3.Sum([z3.If(c == H[i], 1, 0) for (_, c, _) in all_refs]) == 1 if all_refs else z3.BoolVal(False)
                             for i in range(n)]) if n else z3.BoolVal(True)

        def ref(i, p):
            return z3.Or([c == H[i] for (c, _) in refs[p]]) if refs[p] else z3.BoolVal(False)
        depth = [z3.If(ref(i, -1), 1, INF) for i in range(n)]
        for _ in range(n):
            nxt = []
            for i in range(n):
                best = depth[i]
                for j in range(n):
                    if j != i:
                        cand = z3.If(z3.And(ref(i, j), depth[j] < INF), depth[j] + 1, INF)
                        best = z3.If(cand < best, cand, best)
                nxt.append(best)
            depth = nxt
        # a root subintent occupies one level itself; a limit of 0 then allows no children either
        maxd = z3.If(d["rk"] == 1, z3.If(d["maxd"] >= 1, d["maxd"] - 1, 0), d["maxd"])
        reachable = z3.And([depth[i] <= maxd for i in range(n)]) if n else z3.BoolVal(True)
        yields = []
        for i in range(n):
            for (p, c, y) in all_refs:
                yields.append(z3.Implies(c == H[i], y == d["py%d" % i]))
        yields_ok = z3.And(yields) if yields else z3.BoolVal(True)
        voks = z3.And([d["rvok"] == 1] + [d["vok%d" % i] == 1 for i in range(n)])
        return z3.And(distinct, present, one_parent, reachable, yields_ok, voks), depth, \
            dict(distinct=distinct, present=present, one_parent=one_parent, reachable=reachable, yields_ok=yields_ok, voks=voks)

    def post(self, inp, res):
        d = {k: lit(v) for k, v in inp.items()}
        n = self._shape()[0]
        spec, depth, _ = self._spec(d)
        ok = lit(res["ok"])
        out = [("accepted exactly when the subintents form a well-formed tree with matching yields", ok == spec)]
        for i in range(n):
            out.append(("on acceptance the recorded depth of subintent %d is its distance from the root" % i,
                        z3.Implies(ok, lit(res["depth%d" % i]) == depth[i])))
        return out

    def covers(self, inp, res):
        d = {k: lit(v) for k, v in inp.items()}
        n, rc, cs = self._shape()
        ok = lit(res["ok"])
        spec, depth, parts = self._spec(d)
        F = z3.BoolVal(False)
        base = z3.And(parts["distinct"], parts["present"], parts["voks"])
        chain = z3.And(ok, z3.Or([depth[i] == 3 for i in range(n)])) if n == 3 else F
        cycle = z3.And(z3.Not(ok), base, parts["one_parent"], parts["yields_ok"], z3.Or([depth[i] >= INF for i in range(n)])) if n >= 2 else F
        ymis = z3.And(z3.Not(ok), base, parts["one_parent"], parts["reachable"]) if n >= 1 else F
        dlim = z3.And(z3.Not(ok), base, parts["one_parent"], parts["yields_ok"], z3.And([depth[i] < INF for i in range(n)])) if n >= 1 else F
        twop = z3.And(z3.Not(ok), base, z3.Not(parts["one_parent"])) if n >= 1 else F
        dup = z3.And(z3.Not(ok), z3.Not(parts["distinct"])) if n >= 2 else F
        return [("accepted chain of depth 3", chain), ("rejected: cycle among subintents", cycle),
                ("rejected: yield mismatch", ymis), ("rejected: depth limit", dlim),
                ("rejected: child of two intents", twop), ("rejected: duplicate subintent", dup)]

    def vectors(self, rng):
        out = []
        shapes = [c["shape"] for c in self.cases("thorough")]
        for _ in range(40):
            sh = rng.choice(shapes)
            self.set_case({"shape": sh})
            n, rc, cs = sh
            d = {"shape": sh}
            hs = rng.sample(range(1, 6), n) if rng.random() < 0.85 else [rng.randrange(1, 6) for _ in range(n)]
            for k in self._names():
                if k == "maxd":
                    d[k] = rng.randrange(0, 5)
                elif k == "rk":
                    d[k] = rng.randrange(2)
                elif k == "rh":
                    d[k] = rng.randrange(1, 6)
                elif k.startswith(("rvok", "vok")):
                    d[k] = 1 if rng.random() < 0.9 else 0
                elif k.startswith(("ry", "py", "y")):
                    d[k] = rng.choice([1, 1, 1, 2])
                elif re.match(r"^h\d+$", k):
                    d[k] = hs[int(k[1:])]
                else:
                    d[k] = rng.choice(hs) if hs and rng.random() < 0.9 else rng.randrange(1, 6)
            # half of the vectors: a proper tree (each subintent referenced once, parents earlier in a random order)
            if n and rng.random() < 0.5 and rc + sum(cs) == n:
                slots = [("rc%d" % j) for j in range(rc)] + [("c%d_%d" % (i, j)) for i in range(n) for j in range(cs[i])]
                perm = list(range(n))
                rng.shuffle(perm)
                for s_, i in zip(slots, perm):
                    d[s_] = hs[i]
            out.append(d)
        return out


JOBS["C35"] = [IntentTree()]
