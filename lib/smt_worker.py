"""Query worker of Engine M: reads one JSON request per line on stdin ({"id", "smt2", "timeout_ms"}), decides it with a
FRESH z3 solver (non-incremental: z3's incremental push/pop core is much weaker on the non-linear integer queries the
Decimal / calendar kernels produce) and answers one JSON line ({"id", "result": sat|unsat|unknown, "model": {name:
value}, "seconds", "reason"}). Several workers run in parallel (one process each)."""
import json
import sys
import time

import z3


def main():
    for line in sys.stdin:
        line = line.strip()
        if not line:
            continue
        req = json.loads(line)
        t0 = time.time()
        out = {"id": req["id"], "model": {}, "reason": ""}
        try:
            s = z3.Solver()
            s.set("timeout", int(req.get("timeout_ms", 60000)))
            s.from_string(req["smt2"])
            r = s.check()
            out["result"] = str(r)
            if r == z3.sat:
                m = s.model()
                for d in m.decls():
                    if d.arity() != 0:
                        continue
                    v = m[d]
                    if z3.is_int_value(v):
                        out["model"][d.name()] = str(v.as_long())
                    elif z3.is_true(v):
                        out["model"][d.name()] = "True"
                    elif z3.is_false(v):
                        out["model"][d.name()] = "False"
            elif r == z3.unknown:
                out["reason"] = s.reason_unknown()
        except Exception as e:  # noqa
            out["result"] = "unknown"
            out["reason"] = "worker error: %s" % e
        out["seconds"] = round(time.time() - t0, 3)
        sys.stdout.write(json.dumps(out) + "\n")
        sys.stdout.flush()


if __name__ == "__main__":
    main()
