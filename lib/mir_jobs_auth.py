"""Engine-M jobs for C08: access-rule evaluation (radix-engine/src/system/system_modules/auth/authorization.rs).

The auth-zone traversal (the two private leaf predicates auth_zone_stack_matches_rule / auth_zone_stack_has_amount) is
an environment stub answering from a symbolic table of visible badges: three non-fungible badges (held or not) and one
optional fungible proof of resource R0 with a symbolic amount. Natively the same situation is built with real AuthZone
substates behind a mock kernel (`auth_run` in /verif/replay-engine), so the leaf predicates are the real ones there."""
import re

import z3

from mir_engine import Job, find_function, lit
from mirsmt.values import IntV, BoolV, StructV, EnumV, RefV, UnitV
from mirsmt import models as _models
from mir_jobs import JOBS, const_ref, dec_v, unwrap_int, E18

NB = 3           # badges N0..N2
WIDTH = 2        # list length of AnyOf / AllOf / CountOf


def ron_v(d, p):
    return EnumV("ResourceOrNonFungible", d[p + "k"], {0: [StructV("NonFungibleGlobalId", [IntV(d[p + "i"], "u8")])],
                                                          1: [StructV("ResourceAddress", [IntV(d[p + "i"], "u8")])]})


def basic_v(d, p):
    rons = StructV("Vec<ResourceOrNonFungible>", [ron_v(d, p + "r%d" % j) for j in range(WIDTH)])
    return EnumV("BasicRequirement", d[p + "b"], {
        0: [ron_v(d, p + "r0")], 1: [dec_v(d[p + "amt"]), StructV("ResourceAddress", [IntV(d[p + "r0i"], "u8")])],
        2: [IntV(d[p + "cnt"], "u8"), rons], 3: [rons], 4: [rons]})


def composite_v(d, p, depth):
    if depth == 0:
        return EnumV("CompositeRequirement", 0, {0: [basic_v(d, p)]})
    kids = StructV("Vec<CompositeRequirement>", [composite_v(d, p + "c%d" % j, depth - 1) for j in range(WIDTH)])
    return EnumV("CompositeRequirement", d[p + "k"], {0: [basic_v(d, p)], 1: [kids], 2: [kids]})


def names_basic(p):
    ns = [p + "b", p + "amt", p + "cnt"]
    for j in range(WIDTH):
        ns += [p + "r%dk" % j, p + "r%di" % j]
    return ns


def names_composite(p, depth):
    ns = names_basic(p)
    if depth > 0:
        ns.append(p + "k")
        for j in range(WIDTH):
            ns += names_composite(p + "c%d" % j, depth - 1)
    return ns


def ron_holds(d, p):
    held = z3.Or([z3.And(d[p + "i"] == k, d["held%d" % k] == 1) for k in range(NB)])
    return z3.If(d[p + "k"] == 0, held, z3.And(d["proof"] == 1, d[p + "i"] == 0))


def basic_holds(d, p):
    rs = [ron_holds(d, p + "r%d" % j) for j in range(WIDTH)]
    amount = z3.And(d["proof"] == 1, d[p + "r0i"] == 0, d["bal"] >= d[p + "amt"])
    count = z3.Sum([z3.If(r, 1, 0) for r in rs]) >= d[p + "cnt"]
    return z3.If(d[p + "b"] == 0, rs[0], z3.If(d[p + "b"] == 1, amount, z3.If(d[p + "b"] == 2, count, z3.If(
        d[p + "b"] == 3, z3.And(rs), z3.Or(rs)))))


def composite_holds(d, p, depth):
    if depth == 0:
        return basic_holds(d, p)
    kids = [composite_holds(d, p + "c%d" % j, depth - 1) for j in range(WIDTH)]
    return z3.If(d[p + "k"] == 0, basic_holds(d, p), z3.If(d[p + "k"] == 1, z3.Or(kids), z3.And(kids)))


def ser_ron(v, p):
    return ("N%d" if int(v[p + "k"]) == 0 else "R%d") % int(v[p + "i"])


def ser_basic(v, p):
    b = int(v[p + "b"])
    rons = [ser_ron(v, p + "r%d" % j) for j in range(WIDTH)]
    if b == 0:
        return ["REQ", rons[0]]
    if b == 1:
        return ["AMT", v[p + "amt"], "R%d" % int(v[p + "r0i"])]
    if b == 2:
        return ["CNT", v[p + "cnt"], WIDTH] + rons
    return ["BALL" if b == 3 else "BANY", WIDTH] + rons


def ser_composite(v, p, depth):
    if depth == 0 or int(v[p + "k"]) == 0:
        return ["B"] + ser_basic(v, p)
    out = ["ANY" if int(v[p + "k"]) == 1 else "ALL", WIDTH]
    for j in range(WIDTH):
        out += ser_composite(v, p + "c%d" % j, depth - 1)
    return out


class AccessRuleCheck(Job):
    crate = "radix-engine"
    query_timeout_s = 120
    max_unroll = 60

    def __init__(self, depth, tiers=("quick", "thorough")):
        self.depth, self.tiers = depth, tiers
        self.name = "c08m::check_authorization_against_access_rule_depth%d" % depth
        self.what = ("Authorization::check_authorization_against_access_rule (with verify_auth_rule and verify_proof_rule) "
                     "for AllowAll, DenyAll and every Protected rule tree of composite depth <= %d with lists of %d "
                     "entries, all five basic requirement forms, any count (u8) and any amount, against every set of "
                     "visible badges (3 non-fungible badges held or not, an optional fungible proof with any amount): "
                     "Authorized exactly when the rule is satisfied under the documented semantics of require, "
                     "amount-of, count-of, all-of, any-of and their composition" % (depth, WIDTH))
        self.cover_labels = ["authorized", "failed", "count-of satisfied by 2", "amount-of satisfied", "deny all"]

    @property
    def env_overrides(self):
        def ok(ret_ty, b):
            return EnumV(ret_ty, 0, {0: [BoolV(b)]})

        def m_matches(interp, path, args, ret_ty, callee):
            r = _models.deref(interp, path, args[1])
            d = self._d
            ident = z3.If(r.discr == 0, r.variants[0][0].fields[0].term if r.variants.get(0) else 0,
                          r.variants[1][0].fields[0].term if r.variants.get(1) else 0)
            held = z3.Or([z3.And(ident == k, d["held%d" % k] == 1) for k in range(NB)])
            return ok(ret_ty, z3.If(r.discr == 0, held, z3.And(d["proof"] == 1, ident == 0)))

        def m_amount(interp, path, args, ret_ty, callee):
            res = _models.deref(interp, path, args[1])
            amt = unwrap_int(args[2])
            d = self._d
            return ok(ret_ty, z3.And(d["proof"] == 1, res.fields[0].term == 0, d["bal"] >= amt))
        return [(re.compile(r"Authorization::auth_zone_stack_matches_rule::<"), m_matches),
                (re.compile(r"Authorization::auth_zone_stack_has_amount::<"), m_amount),
                (re.compile(r"^<AccessRule as Clone>::clone$"), _models.m_clone)]

    def locate(self, prog):
        return find_function(prog, "auth/authorization.rs", "check_authorization_against_access_rule", nparams=3)

    def _names(self):
        return ["ar", "proof", "bal"] + ["held%d" % k for k in range(NB)] + names_composite("t", self.depth)

    def inputs(self):
        d = {k: z3.Int(k) for k in self._names()}
        pre = [d["ar"] >= 0, d["ar"] <= 2, d["proof"] >= 0, d["proof"] <= 1, d["bal"] >= 0, d["bal"] <= 10 ** 30]
        pre += [z3.And(d["held%d" % k] >= 0, d["held%d" % k] <= 1) for k in range(NB)]
        for n, v in d.items():
            if n.endswith("b") and n.startswith("t"):
                pre += [v >= 0, v <= 4]
            elif n.endswith("amt"):
                pre += [v >= 0, v <= 10 ** 30]
            elif n.endswith("cnt"):
                pre += [v >= 0, v <= 255]
            elif n.endswith("k") and re.search(r"r\d+k$", n):
                pre += [v >= 0, v <= 1]
            elif n.endswith("i"):
                pre += [v >= 0, v <= 2]
            elif n.endswith("k"):
                pre += [v >= 0, v <= 2]
        # resource leaves use resource ids 0..1
        for n, v in d.items():
            m = re.match(r"^(.*r\d+)i$", n)
            if m:
                pre.append(z3.Implies(d[m.group(1) + "k"] == 1, v <= 1))
        return d, pre

    def setup_path(self, path, inp):
        self._d = {k: lit(v) for k, v in inp.items()}
        path.frames["job"] = {"api": StructV("Api", [])}

    def args(self, inp):
        d = {k: lit(v) for k, v in inp.items()}
        rule = EnumV("AccessRule", d["ar"], {0: [], 1: [], 2: [composite_v(d, "t", self.depth)]})
        return [RefV("&mut Y", "job", "api", ()), const_ref("&NodeId", StructV("NodeId", [IntV(1, "u8")])),
                const_ref("&AccessRule", rule)]

    def extract(self, v):
        ok = v.discr == 0
        res = v.variants[0][0] if v.variants.get(0) else None
        auth = (res.discr == 0) if res is not None and res.kind == "enum" else z3.BoolVal(False)
        return {"ok": ok, "auth": z3.And(ok, auth)}

    def native(self, nat, vals):
        ar = int(vals["ar"])
        rule = ["ALLOW"] if ar == 0 else ["DENY"] if ar == 1 else ["P"] + ser_composite(vals, "t", self.depth)
        t = nat.call("auth_run", vals["held0"], vals["held1"], vals["held2"], vals["proof"], vals["bal"], *rule).split()
        if t[0] == "panic":
            return {"panic": True, "msg": " ".join(t[1:])}
        return {"panic": False, "ok": t[0] == "ok", "auth": t[0] == "ok" and t[1] == "1"}

    def post(self, inp, res):
        d = {k: lit(v) for k, v in inp.items()}
        spec = z3.If(d["ar"] == 0, True, z3.If(d["ar"] == 1, False, composite_holds(d, "t", self.depth)))
        return [("the check itself never fails", lit(res["ok"])),
                ("Authorized exactly when the access rule is satisfied by the visible badges", lit(res["auth"]) == spec)]

    def covers(self, inp, res):
        d = {k: lit(v) for k, v in inp.items()}
        a = lit(res["auth"])
        return [("authorized", z3.And(a, d["ar"] == 2)), ("failed", z3.And(z3.Not(a), d["ar"] == 2)),
                ("count-of satisfied by 2", z3.And(a, d["ar"] == 2, d["tb"] == 2, d["tcnt"] == 2, d.get("tk", z3.IntVal(0)) == 0)),
                ("amount-of satisfied", z3.And(a, d["ar"] == 2, d["tb"] == 1, d.get("tk", z3.IntVal(0)) == 0)), ("deny all", d["ar"] == 1)]

    def vectors(self, rng):
        out = []
        names = self._names()
        for _ in range(40):
            d = {}
            for n in names:
                if n == "ar":
                    d[n] = rng.choice([0, 1, 2, 2, 2, 2])
                elif n in ("proof",) or n.startswith("held"):
                    d[n] = rng.randrange(2)
                elif n == "bal":
                    d[n] = rng.choice([0, 5 * E18, 10 * E18])
                elif n.endswith("b"):
                    d[n] = rng.randrange(5)
                elif n.endswith("amt"):
                    d[n] = rng.choice([0, 5 * E18, 5 * E18 + 1, 20 * E18])
                elif n.endswith("cnt"):
                    d[n] = rng.choice([0, 1, 2, 3, 255])
                elif re.search(r"r\d+k$", n):
                    d[n] = rng.randrange(2)
                elif n.endswith("i"):
                    d[n] = rng.randrange(3)
                else:
                    d[n] = rng.randrange(3)
            for n in names:
                m = re.match(r"^(.*r\d+)i$", n)
                if m and d[m.group(1) + "k"] == 1:
                    d[n] = rng.randrange(2)
            out.append(d)
        return out


JOBS["C08"] = [AccessRuleCheck(1), AccessRuleCheck(2, tiers=("thorough",))]
