"""Engine-M jobs for C08: access-rule evaluation (radix-engine/src/system/system_modules/auth/authorization.rs).

The auth-zone traversal (the two private leaf predicates auth_zone_stack_matches_rule / auth_zone_stack_has_amount) is
an environment stub answering from a symbolic table of visible badges: three non-fungible badges (held or not) and one
optional fungible proof of resource R0 with a symbolic amount. Natively the same situation is built with real AuthZone
substates behind a mock kernel (`auth_run` in /verif/replay-engine), so the leaf predicates are the real ones there."""
import re

import z3

from mir_engine import Job, find_function, lit
from mirsmt.values import IntV, BoolV, StructV, EnumV, RefV, UnitV
from mirsmt import models as _models
from mir_jobs import JOBS, const_ref, dec_v, unwrap_int, E18

NB = 3           # badges N0..N2
WIDTH = 2        # list length of AnyOf / AllOf / CountOf


def ron_v(d, p):
    return EnumV("ResourceOrNonFungible", d[p + "k"], {0: [StructV("NonFungibleGlobalId", [IntV(d[p + "i"], "u8")])],
                                                          1: [StructV("ResourceAddress", [IntV(d[p + "i"], "u8")])]})


def basic_v(d, p):
    rons = StructV("Vec<ResourceOrNonFungible>", [ron_v(d, p + "r%d" % j) for j in range(WIDTH)])
    return EnumV("BasicRequirement", d[p + "b"], {
        0: [ron_v(d, p + "r0")], 1: [dec_v(d[p + "amt"]), StructV("ResourceAddress", [IntV(d[p + "r0i"], "u8")])],
        2: [IntV(d[p + "cnt"], "u8"), rons], 3: [rons], 4: [rons]})


def composite_v(d, p, depth):
    if depth == 0:
        return EnumV("CompositeRequirement", 0, {0: [basic_v(d, p)]})
    kids = StructV("Vec<CompositeRequirement>", [composite_v(d, p + "c%d" % j, depth - 1) for j in range(WIDTH)])
    return EnumV("CompositeRequirement", d[p + "k"], {0: [basic_v(d, p)], 1: [kids], 2: [kids]})


def names_basic(p):
    ns = [p + "b", p + "amt", p + "cnt"]
    for j in range(WIDTH):
        ns += [p + "r%dk" % j, p + "r%di" % j]
    return ns


def names_composite(p, depth):
    ns = names_basic(p)
    if depth > 0:
        ns.append(p + "k")
        for j in range(WIDTH):
            ns += names_composite(p + "c%d" % j, depth - 1)
    return ns


def ron_holds(d, p):
    held = z3.Or([z3.And(d[p + "i"] == k, d["held%d" % k] == 1) for k in range(NB)])
    return z3.If(d[p + "k"] == 0, held, z3.And(d["proof"] == 1, d[p + "i"] == 0))


def basic_holds(d, p):
    rs = [ron_holds(d, p + "r%d" % j) for j in range(WIDTH)]
    amount = z3.And(d["proof"] == 1, d[p + "r0i"] == 0, d["bal"] >= d[p + "amt"])
    count = z3.Sum([z3.If(r, 1, 0) for r in rs]) >= d[p + "cnt"]
    return z3.If(d[p + "b"] == 0, rs[0], z3.If(d[p + "b"] == 1, amount, z3.If(d[p + "b"] == 2, count, z3.If(
        d[p + "b"] == 3, z3.And(rs), z3.Or(rs)))))


def composite_holds(d, p, depth):
    if depth == 0:
        return basic_holds(d, p)
    kids = [composite_holds(d, p + "c%d" % j, depth - 1) for j in range(WIDTH)]
    return z3.If(d[p + "k"] == 0, basic_holds(d, p), z3.If(d[p + "k"] == 1, z3.Or(kids), z3.And(kids)))


def ser_ron(v, p):
    return ("N%d" if int(v[p + "k"]) == 0 else "R%d") % int(v[p + "i"])


def ser_basic(v, p):
    b = int(v[p + "b"])
    rons = [ser_ron(v, p + "r%d" % j) for j in range(WIDTH)]
    if b == 0:
        return ["REQ", rons[0]]
    if b == 1:
        return ["AMT", v[p + "amt"], "R%d" % int(v[p + "r0i"])]
    if b == 2:
        return ["CNT", v[p + "cnt"], WIDTH] + rons
    return ["BALL" if b == 3 else "BANY", WIDTH] + rons


def ser_composite(v, p, depth):
    if depth == 0 or int(v[p + "k"]) == 0:
        return ["B"] + ser_basic(v, p)
    out = ["ANY" if int(v[p + "k"]) == 1 else "ALL", WIDTH]
    for j in range(WIDTH):
        out += ser_composite(v, p + "c%d" % j, depth - 1)
    return out


class AccessRuleCheck(Job):
    crate = "radix-engine"
    query_timeout_s = 120
    max_unroll = 60

    def __init__(self, depth, tiers=("quick", "thorough")):
        self.depth, self.tiers = depth, tiers
        self.name = "c08m::check_authorization_against_access_rule_depth%d" % depth
        self.what = ("Authorization::check_authorization_against_access_rule (with verify_auth_rule and verify_proof_rule) "
                     "for AllowAll, DenyAll and every Protected rule tree of composite depth <= %d with lists of %d "
                     "entries, all five basic requirement forms (depth 2: Require / AmountOf leaves), any count (u8) and any amount, against every set of "
                     "visible badges (3 non-fungible badges held or not, an optional fungible proof with any amount): "
                     "Authorized exactly when the rule is satisfied under the documented semantics of require, "
                     "amount-of, count-of, all-of, any-of and their composition" % (depth, WIDTH))
        self.cover_labels = ["authorized", "failed", "count-of satisfied by 2", "amount-of satisfied", "deny all"]

    @property
    def env_overrides(self):
        def ok(ret_ty, b):
            return EnumV(ret_ty, 0, {0: [BoolV(b)]})

        def m_matches(interp, path, args, ret_ty, callee):
            r = _models.deref(interp, path, args[1])
            d = self._d
            ident = z3.If(r.discr == 0, r.variants[0][0].fields[0].term if r.variants.get(0) else 0,
                          r.variants[1][0].fields[0].term if r.variants.get(1) else 0)
            held = z3.Or([z3.And(ident == k, d["held%d" % k] == 1) for k in range(NB)])
            return ok(ret_ty, z3.If(r.discr == 0, held, z3.And(d["proof"] == 1, ident == 0)))

        def m_amount(interp, path, args, ret_ty, callee):
            res = _models.deref(interp, path, args[1])
            amt = unwrap_int(args[2])
            d = self._d
            return ok(ret_ty, z3.And(d["proof"] == 1, res.fields[0].term == 0, d["bal"] >= amt))
        return [(re.compile(r"Authorization::auth_zone_stack_matches_rule::<"), m_matches),
                (re.compile(r"Authorization::auth_zone_stack_has_amount::<"), m_amount),
                (re.compile(r"^<AccessRule as Clone>::clone$"), _models.m_clone)]

    def locate(self, prog):
        return find_function(prog, "auth/authorization.rs", "check_authorization_against_access_rule", nparams=3)

    def _names(self):
        return ["ar", "proof", "bal"] + ["held%d" % k for k in range(NB)] + names_composite("t", self.depth)

    def inputs(self):
        d = {k: z3.Int(k) for k in self._names()}
        pre = [d["ar"] >= 0, d["ar"] <= 2, d["proof"] >= 0, d["proof"] <= 1, d["bal"] >= 0, d["bal"] <= 10 ** 30]
        pre += [z3.And(d["held%d" % k] >= 0, d["held%d" % k] <= 1) for k in range(NB)]
        for n, v in d.items():
            if n.endswith("b") and n.startswith("t"):
                # depth 2 explores the composition of composites: its leaves are Require / AmountOf only (the list forms
                # at the leaves are covered by the depth-1 job); otherwise the path count squares
                pre += [v >= 0, v <= (1 if self.depth >= 2 else 4)]
            elif n.endswith("amt"):
                pre += [v >= 0, v <= 10 ** 30]
            elif n.endswith("cnt"):
                pre += [v >= 0, v <= 255]
            elif n.endswith("k") and re.search(r"r\d+k$", n):
                pre += [v >= 0, v <= 1]
            elif n.endswith("i"):
                pre += [v >= 0, v <= 2]
            elif n.endswith("k"):
                pre += [v >= 0, v <= 2]
        # resource leaves use resource ids 0..1
        for n, v in d.items():
            m = re.match(r"^(.*r\d+)i$", n)
            if m:
                pre.append(z3.Implies(d[m.group(1) + "k"] == 1, v <= 1))
        return d, pre

    def setup_path(self, path, inp):
        self._d = {k: lit(v) for k, v in inp.items()}
        path.frames["job"] = {"api": StructV("Api", [])}

    def args(self, inp):
        d = {k: lit(v) for k, v in inp.items()}
        rule = EnumV("AccessRule", d["ar"], {0: [], 1: [], 2: [composite_v(d, "t", self.depth)]})
        return [RefV("&mut Y", "job", "api", ()), const_ref("&NodeId", StructV("NodeId", [IntV(1, "u8")])),
                const_ref("&AccessRule", rule)]

    def extract(self, v):
        ok = v.discr == 0
        res = v.variants[0][0] if v.variants.get(0) else None
        auth = (res.discr == 0) if res is not None and res.kind == "enum" else z3.BoolVal(False)
        return {"ok": ok, "auth": z3.And(ok, auth)}

    def native(self, nat, vals):
        ar = int(vals["ar"])
        rule = ["ALLOW"] if ar == 0 else ["DENY"] if ar == 1 else ["P"] + ser_composite(vals, "t", self.depth)
        t = nat.call("auth_run", vals["held0"], vals["held1"], vals["held2"], vals["proof"], vals["bal"], *rule).split()
        if t[0] == "panic":
            return {"panic": True, "msg": " ".join(t[1:])}
        return {"panic": False, "ok": t[0] == "ok", "auth": t[0] == "ok" and t[1] == "1"}

    def post(self, inp, res):
        d = {k: lit(v) for k, v in inp.items()}
        spec = z3.If(d["ar"] == 0, True, z3.If(d["ar"] == 1, False, composite_holds(d, "t", self.depth)))
        return [("the check itself never fails", lit(res["ok"])),
                ("Authorized exactly when the access rule is satisfied by the visible badges", lit(res["auth"]) == spec)]

    def covers(self, inp, res):
        d = {k: lit(v) for k, v in inp.items()}
        a = lit(res["auth"])
        return [("authorized", z3.And(a, d["ar"] == 2)), ("failed", z3.And(z3.Not(a), d["ar"] == 2)),
                ("count-of satisfied by 2", z3.And(a, d["ar"] == 2, d["tb"] == 2, d["tcnt"] == 2, d.get("tk", z3.IntVal(0)) == 0)
                 if self.depth < 2 else z3.And(a, d["ar"] == 2, d["tk"] == 2, d["tc0k"] == 1)),
                ("amount-of satisfied", z3.And(a, d["ar"] == 2, d["tb"] == 1, d.get("tk", z3.IntVal(0)) == 0)), ("deny all", d["ar"] == 1)]

    def vectors(self, rng):
        out = []
        names = self._names()
        for _ in range(40):
            d = {}
            for n in names:
                if n == "ar":
                    d[n] = rng.choice([0, 1, 2, 2, 2, 2])
                elif n in ("proof",) or n.startswith("held"):
                    d[n] = rng.randrange(2)
                elif n == "bal":
                    d[n] = rng.choice([0, 5 * E18, 10 * E18])
                elif n.endswith("b"):
                    d[n] = rng.randrange(5)
                elif n.endswith("amt"):
                    d[n] = rng.choice([0, 5 * E18, 5 * E18 + 1, 20 * E18])
                elif n.endswith("cnt"):
                    d[n] = rng.choice([0, 1, 2, 3, 255])
                elif re.search(r"r\d+k$", n):
                    d[n] = rng.randrange(2)
                elif n.endswith("i"):
                    d[n] = rng.randrange(3)
                else:
                    d[n] = rng.randrange(3)
            for n in names:
                m = re.match(r"^(.*r\d+)i$", n)
                if m and d[m.group(1) + "k"] == 1:
                    d[n] = rng.randrange(2)
            out.append(d)
        return out


JOBS["C08"] = [AccessRuleCheck(1), AccessRuleCheck(2, tiers=("thorough",))]


# ---------------------------------------------------------------------------------------------------------------
# the two leaf predicates over the auth-zone stack (what `Require` / `AmountOf` mean against the visible zones)
ZONES = ["A", "P", "Q", "G", "H"]          # actor's own zone, its parent chain P -> Q, the global caller's chain G -> H
NPROOFS = {"A": 1, "P": 2, "Q": 1, "G": 1, "H": 1}
RES_NONE = 9


def res_v(t):
    return StructV("ResourceAddress", [IntV(t, "u8")])


def gid_v(r, i):
    return StructV("NonFungibleGlobalId", [res_v(r), StructV("NonFungibleLocalId", [IntV(i, "u64")])])


def node_v(k):
    return StructV("NodeId", [IntV(k, "u8")])


class AuthZoneStack(Job):
    """auth_zone_stack_matches_rule / auth_zone_stack_has_amount with the REAL traversal (auth_zone_stack_matches,
    global_auth_zone_matches, proof_matches, AuthZone::local_implicit_non_fungible_proofs); the kernel substate reads
    answer from a symbolic table of zones and the native proof getters from a symbolic table of proofs."""
    crate = "radix-engine"
    query_timeout_s = 120
    max_unroll = 40
    fresh_capacity = 3
    case_keys = ("p", "q", "g", "h")

    def __init__(self, kind):
        self.kind = kind
        fn = "auth_zone_stack_matches_rule" if kind == "rule" else "auth_zone_stack_has_amount"
        self.fn = fn
        self.name = "c08m::" + fn
        common = ("over the real stack traversal: the actor's own zone contributes only its local implicit badges "
                  "(package-of-direct-caller, global-caller unless frame-owned), then the global caller's zone chain and "
                  "the caller's zone chain (<= 2 zones each, <= 2 proofs per zone, any resource / amount / id in each "
                  "proof, one simulated resource and one implicit badge per zone)")
        if kind == "rule":
            self.what = ("Authorization::auth_zone_stack_matches_rule " + common + ": true exactly when some visible zone "
                         "holds a matching proof (resource rule: same resource; non-fungible rule: same resource and the id "
                         "is among the proof's ids) or, for a non-fungible rule, the badge is implicit in that zone or its "
                         "resource is simulated there; every opened substate handle is closed")
            self.cover_labels = ["matched by a proof in the parent's parent", "matched by the global-caller badge",
                                 "frame-owned global caller gives no badge", "own zone's proofs are ignored", "not matched"]
        else:
            self.what = ("Authorization::auth_zone_stack_has_amount " + common + ": true exactly when SOME proof of the "
                         "resource in a visible zone has at least the required amount (each proof individually, whatever "
                         "other proofs of the same resource precede it); every opened substate handle is closed")
            self.cover_labels = ["second proof of the resource is the sufficient one", "own zone's proof is ignored",
                                 "insufficient"]

    def cases(self, tier):
        if tier == "quick":
            return [{"p": 1, "q": 1, "g": 0, "h": 0}, {"p": 1, "q": 0, "g": 1, "h": 1}, {"p": 0, "q": 0, "g": 0, "h": 0}]
        out = []
        for p in (0, 1):
            for q in ((0, 1) if p else (0,)):
                for g in (0, 1):
                    for h in ((0, 1) if g else (0,)):
                        out.append({"p": p, "q": q, "g": g, "h": h})
        return out

    # ---- topology of the current case
    def _present(self):
        c = self.case
        return [z for z in ZONES if z == "A" or (z == "P" and c["p"]) or (z == "Q" and c["p"] and c["q"])
                or (z == "G" and c["g"]) or (z == "H" and c["g"] and c["h"])]

    def _parent(self, z):
        c = self.case
        if z == "A":
            return "P" if c["p"] else None
        if z == "P":
            return "Q" if c["q"] else None
        if z == "G":
            return "H" if c["h"] else None
        return None

    def _names(self):
        ns = ["rk", "rr", "ri", "amt", "dcp_some", "dcp", "gck", "gca"]
        for z in self._present():
            ns += [z + "_sr", z + "_ir", z + "_ii"]
            for j in range(NPROOFS[z]):
                ns += ["%s_p%dr" % (z, j), "%s_p%da" % (z, j), "%s_p%di" % (z, j)]
        return ns

    def inputs(self):
        d = {k: z3.Int(k) for k in self._names()}
        oneof = lambda v, xs: z3.Or([v == x for x in xs])
        pre = [oneof(d["rk"], (0, 1)), oneof(d["rr"], (0, 1, 5, 6)), oneof(d["ri"], (0, 1, 2, 3, 7)), d["amt"] >= 0,
               d["amt"] <= 10 ** 30, oneof(d["dcp_some"], (0, 1)), d["dcp"] >= 0, d["dcp"] <= 3, oneof(d["gck"], (0, 1)),
               oneof(d["gca"], (0, 1, 7))]
        if self.kind == "amount":
            pre += [d["rk"] == 1, oneof(d["rr"], (0, 1)), d["ri"] == 0]
        for z in self._present():
            pre += [oneof(d[z + "_sr"], (0, 1, RES_NONE)), oneof(d[z + "_ir"], (0, 1, 5, 6, RES_NONE)), d[z + "_ii"] >= 0,
                    d[z + "_ii"] <= 3]
            for j in range(NPROOFS[z]):
                pre += [oneof(d["%s_p%dr" % (z, j)], (0, 1)), d["%s_p%da" % (z, j)] >= 0, d["%s_p%da" % (z, j)] <= 10 ** 30,
                        d["%s_p%di" % (z, j)] >= 0, d["%s_p%di" % (z, j)] <= 3]
        return d, pre

    # ---- the symbolic zone table
    def _proof_index(self):
        idx, k = {}, 0
        for z in ZONES:
            for j in range(NPROOFS[z]):
                idx[(z, j)] = k
                k += 1
        return idx

    def _zone_value(self, z):
        d = self._d
        pidx = self._proof_index()
        proofs = StructV("Vec<Proof>", [StructV("Proof", [StructV("Own", [node_v(100 + pidx[(z, j)])])])
                                          for j in range(NPROOFS[z])])
        sim = StructV("BTreeSet<ResourceAddress>", [res_v(d[z + "_sr"])])
        imp = StructV("BTreeSet<NonFungibleGlobalId>", [gid_v(d[z + "_ir"], d[z + "_ii"])])
        none = lambda ty: EnumV(ty, 0, {0: []})
        par = self._parent(z)
        parent = EnumV("Option<Reference>", 1, {1: [StructV("Reference", [node_v(10 + ZONES.index(par))])]}) if par else \
            none("Option<Reference>")
        if z == "A":
            dcp = EnumV("Option<PackageAddress>", d["dcp_some"], {0: [], 1: [StructV("PackageAddress", [IntV(d["dcp"], "u8")])]})
            if self.case["g"]:
                caller = EnumV("GlobalCaller", d["gck"], {
                    0: [StructV("GlobalAddress", [IntV(d["gca"], "u8")])],
                    1: [StructV("BlueprintId", [StructV("PackageAddress", [IntV(2, "u8")]), UnitV()])]})
                gc = EnumV("Option<(GlobalCaller, Reference)>", 1, {1: [StructV("(GlobalCaller, Reference)", [
                    caller, StructV("Reference", [node_v(10 + ZONES.index("G"))])])]})
            else:
                gc = none("Option<(GlobalCaller, Reference)>")
        else:
            dcp, gc = none("Option<PackageAddress>"), none("Option<(GlobalCaller, Reference)>")
        return StructV("AuthZone", [proofs, sim, imp, dcp, gc, parent])

    @property
    def const_overrides(self):
        return [(re.compile(r"FRAME_OWNED_GLOBAL_MARKER$"), StructV("GlobalAddress", [IntV(7, "u8")]))]

    @property
    def env_overrides(self):
        from mirsmt.interp import _ConstRef

        def ok(ret_ty, v):
            return EnumV(ret_ty, 0, {0: [v]})

        def counter(path, key):
            job = path.frames["job"]
            job[key] = IntV(job[key].term + 1, "u32")

        def m_open(interp, path, args, ret_ty, callee):
            node = _models.deref(interp, path, args[1])
            k = z3.simplify(node.fields[0].term)
            if not z3.is_int_value(k):
                raise _models.Refuse("auth zone node id is not concrete")
            counter(path, "opened")
            return ok(ret_ty, IntV(k.as_long() - 10, "u32"))

        def m_close(interp, path, args, ret_ty, callee):
            counter(path, "closed")
            return ok(ret_ty, UnitV())

        def m_read(interp, path, args, ret_ty, callee):
            return ok(ret_ty, _ConstRef("&IndexedScryptoValue", StructV("IndexedScryptoValue", [args[1]])))

        def m_as_typed(interp, path, args, ret_ty, callee):
            v = _models.deref(interp, path, args[0])
            k = z3.simplify(v.fields[0].term)
            zone = self._zone_value(ZONES[k.as_long()])
            return ok(ret_ty, EnumV("FieldSubstate<AuthZone>", 0, {0: [StructV("FieldSubstateV1<AuthZone>", [
                zone, EnumV("LockStatus", 0, {0: [], 1: []})])]}))

        def proof_of(interp, path, a):
            pr = _models.deref(interp, path, a)
            k = z3.simplify(pr.fields[0].fields[0].fields[0].term).as_long() - 100
            for (z, j), i in self._proof_index().items():
                if i == k:
                    return "%s_p%d" % (z, j)
            raise _models.Refuse("unknown proof node")

        def m_p_res(interp, path, args, ret_ty, callee):
            return ok(ret_ty, res_v(self._d[proof_of(interp, path, args[0]) + "r"]))

        def m_p_amount(interp, path, args, ret_ty, callee):
            return ok(ret_ty, dec_v(self._d[proof_of(interp, path, args[0]) + "a"]))

        def m_p_ids(interp, path, args, ret_ty, callee):
            i = self._d[proof_of(interp, path, args[0]) + "i"]
            return ok(ret_ty, StructV("IndexSet<NonFungibleLocalId>", [StructV("NonFungibleLocalId", [IntV(i, "u64")])]))

        def m_eq(interp, path, args, ret_ty, callee):
            return BoolV(_models.val_eq(_models.deref(interp, path, args[0]), _models.deref(interp, path, args[1])))

        def m_pkg_badge(interp, path, args, ret_ty, callee):
            return gid_v(5, args[0].fields[0].term)

        def m_gc_badge(interp, path, args, ret_ty, callee):
            gc = args[0]
            ident = z3.If(gc.discr == 0, gc.variants[0][0].fields[0].term, 2)
            return gid_v(6, ident)

        def m_unit(interp, path, args, ret_ty, callee):
            return UnitV()

        def m_flags(interp, path, args, ret_ty, callee):
            return StructV("LockFlags", [IntV(0, "u32")])

        def m_key(interp, path, args, ret_ty, callee):
            return StructV("SubstateKey", [])
        R = re.compile
        return [(R(r"KernelSubstateApi<L>>::kernel_open_substate$"), m_open),
                (R(r"KernelSubstateApi<L>>::kernel_close_substate$"), m_close),
                (R(r"KernelSubstateApi<L>>::kernel_read_substate$"), m_read),
                (R(r"IndexedScryptoValue::as_typed::<"), m_as_typed),
                (R(r"^<Proof as NativeProof>::resource_address::<"), m_p_res),
                (R(r"^<Proof as NativeProof>::amount::<"), m_p_amount),
                (R(r"^<Proof as NativeNonFungibleProof>::non_fungible_local_ids::<"), m_p_ids),
                (R(r"^<(ResourceAddress|GlobalAddress|NonFungibleGlobalId) as PartialEq>::eq$"), m_eq),
                (R(r"NonFungibleGlobalId::package_of_direct_caller_badge$"), m_pkg_badge),
                (R(r"NonFungibleGlobalId::global_caller_badge::<"), m_gc_badge),
                (R(r"^<Reference as Into<NodeId>>::into$"), lambda interp, path, args, ret_ty, callee: args[0].fields[0]),
                (R(r"^<L as Default>::default$"), m_unit), (R(r"LockFlags::read_only$"), m_flags),
                (R(r"^<AuthZoneField as Into<SubstateKey>>::into$"), m_key),
                (R(r"^<(GlobalCaller|BTreeSet<NonFungibleGlobalId>) as Clone>::clone$"), _models.m_clone)]

    def locate(self, prog):
        return find_function(prog, "auth/authorization.rs", self.fn, nparams=3 if self.kind == "rule" else 4)

    def setup_path(self, path, inp):
        self._d = {k: lit(v) for k, v in inp.items()}
        path.frames["job"] = {"api": StructV("Api", []), "opened": IntV(0, "u32"), "closed": IntV(0, "u32")}

    def args(self, inp):
        d = {k: lit(v) for k, v in inp.items()}
        zone = const_ref("&NodeId", node_v(10))
        api = RefV("&mut Y", "job", "api", ())
        if self.kind == "amount":
            return [zone, const_ref("&ResourceAddress", res_v(d["rr"])), dec_v(d["amt"]), api]
        rule = EnumV("ResourceOrNonFungible", d["rk"], {0: [gid_v(d["rr"], d["ri"])], 1: [res_v(d["rr"])]})
        return [zone, const_ref("&ResourceOrNonFungible", rule), api]

    def extract_outcome(self, o):
        v = o.value
        job = o.path.frames["job"]
        ok = v.discr == 0
        b = v.variants[0][0].term if v.variants.get(0) else z3.BoolVal(False)
        return {"ok": ok, "val": z3.And(ok, b), "opened": job["opened"].term, "closed": job["closed"].term}

    def native(self, nat, vals):
        present = self._present()
        v = lambda k: vals.get(k, 0)
        toks = [self.kind, v("rk"), v("rr"), v("ri"), v("amt"), v("dcp_some"), v("dcp"), v("gck"), v("gca"),
                present.index("G") if "G" in present else -1, len(present)]
        for z in present:
            par = self._parent(z)
            toks += [present.index(par) if par else -1, vals[z + "_sr"], vals[z + "_ir"], vals[z + "_ii"], NPROOFS[z]]
            for j in range(NPROOFS[z]):
                toks += [vals["%s_p%dr" % (z, j)], vals["%s_p%da" % (z, j)], vals["%s_p%di" % (z, j)]]
        t = nat.call("authzone_run", *toks).split()
        if t[0] == "panic":
            return {"panic": True, "msg": " ".join(t[1:])}
        if t[0] != "ok":
            return {"panic": False, "ok": False, "val": False, "opened": 0, "closed": 0}
        return {"panic": False, "ok": True, "val": t[1] == "1", "opened": int(t[2]), "closed": int(t[3])}

    native_only_keys = ()

    # ---- the documented meaning
    def _spec(self, d):
        def proof_ok(z, j):
            r, a, i = d["%s_p%dr" % (z, j)], d["%s_p%da" % (z, j)], d["%s_p%di" % (z, j)]
            if self.kind == "amount":
                return z3.And(r == d["rr"], a >= d["amt"])
            return z3.If(d["rk"] == 0, z3.And(r == d["rr"], i == d["ri"]), r == d["rr"])

        def zone_ok(z):
            cs = [proof_ok(z, j) for j in range(NPROOFS[z])]
            if self.kind == "rule":
                cs.append(z3.And(d["rk"] == 0, z3.Or(z3.And(d[z + "_ir"] == d["rr"], d[z + "_ii"] == d["ri"]),
                                                     d[z + "_sr"] == d["rr"])))
            return z3.Or(cs)
        present = self._present()
        chains = [zone_ok(z) for z in present if z != "A"]
        local = []
        if self.kind == "rule":
            local.append(z3.And(d["rk"] == 0, d["dcp_some"] == 1, d["rr"] == 5, d["ri"] == d["dcp"]))
            if self.case["g"]:
                gid = z3.If(d["gck"] == 0, d["gca"], 2)
                local.append(z3.And(d["rk"] == 0, z3.Not(z3.And(d["gck"] == 0, d["gca"] == 7)), d["rr"] == 6, d["ri"] == gid))
        return z3.Or(chains + local) if chains + local else z3.BoolVal(False)

    def post(self, inp, res):
        d = {k: lit(v) for k, v in inp.items()}
        label = ("true exactly when a visible zone satisfies the rule" if self.kind == "rule" else
                 "true exactly when some visible proof of the resource has at least the amount")
        return [("the predicate itself never fails", lit(res["ok"])), (label, lit(res["val"]) == self._spec(d)),
                ("every opened auth-zone substate is closed again", lit(res["opened"]) == lit(res["closed"]))]

    def covers(self, inp, res):
        d = {k: lit(v) for k, v in inp.items()}
        val = lit(res["val"])
        c = self.case
        F = z3.BoolVal(False)
        if self.kind == "amount":
            second = z3.And(val, d["P_p0r"] == d["rr"], d["P_p0a"] < d["amt"], d["P_p1r"] == d["rr"]) if c["p"] and not c["g"] else F
            own = z3.And(z3.Not(val), d["A_p0r"] == d["rr"], d["A_p0a"] >= d["amt"])
            return [("second proof of the resource is the sufficient one", second), ("own zone's proof is ignored", own),
                    ("insufficient", z3.Not(val))]
        deep = z3.And(val, d["rk"] == 1, d["Q_p0r"] == d["rr"], d["P_p0r"] != d["rr"], d["P_p1r"] != d["rr"]) if c["q"] else F
        gcb = z3.And(val, d["rr"] == 6, d["G_ir"] != 6, z3.BoolVal(not c["h"]) if False else z3.BoolVal(True)) if c["g"] else F
        frame = z3.And(z3.Not(val), d["rr"] == 6, d["rk"] == 0, d["gck"] == 0, d["gca"] == 7, d["ri"] == 7) if c["g"] else F
        own = z3.And(z3.Not(val), d["rk"] == 1, d["A_p0r"] == d["rr"])
        return [("matched by a proof in the parent's parent", deep), ("matched by the global-caller badge", gcb),
                ("frame-owned global caller gives no badge", frame), ("own zone's proofs are ignored", own),
                ("not matched", z3.Not(val))]

    def vectors(self, rng):
        out = []
        for _ in range(30):
            c = rng.choice(self.cases("thorough"))
            self.set_case(c)
            d = dict(c)
            for n in self._names():
                if n in ("rk", "dcp_some", "gck"):
                    d[n] = rng.randrange(2)
                elif n == "rr":
                    d[n] = rng.choice([0, 1, 5, 6])
                elif n in ("ri", "dcp") or n.endswith("_ii") or re.search(r"_p\di$", n):
                    d[n] = rng.randrange(3)
                elif n == "amt" or re.search(r"_p\da$", n):
                    d[n] = rng.choice([0, E18, 5 * E18, 5 * E18 + 1, 10 * E18])
                elif n == "gca":
                    d[n] = rng.choice([0, 1, 7])
                elif n.endswith("_sr"):
                    d[n] = rng.choice([0, 1, 9, 9])
                elif n.endswith("_ir"):
                    d[n] = rng.choice([0, 1, 5, 6, 9, 9])
                elif re.search(r"_p\dr$", n):
                    d[n] = rng.randrange(2)
            if self.kind == "amount":
                d.update({"rk": 1, "rr": rng.randrange(2), "ri": 0})
            out.append(d)
        return out


JOBS["C08"] += [AuthZoneStack("rule"), AuthZoneStack("amount")]
