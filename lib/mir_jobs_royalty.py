"""Engine-M jobs for C06 (royalties): SystemLoanFeeReserve::{consume_royalty, revert_royalty} over a symbolic reserve whose
per-recipient royalty breakdown is a bounded slot-array map.  The representation invariant -- the breakdown entries add up to
the committed royalty cost -- is assumed before and shown after each step, so it holds along call histories of any length
(within the slot capacity); `finalize_fees_for_commit` pays out exactly the breakdown while the summary reports the committed
total, so the invariant is what keeps "royalties paid = royalties charged"."""
import z3

from mir_engine import Job, find_function, lit
from mirsmt.values import BoolV, EnumV, IntV, RefV, StructV
from mir_jobs import JOBS, dec_v, unwrap_int, tdiv, E18
from mir_jobs_fee import PARAMS, STATE, param_pre, reserve_v, native_params, AMAX, U32, PMAX

NS = 3                       # breakdown slots
VMAX = 10 ** 40


def _recipient(kind, vault):
    return EnumV("RoyaltyRecipient", kind, {0: [IntV(0, "u8"), IntV(vault, "u8")], 1: [IntV(0, "u8"), IntV(vault, "u8")]})


class RoyaltyStep(Job):
    crate = "radix-engine"
    query_timeout_s = 120
    max_unroll = 20

    def __init__(self, op):
        self.op = op
        self.name = "c06m::fee_reserve_%s_royalty" % op
        self.what = {
            "consume": "SystemLoanFeeReserve::consume_royalty (with consume_royalty_internal) from an arbitrary reserve state whose "
                       "royalty breakdown (<= 2 recipients, one free slot) adds up to the committed royalty cost, for any "
                       "non-negative XRD / USD / free amount and any recipient: it fails only when the balance does not cover "
                       "the amount (or the USD conversion overflows), and then changes nothing; otherwise the balance drops by "
                       "exactly the amount, the committed royalty cost and the recipient's entry grow by exactly the amount, "
                       "and the breakdown still adds up to the committed royalty cost",
            "revert": "SystemLoanFeeReserve::revert_royalty (run when a transaction fails) from the same arbitrary state: the "
                      "committed royalty cost is refunded to the balance and becomes zero, and NO recipient keeps an entry -- "
                      "the breakdown (what finalize_fees_for_commit pays out) still adds up to the committed royalty cost",
        }[op]
        self.cover_labels = {"consume": ["new recipient", "existing recipient", "insufficient balance", "usd amount"],
                             "revert": ["royalties were committed"]}[op]

    def locate(self, prog):
        if self.op == "revert":
            return find_function(prog, "costing/fee_reserve.rs", "revert_royalty", nparams=1)
        return find_function(prog, "costing/fee_reserve.rs", "consume_royalty", nparams=3)

    def _names(self):
        ns = list(PARAMS) + list(STATE)
        for i in range(NS):
            ns += ["s%d_p" % i, "s%d_k" % i, "s%d_n" % i, "s%d_v" % i]
        if self.op == "consume":
            ns += ["ak", "av", "rk", "rn"]
        else:
            ns += ["rk", "rn"]
        return ns

    def inputs(self):
        d = {k: z3.Int(k) for k in self._names()}
        pre = param_pre(d)
        for k in ("U", "Ud", "Uf", "Ufd"):
            pre += [d[k] >= 0, d[k] <= U32]
        for k in ("peff", "pfeff", "bal", "owed", "roy", "stor"):
            pre += [d[k] >= 0, d[k] <= AMAX]
        pre += [d["peff"] <= 2 * PMAX * 10 ** 5, d["pfeff"] <= 2 * PMAX * 10 ** 5]
        for i in range(NS):
            pre += [d["s%d_p" % i] >= 0, d["s%d_p" % i] <= 1, d["s%d_k" % i] >= 0, d["s%d_k" % i] <= 1, d["s%d_n" % i] >= 0,
                    d["s%d_n" % i] <= 5, d["s%d_v" % i] >= 1, d["s%d_v" % i] <= VMAX]
            for j in range(i + 1, NS):
                pre.append(z3.Implies(z3.And(d["s%d_p" % i] == 1, d["s%d_p" % j] == 1),
                                      z3.Or(d["s%d_k" % i] != d["s%d_k" % j], d["s%d_n" % i] != d["s%d_n" % j])))
        pre.append(z3.Sum([d["s%d_p" % i] for i in range(NS)]) <= NS - 1)
        # representation invariant: the breakdown adds up to the committed royalty cost
        pre.append(d["roy"] == z3.Sum([z3.If(d["s%d_p" % i] == 1, d["s%d_v" % i], 0) for i in range(NS)]))
        pre += [d["rk"] >= 0, d["rk"] <= 1, d["rn"] >= 0, d["rn"] <= 5]
        if self.op == "consume":
            pre += [d["ak"] >= 0, d["ak"] <= 2, d["av"] >= 0, d["av"] <= VMAX, z3.Implies(d["ak"] == 0, d["av"] == 0)]
        return d, pre

    def _reserve(self, d):
        v = reserve_v(d)
        slots = [StructV("Slot", [_recipient(d["s%d_k" % i], d["s%d_n" % i]), dec_v(d["s%d_v" % i]), BoolV(d["s%d_p" % i] == 1)])
                 for i in range(NS)]
        v.fields[12] = StructV("SymMap<RoyaltyRecipient, Decimal>", slots)
        return v

    def setup_path(self, path, inp):
        self._d = {k: lit(v) for k, v in inp.items()}
        path.frames["job"] = {"self": self._reserve(self._d)}

    def args(self, inp):
        d = {k: lit(v) for k, v in inp.items()}
        a = [RefV("&mut SystemLoanFeeReserve", "job", "self", ())]
        if self.op == "consume":
            amt = EnumV("RoyaltyAmount", d["ak"], {0: [], 1: [dec_v(d["av"])], 2: [dec_v(d["av"])]})
            a += [amt, _recipient(d["rk"], d["rn"])]
        return a

    def extract_outcome(self, o):
        d = self._d
        st = o.path.frames["job"]["self"]
        f = st.fields
        slots = f[12].fields
        cnt = z3.Sum([z3.If(s.fields[2].term, 1, 0) for s in slots])
        tot = z3.Sum([z3.If(s.fields[2].term, unwrap_int(s.fields[1]), 0) for s in slots])
        mine = z3.IntVal(0)
        for s in slots:
            k = s.fields[0]
            if k.kind != "enum":
                continue
            kd = k.discr if not isinstance(k.discr, int) else z3.IntVal(k.discr)
            vault = z3.If(kd == 0, k.variants[0][1].term, k.variants[1][1].term) if (0 in k.variants and 1 in k.variants) else \
                (k.variants[0][1].term if 0 in k.variants else k.variants[1][1].term)
            hit = z3.And(s.fields[2].term, kd == d["rk"], vault == d["rn"])
            mine = z3.If(hit, unwrap_int(s.fields[1]), mine)
        ok = z3.BoolVal(True) if self.op == "revert" else (o.value.discr == 0)
        return {"ok": ok, "bal": unwrap_int(f[5]), "roy": unwrap_int(f[11]), "cnt": cnt, "sum": tot, "mine": mine}

    def native(self, nat, vals):
        params = native_params(vals)
        params[2] = 0          # no loan
        params[10] = 0         # no free credit
        present = [i for i in range(NS) if vals["s%d_p" % i] == 1]
        total = sum(int(vals["s%d_v" % i]) for i in present)
        script = params + ["LOCK", int(vals["bal"]) + total, 0]
        for i in present:
            script += ["ROY", 1, vals["s%d_v" % i], vals["s%d_k" % i], vals["s%d_n" % i]]
        if self.op == "revert":
            script += ["REVERT_ROYALTY"]
        else:
            script += ["ROY", vals["ak"], vals["av"], vals["rk"], vals["rn"]]
        script += ["ROYSTATE", vals["rk"], vals["rn"]]
        t = nat.call("fee_run", *script).split()
        if t[0] != "val":
            return {"panic": True, "msg": " ".join(t)}
        bal, roy, cnt, tot, mine = (int(x) for x in t[-5:])
        return {"panic": False, "ok": t[-6] == "ok", "bal": bal, "roy": roy, "cnt": cnt, "sum": tot, "mine": mine}

    def _mine0(self, d):
        m = z3.IntVal(0)
        for i in range(NS):
            m = z3.If(z3.And(d["s%d_p" % i] == 1, d["s%d_k" % i] == d["rk"], d["s%d_n" % i] == d["rn"]), d["s%d_v" % i], m)
        return m

    def post(self, inp, res):
        d = {k: lit(v) for k, v in inp.items()}
        r = {k: lit(v) for k, v in res.items()}
        cnt0 = z3.Sum([d["s%d_p" % i] for i in range(NS)])
        inv = ("the breakdown still adds up to the committed royalty cost (what is paid out = what is reported and charged)",
               r["sum"] == r["roy"])
        if self.op == "revert":
            return [inv,
                    ("the committed royalty cost is refunded to the balance and becomes zero",
                     z3.And(r["bal"] == d["bal"] + d["roy"], r["roy"] == 0)),
                    ("no recipient keeps an entry", z3.And(r["cnt"] == 0, r["mine"] == 0))]
        prod = d["av"] * d["usd"]
        amt = z3.If(d["ak"] == 1, d["av"], z3.If(d["ak"] == 2, tdiv(prod, E18), 0))
        overflow = z3.And(d["ak"] == 2, tdiv(prod, E18) > (1 << 191) - 1)
        zero = z3.Or(d["ak"] == 0, d["av"] == 0)
        ok_expected = z3.Or(zero, z3.And(z3.Not(overflow), d["bal"] >= amt))
        unchanged = z3.And(r["bal"] == d["bal"], r["roy"] == d["roy"], r["cnt"] == cnt0, r["mine"] == self._mine0(d))
        return [inv,
                ("it fails only when the balance does not cover the amount or the USD conversion overflows", r["ok"] == ok_expected),
                ("a failed or zero-amount call changes nothing", z3.Implies(z3.Or(z3.Not(r["ok"]), zero), unchanged)),
                ("otherwise the balance drops by the amount, the committed royalty cost and the recipient's entry grow by it",
                 z3.Implies(z3.And(r["ok"], z3.Not(zero)),
                            z3.And(r["bal"] == d["bal"] - amt, r["roy"] == d["roy"] + amt, r["mine"] == self._mine0(d) + amt)))]

    def covers(self, inp, res):
        d = {k: lit(v) for k, v in inp.items()}
        if self.op == "revert":
            return [("royalties were committed", d["roy"] > 0)]
        ok = lit(res["ok"])
        m0 = self._mine0(d)
        return [("new recipient", z3.And(ok, d["av"] > 0, d["ak"] == 1, m0 == 0)),
                ("existing recipient", z3.And(ok, d["av"] > 0, d["ak"] == 1, m0 > 0)),
                ("insufficient balance", z3.Not(ok)),
                ("usd amount", z3.And(ok, d["ak"] == 2, d["av"] > 0, d["usd"] > 0))]

    def vectors(self, rng):
        out = []
        for _ in range(24):
            v = {"P": E18, "limit": 1000, "loan": 0, "Pf": E18, "flimit": 1000, "usd": rng.choice([0, E18, 3 * E18 // 2]), "ssp": 0,
                 "asp": 0, "tk": 0, "tv": 0, "credit": 0, "peff": E18, "pfeff": E18, "bal": rng.choice([0, 5 * E18, 1000 * E18]),
                 "owed": 0, "U": 0, "Ud": 0, "Uf": 0, "Ufd": 0, "stor": 0}
            keys = rng.sample([(0, 1), (0, 2), (1, 1), (1, 3), (0, 4)], NS)
            npres = rng.randrange(NS)
            roy = 0
            for i in range(NS):
                p = 1 if i < npres else 0
                val = rng.choice([1, E18, 7 * E18])
                v.update({"s%d_p" % i: p, "s%d_k" % i: keys[i][0], "s%d_n" % i: keys[i][1], "s%d_v" % i: val})
                roy += val if p else 0
            v["roy"] = roy
            rk, rn = rng.choice(keys + [(1, 5)])
            v.update({"rk": rk, "rn": rn})
            if self.op == "consume":
                ak = rng.randrange(3)
                v.update({"ak": ak, "av": 0 if ak == 0 else rng.choice([0, 1, 2 * E18, 6 * E18])})
            out.append(v)
        return out


JOBS.setdefault("C06", [])
JOBS["C06"] += [RoyaltyStep("consume"), RoyaltyStep("revert")]
