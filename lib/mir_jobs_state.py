"""Engine-M jobs over map-backed state (round 3): one inductive step from an ARBITRARY state that satisfies the
representation invariant, the maps being bounded symbolic slot arrays (models.py, "hash / index maps").

C13: SubstateLocks::{lock, unlock} -- the handle table, the per-substate lock states and the per-node counters.
"""
import re

import z3

from mir_engine import Job, find_function, lit
from mirsmt import models as _models
from mirsmt.values import IntV, BoolV, StructV, EnumV, RefV, UnitV
from mir_jobs import JOBS, const_ref

NL, NS, NN = 3, 3, 2        # slot capacities: handle table, substate lock states, node counters


def b2i(c):
    return z3.If(c, 1, 0)


def state_vars(prefix=""):
    names = []
    for i in range(NL):
        names += ["L%d_%s" % (i, f) for f in ("p", "h", "n", "q", "k")]
    for j in range(NS):
        names += ["S%d_%s" % (j, f) for f in ("p", "n", "q", "k", "d", "c")]
    for m in range(NN):
        names += ["N%d_%s" % (m, f) for f in ("p", "n", "c")]
    names.append("next")
    return names


def node_v(t):
    return StructV("NodeId", [IntV(t, "u8")])


def part_v(t):
    return StructV("PartitionNumber", [IntV(t, "u8")])


def key_v(t):
    return StructV("SubstateKey", [IntV(t, "u8")])


def build_state(st):
    locks = []
    for i in range(NL):
        val = StructV("(NodeId, PartitionNumber, SubstateKey, D)",
                      [node_v(st["L%d_n" % i]), part_v(st["L%d_q" % i]), key_v(st["L%d_k" % i]), UnitV()])
        locks.append(StructV("Slot", [IntV(st["L%d_h" % i], "u32"), val, BoolV(lit(st["L%d_p" % i]) == 1)]))
    sls = []
    for j in range(NS):
        k = StructV("(NodeId, PartitionNumber, SubstateKey)",
                    [node_v(st["S%d_n" % j]), part_v(st["S%d_q" % j]), key_v(st["S%d_k" % j])])
        v = EnumV("SubstateLockState", st["S%d_d" % j], {0: [IntV(st["S%d_c" % j], "usize")], 1: []})
        sls.append(StructV("Slot", [k, v, BoolV(lit(st["S%d_p" % j]) == 1)]))
    nnl = []
    for m in range(NN):
        nnl.append(StructV("Slot", [node_v(st["N%d_n" % m]), IntV(st["N%d_c" % m], "usize"),
                                    BoolV(lit(st["N%d_p" % m]) == 1)]))
    return StructV("SubstateLocks<D>", [StructV("SymMap<u32, handle>", locks), StructV("SymMap<key, SubstateLockState>", sls),
                                        StructV("SymMap<NodeId, usize>", nnl), IntV(st["next"], "u32")])


def read_state(v):
    st = {}
    locks, sls, nnl, nxt = v.fields
    for i, s in enumerate(locks.fields):
        st["L%d_p" % i] = b2i(s.fields[2].term)
        st["L%d_h" % i] = s.fields[0].term
        val = s.fields[1]
        st["L%d_n" % i] = val.fields[0].fields[0].term
        st["L%d_q" % i] = val.fields[1].fields[0].term
        st["L%d_k" % i] = val.fields[2].fields[0].term
    for j, s in enumerate(sls.fields):
        st["S%d_p" % j] = b2i(s.fields[2].term)
        k = s.fields[0]
        st["S%d_n" % j] = k.fields[0].fields[0].term
        st["S%d_q" % j] = k.fields[1].fields[0].term
        st["S%d_k" % j] = k.fields[2].fields[0].term
        e = s.fields[1]
        st["S%d_d" % j] = e.discr
        c = e.variants.get(0, [None])[0] if e.variants.get(0) else None
        st["S%d_c" % j] = c.term if c is not None and c.kind == "int" else z3.IntVal(0)
    for m, s in enumerate(nnl.fields):
        st["N%d_p" % m] = b2i(s.fields[2].term)
        st["N%d_n" % m] = s.fields[0].fields[0].term
        st["N%d_c" % m] = s.fields[1].term
    st["next"] = nxt.term
    return st


def handles_on_key(st, n, q, k):
    return z3.Sum([b2i(z3.And(st["L%d_p" % i] == 1, st["L%d_n" % i] == n, st["L%d_q" % i] == q, st["L%d_k" % i] == k))
                   for i in range(NL)])


def handles_on_node(st, n):
    return z3.Sum([b2i(z3.And(st["L%d_p" % i] == 1, st["L%d_n" % i] == n)) for i in range(NL)])


def ranges(st):
    cs = []
    for i in range(NL):
        cs += [z3.Or(st["L%d_p" % i] == 0, st["L%d_p" % i] == 1), st["L%d_h" % i] >= 0, st["L%d_h" % i] < (1 << 32)]
        cs += [st["L%d_%s" % (i, f)] >= 0 for f in ("n", "q", "k")] + [st["L%d_%s" % (i, f)] <= 255 for f in ("n", "q", "k")]
    for j in range(NS):
        cs += [z3.Or(st["S%d_p" % j] == 0, st["S%d_p" % j] == 1), z3.Or(st["S%d_d" % j] == 0, st["S%d_d" % j] == 1),
               st["S%d_c" % j] >= 0, st["S%d_c" % j] < (1 << 64)]
        cs += [st["S%d_%s" % (j, f)] >= 0 for f in ("n", "q", "k")] + [st["S%d_%s" % (j, f)] <= 255 for f in ("n", "q", "k")]
    for m in range(NN):
        cs += [z3.Or(st["N%d_p" % m] == 0, st["N%d_p" % m] == 1), st["N%d_n" % m] >= 0, st["N%d_n" % m] <= 255,
               st["N%d_c" % m] >= 0, st["N%d_c" % m] < (1 << 64)]
    cs += [st["next"] >= 0, st["next"] < (1 << 32) - 1]
    return cs


def invariant(st):
    """representation invariant of SubstateLocks, as a list of (label, formula)"""
    inv = []
    # handle ids are distinct and below next_lock_id
    c = []
    for i in range(NL):
        c.append(z3.Implies(st["L%d_p" % i] == 1, st["L%d_h" % i] < st["next"]))
        for i2 in range(i + 1, NL):
            c.append(z3.Implies(z3.And(st["L%d_p" % i] == 1, st["L%d_p" % i2] == 1), st["L%d_h" % i] != st["L%d_h" % i2]))
    inv.append(("live handle ids are distinct and below next_lock_id", z3.And(c)))
    # map keys are distinct
    c = []
    for j in range(NS):
        for j2 in range(j + 1, NS):
            c.append(z3.Implies(z3.And(st["S%d_p" % j] == 1, st["S%d_p" % j2] == 1),
                                z3.Not(z3.And(st["S%d_n" % j] == st["S%d_n" % j2], st["S%d_q" % j] == st["S%d_q" % j2],
                                              st["S%d_k" % j] == st["S%d_k" % j2]))))
    for m in range(NN):
        for m2 in range(m + 1, NN):
            c.append(z3.Implies(z3.And(st["N%d_p" % m] == 1, st["N%d_p" % m2] == 1), st["N%d_n" % m] != st["N%d_n" % m2]))
    inv.append(("map keys are distinct", z3.And(c)))
    # lock state of a substate = the handles open on it
    c = []
    for j in range(NS):
        r = handles_on_key(st, st["S%d_n" % j], st["S%d_q" % j], st["S%d_k" % j])
        c.append(z3.Implies(st["S%d_p" % j] == 1, z3.If(st["S%d_d" % j] == 0, st["S%d_c" % j] == r, r == 1)))
    for i in range(NL):
        c.append(z3.Implies(st["L%d_p" % i] == 1, z3.Or([z3.And(
            st["S%d_p" % j] == 1, st["S%d_n" % j] == st["L%d_n" % i], st["S%d_q" % j] == st["L%d_q" % i],
            st["S%d_k" % j] == st["L%d_k" % i]) for j in range(NS)])))
    inv.append(("each substate's lock state counts exactly the handles open on it (Read(n): n handles; Write: one)",
                z3.And(c)))
    # node counters = handles open on the node
    c = []
    for m in range(NN):
        c.append(z3.Implies(st["N%d_p" % m] == 1, st["N%d_c" % m] == handles_on_node(st, st["N%d_n" % m])))
    for i in range(NL):
        c.append(z3.Implies(st["L%d_p" % i] == 1, z3.Or([z3.And(st["N%d_p" % m] == 1, st["N%d_n" % m] == st["L%d_n" % i])
                                                          for m in range(NN)])))
    inv.append(("each node counter equals the number of handles open on the node", z3.And(c)))
    return inv


def key_is_write(st, n, q, k):
    return z3.Or([z3.And(st["S%d_p" % j] == 1, st["S%d_n" % j] == n, st["S%d_q" % j] == q, st["S%d_k" % j] == k,
                         st["S%d_d" % j] == 1) for j in range(NS)])


def free_slots(st):
    return [z3.Sum([st["L%d_p" % i] for i in range(NL)]) < NL, z3.Sum([st["S%d_p" % j] for j in range(NS)]) < NS,
            z3.Sum([st["N%d_p" % m] for m in range(NN)]) < NN]


class LocksStep(Job):
    crate = "radix-engine"
    query_timeout_s = 120
    # SubstateKey is an opaque value here (only cloned and compared): its derived Clone is replaced by a plain copy
    env_overrides = [(re.compile(r"^<SubstateKey as Clone>::clone$"), _models.m_clone)]

    def __init__(self, op):
        self.op = op
        self.name = "c13m::substate_locks_" + op
        if op == "lock":
            self.what = ("SubstateLocks::lock, one step from an arbitrary state (handle table <= %d, lock states <= %d, "
                         "node counters <= %d entries, all symbolic) satisfying the representation invariant: a handle "
                         "is granted exactly when the readers/writer rule allows it (read: no writer; write: no "
                         "handle at all), it is a fresh id, a refused request changes nothing, and the invariant "
                         "(lock state = handles open on the substate, node counter = handles open on the node) is "
                         "re-established" % (NL, NS, NN))
            self.cover_labels = ["granted read", "granted write", "refused by writer", "refused by readers",
                                 "new substate"]
        else:
            self.what = ("SubstateLocks::unlock of a live handle, one step from an arbitrary state satisfying the "
                         "representation invariant: exactly that handle is closed, the invariant is re-established "
                         "(so a node is reported locked exactly while a handle on it is open); a dead handle panics")
            self.cover_labels = ["unlock reader", "unlock writer", "last handle on node"]
            self.allow_panic = r"unwrap on None|expect failed"

    def locate(self, prog):
        return find_function(prog, "kernel/substate_locks.rs", self.op, nparams=6 if self.op == "lock" else 2)

    def inputs(self):
        st = {k: z3.Int(k) for k in state_vars()}
        inp = dict(st)
        pre = ranges(st) + [f for _, f in invariant(st)]
        if self.op == "lock":
            for k in ("an", "aq", "ak"):
                inp[k] = z3.Int(k)
                pre += [inp[k] >= 0, inp[k] <= 255]
            inp["ro"] = z3.Int("ro")
            pre += [z3.Or(inp["ro"] == 0, inp["ro"] == 1)] + free_slots(st)
        else:
            inp["h"] = z3.Int("h")
            pre += [inp["h"] >= 0, inp["h"] < (1 << 32)]
        return inp, pre

    def setup_path(self, path, inp):
        path.frames["job"] = {"self": build_state({k: lit(inp[k]) for k in state_vars()})}

    def args(self, inp):
        me = RefV("&mut SubstateLocks<D>", "job", "self", ())
        if self.op == "lock":
            return [me, const_ref("&NodeId", node_v(lit(inp["an"]))), part_v(lit(inp["aq"])),
                    const_ref("&SubstateKey", key_v(lit(inp["ak"]))), BoolV(lit(inp["ro"]) == 1), UnitV()]
        return [me, IntV(lit(inp["h"]), "u32")]

    def extract_outcome(self, o):
        d = read_state(o.path.frames["job"]["self"])
        if self.op == "lock":
            d["some"] = o.value.discr == 1
            d["val"] = o.value.variants[1][0].term if o.value.variants.get(1) else z3.IntVal(0)
        else:
            d["some"] = z3.BoolVal(True)
            d["val"] = z3.IntVal(0)
        return d

    # ---------------------------------------------------------------- specification
    def post(self, inp, res):
        pre = {k: lit(inp[k]) for k in state_vars()}
        if "L0_p" not in res:
            if self.op == "unlock" and res.get("panic") is not None and z3.is_true(z3.simplify(lit(res["panic"]))):
                h = lit(inp["h"])
                live = z3.Or([z3.And(pre["L%d_p" % i] == 1, pre["L%d_h" % i] == h) for i in range(NL)])
                return [("unlock panics only for a handle that is not open", z3.Not(live))]
            # outcome read from the native scenario (self-test): only the return value is compared there
            return []
        st = {k: lit(res[k]) for k in state_vars()}
        posts = list(invariant(st))
        if self.op == "lock":
            n, q, k, ro = lit(inp["an"]), lit(inp["aq"]), lit(inp["ak"]), lit(inp["ro"]) == 1
            r = handles_on_key(pre, n, q, k)
            allowed = z3.If(ro, z3.Not(key_is_write(pre, n, q, k)), r == 0)
            ok = lit(res["some"])
            posts += [
                ("a handle is granted exactly when the readers/writer rule allows it", ok == allowed),
                ("a granted handle is the fresh id next_lock_id, which then advances",
                 z3.Implies(ok, z3.And(lit(res["val"]) == pre["next"], st["next"] == pre["next"] + 1))),
                ("a granted handle is open on exactly the requested substate",
                 z3.Implies(ok, z3.And(handles_on_key(st, n, q, k) == r + 1,
                                       handles_on_node(st, n) == handles_on_node(pre, n) + 1,
                                       z3.Sum([st["L%d_p" % i] for i in range(NL)]) ==
                                       z3.Sum([pre["L%d_p" % i] for i in range(NL)]) + 1))),
                ("a write grant leaves the substate in the Write state, a read grant in a Read state",
                 z3.Implies(ok, key_is_write(st, n, q, k) == z3.Not(ro))),
                ("a refused request opens no handle and keeps next_lock_id",
                 z3.Implies(z3.Not(ok), z3.And(st["next"] == pre["next"],
                                               z3.And([z3.And([st["L%d_%s" % (i, f)] == pre["L%d_%s" % (i, f)]
                                                               for f in ("p", "h", "n", "q", "k")]) for i in range(NL)])))),
            ]
        else:
            h = lit(inp["h"])
            live = z3.Or([z3.And(pre["L%d_p" % i] == 1, pre["L%d_h" % i] == h) for i in range(NL)])
            posts += [("unlock of a live handle returns", live),
                      ("exactly the given handle is closed", z3.And([
                          z3.If(z3.And(pre["L%d_p" % i] == 1, pre["L%d_h" % i] == h), st["L%d_p" % i] == 0,
                                z3.And([st["L%d_%s" % (i, f)] == pre["L%d_%s" % (i, f)] for f in ("p", "h", "n", "q", "k")]))
                          for i in range(NL)])),
                      ("next_lock_id is unchanged", st["next"] == pre["next"])]
        return posts

    def covers(self, inp, res):
        if "L0_p" not in res:
            return []
        pre = {k: lit(inp[k]) for k in state_vars()}
        st = {k: lit(res[k]) for k in state_vars()}
        if self.op == "lock":
            n, q, k = lit(inp["an"]), lit(inp["aq"]), lit(inp["ak"])
            ro = lit(inp["ro"]) == 1
            ok = lit(res["some"])
            r = handles_on_key(pre, n, q, k)
            return [("granted read", z3.And(ok, ro, r > 0)), ("granted write", z3.And(ok, z3.Not(ro))),
                    ("refused by writer", z3.And(z3.Not(ok), key_is_write(pre, n, q, k))),
                    ("refused by readers", z3.And(z3.Not(ok), z3.Not(ro), z3.Not(key_is_write(pre, n, q, k)))),
                    ("new substate", z3.And(ok, z3.Sum([st["S%d_p" % j] for j in range(NS)]) >
                                            z3.Sum([pre["S%d_p" % j] for j in range(NS)])))]
        h = lit(inp["h"])
        hn = z3.Sum([z3.If(z3.And(pre["L%d_p" % i] == 1, pre["L%d_h" % i] == h), pre["L%d_n" % i], 0) for i in range(NL)])
        was_write = z3.Or([z3.And(pre["L%d_p" % i] == 1, pre["L%d_h" % i] == h,
                                  key_is_write(pre, pre["L%d_n" % i], pre["L%d_q" % i], pre["L%d_k" % i])) for i in range(NL)])
        return [("unlock reader", z3.Not(was_write)), ("unlock writer", was_write),
                ("last handle on node", handles_on_node(st, hn) == 0)]

    # ---------------------------------------------------------------- native scenarios
    @staticmethod
    def _build_script(vals):
        """a script that reaches the given state from an empty SubstateLocks: ids 0..next-1 in order; a live handle is
        opened with its substate's mode, any other id is burnt on a scratch substate and closed again"""
        live = {}
        for i in range(NL):
            if int(vals["L%d_p" % i]) == 1:
                live[int(vals["L%d_h" % i])] = (int(vals["L%d_n" % i]), int(vals["L%d_q" % i]), int(vals["L%d_k" % i]))
        writes = set()
        for j in range(NS):
            if int(vals["S%d_p" % j]) == 1 and int(vals["S%d_d" % j]) == 1:
                writes.add((int(vals["S%d_n" % j]), int(vals["S%d_q" % j]), int(vals["S%d_k" % j])))
        nxt = int(vals["next"])
        if nxt > 64:
            return None, live
        toks = []
        used_nodes = {k[0] for k in live.values()}
        scratch = next(n for n in range(256) if n not in used_nodes)
        for hid in range(nxt):
            if hid in live:
                n, q, k = live[hid]
                toks += ["L", n, q, k, 0 if (n, q, k) in writes else 1]
            else:
                toks += ["L", scratch, 0, 0, 1, "U", hid]
        return toks, live

    def native(self, nat, vals):
        toks, live = self._build_script(vals)
        if toks is None:
            return {"panic": False, "some": False, "val": 0, "skipped": "next_lock_id too large to replay"}
        if self.op == "lock":
            toks += ["L", vals["an"], vals["aq"], vals["ak"], vals["ro"]]
            out = nat.call("locks_run", *toks).split()
            if out[0] == "panic":
                return {"panic": True, "msg": " ".join(out[1:])}
            last = out[-1]
            return {"panic": False, "some": last != "none", "val": int(last[1:]) if last != "none" else 0}
        toks += ["U", vals["h"]]
        out = nat.call("locks_run", *toks).split()
        if out[0] == "panic":
            return {"panic": True, "msg": " ".join(out[1:])}
        return {"panic": False, "some": True, "val": 0}

    def native_failed(self, nat, vals, label):
        """replay the step natively, then observe is_locked / node_is_locked for everything involved, close every
        remaining handle and observe again: a broken counter or lock state shows up as a node / substate that is
        reported locked with no handle open (or free with a handle open), or as an underflow panic"""
        toks, live = self._build_script(vals)
        if toks is None:
            return {"skipped": "next_lock_id too large to replay"}, []
        ntoks = len([t for t in toks if t in ("L", "U")])
        handles = dict(live)
        failed = []
        if self.op == "lock":
            toks += ["L", vals["an"], vals["aq"], vals["ak"], vals["ro"]]
            key = (int(vals["an"]), int(vals["aq"]), int(vals["ak"]))
            r = sum(1 for v in live.values() if v == key)
            writes = any(int(vals["S%d_p" % j]) == 1 and int(vals["S%d_d" % j]) == 1 and
                         (int(vals["S%d_n" % j]), int(vals["S%d_q" % j]), int(vals["S%d_k" % j])) == key for j in range(NS))
            allowed = (not writes) if int(vals["ro"]) == 1 else (r == 0)
        else:
            toks += ["U", vals["h"]]
            key = None
        out = nat.call("locks_run", *toks).split()
        if out[0] == "panic":
            if self.op == "unlock" and int(vals["h"]) not in live:
                return {"panic": True}, []
            return {"panic": True, "msg": " ".join(out[1:])}, ["native panic during the step: " + " ".join(out[1:])]
        step_res = out[-1]
        if self.op == "lock":
            granted = step_res != "none"
            if granted != allowed:
                failed.append("lock granted=%s but the readers/writer rule says %s" % (granted, allowed))
            if granted:
                handles[int(step_res[1:])] = key
                if int(step_res[1:]) != int(vals["next"]):
                    failed.append("granted handle %s is not the fresh id %s" % (step_res, vals["next"]))
        else:
            handles.pop(int(vals["h"]), None)
        # observe, drain, observe
        nodes = sorted({v[0] for v in handles.values()} | {v[0] for v in live.values()} |
                       ({key[0]} if key else set()))
        keys = sorted(set(handles.values()) | set(live.values()) | ({key} if key else set()))

        def observe(hs):
            obs = []
            for n in nodes:
                obs += ["N", n]
            for k in keys:
                obs += ["K", k[0], k[1], k[2]]
            o = nat.call("locks_run", *(toks + hs + obs)).split()
            return o
        o1 = observe([])
        if o1[0] == "panic":
            return {"panic": True}, ["native panic while observing"]
        vals1 = o1[-(len(nodes) + len(keys)):]
        for n, got in zip(nodes, vals1[:len(nodes)]):
            want = any(v[0] == n for v in handles.values())
            if (got == "1") != want:
                failed.append("after the step node_is_locked(node %d) = %s but %d handle(s) are open on it" % (
                    n, got, sum(1 for v in handles.values() if v[0] == n)))
        for k, got in zip(keys, vals1[len(nodes):]):
            want = any(v == k for v in handles.values())
            if (got == "1") != want:
                failed.append("after the step is_locked%r = %s but %d handle(s) are open on it" % (
                    k, got, sum(1 for v in handles.values() if v == k)))
        drain = []
        for hid in sorted(handles):
            drain += ["U", hid]
        o2 = observe(drain)
        if o2[0] == "panic":
            failed.append("closing the remaining handles panics: " + " ".join(o2[1:]))
        else:
            vals2 = o2[-(len(nodes) + len(keys)):]
            for n, got in zip(nodes, vals2[:len(nodes)]):
                if got == "1":
                    failed.append("node %d is still reported locked after every handle was closed" % n)
            for k, got in zip(keys, vals2[len(nodes):]):
                if got == "1":
                    failed.append("substate %r is still reported locked after every handle was closed" % (k,))
        return {"step": step_res, "observed": " ".join(o1[1:])[-80:]}, failed

    def vectors(self, rng):
        out = []

        def st(live, writes, extra_sls=(), extra_nnl=(), nxt=None):
            d = {k: 0 for k in state_vars()}
            for i, (hid, key) in enumerate(live):
                d.update({"L%d_p" % i: 1, "L%d_h" % i: hid, "L%d_n" % i: key[0], "L%d_q" % i: key[1], "L%d_k" % i: key[2]})
            keys = []
            for _, key in live:
                if key not in keys:
                    keys.append(key)
            for j, key in enumerate(keys + list(extra_sls)):
                cnt = sum(1 for _, k in live if k == key)
                d.update({"S%d_p" % j: 1, "S%d_n" % j: key[0], "S%d_q" % j: key[1], "S%d_k" % j: key[2],
                          "S%d_d" % j: 1 if key in writes else 0, "S%d_c" % j: 0 if key in writes else cnt})
            nodes = []
            for _, key in live:
                if key[0] not in nodes:
                    nodes.append(key[0])
            for m, n in enumerate(nodes + list(extra_nnl)):
                d.update({"N%d_p" % m: 1, "N%d_n" % m: n, "N%d_c" % m: sum(1 for _, k in live if k[0] == n)})
            d["next"] = nxt if nxt is not None else (max([h for h, _ in live]) + 1 if live else 0)
            return d
        A, B, C = (1, 0, 5), (1, 0, 6), (2, 3, 5)
        states = [st([], set()), st([(0, A)], set()), st([(0, A)], {A}), st([(0, A), (1, A)], set()),
                  st([(1, A), (3, B)], {B}, nxt=5), st([(0, C)], set(), extra_sls=[A], extra_nnl=[1], nxt=2)]
        if self.op == "lock":
            for s in states:
                for key in (A, B, C):
                    for ro in (0, 1):
                        d = dict(s)
                        d.update({"an": key[0], "aq": key[1], "ak": key[2], "ro": ro})
                        # respect the free-slot precondition for the self-test too
                        if sum(d["L%d_p" % i] for i in range(NL)) < NL and sum(d["S%d_p" % j] for j in range(NS)) < NS \
                                and sum(d["N%d_p" % m] for m in range(NN)) < NN:
                            out.append(d)
        else:
            for s in states:
                for i in range(NL):
                    if s["L%d_p" % i] == 1:
                        d = dict(s)
                        d["h"] = s["L%d_h" % i]
                        out.append(d)
        return out


JOBS.setdefault("C13", [])
JOBS["C13"] += [LocksStep("lock"), LocksStep("unlock")]


# =====================================================================================================
# C14: merge_database_updates (the overlay's commit) -- nested dictionaries as slot arrays, the incoming
# DatabaseUpdates as IndexMap entry lists
# =====================================================================================================
TN, TP, TL = 2, 2, 3          # `this`: node slots, partition slots per node, leaf slots per partition
OL = 2                        # `other`: one node, one partition (Delta or Reset, symbolic), OL leaf entries


def _sortkey(t):
    return StructV("DbSortKey", [IntV(t, "u8")])


def _dbupdate(kind, val):
    return EnumV("DatabaseUpdate", kind, {0: [IntV(val, "u8")], 1: []})


class MergeUpdates(Job):
    crate = "radix-substate-store-impls"
    query_timeout_s = 120
    max_unroll = 60

    def __init__(self):
        self.name = "c14m::merge_database_updates"
        self.what = ("merge_database_updates (the overlay's commit): from an ARBITRARY staged state (<= %d nodes x <= %d "
                     "partitions, each Delta or Reset with <= %d entries, all keys/values symbolic) and an arbitrary "
                     "incoming commit (one partition, Delta or Reset, %d entries), the merged staging answers every "
                     "(node, partition, sort key) exactly like the incoming commit applied on top of the staged "
                     "state: the commit's Set / Delete / partition Reset wins, otherwise the staged verdict stays" % (
                         TN, TP, TL - 1, OL))
        self.cover_labels = ["delta over delta", "delta over reset", "reset over anything", "new partition", "new node",
                             "delete hides a staged value"]

    def locate(self, prog):
        return find_function(prog, None, "merge_database_updates", nparams=2)

    # ---- variables
    def _names(self):
        ns = []
        for a in range(TN):
            ns += ["n%d_p" % a, "n%d_k" % a]
            for b in range(TP):
                ns += ["n%dp%d_p" % (a, b), "n%dp%d_k" % (a, b), "n%dp%d_r" % (a, b)]
                for c in range(TL):
                    ns += ["n%dp%dl%d_%s" % (a, b, c, f) for f in ("p", "k", "d", "v")]
        ns += ["on", "op", "o_reset"]
        for e in range(OL):
            ns += ["o%d_k" % e, "o%d_d" % e, "o%d_v" % e]
        ns += ["qn", "qp", "qs"]
        return ns

    def inputs(self):
        d = {k: z3.Int(k) for k in self._names()}
        pre = []
        for k, v in d.items():
            if k.endswith("_p") or k.endswith("_r") or k.endswith("_d") or k == "o_reset":
                pre += [v >= 0, v <= 1]
            else:
                pre += [v >= 0, v <= 100]
        # distinct keys among present slots; room for the insertions the step may need
        for a in range(TN):
            for a2 in range(a + 1, TN):
                pre.append(z3.Implies(z3.And(d["n%d_p" % a] == 1, d["n%d_p" % a2] == 1), d["n%d_k" % a] != d["n%d_k" % a2]))
            for b in range(TP):
                for b2 in range(b + 1, TP):
                    pre.append(z3.Implies(z3.And(d["n%dp%d_p" % (a, b)] == 1, d["n%dp%d_p" % (a, b2)] == 1),
                                          d["n%dp%d_k" % (a, b)] != d["n%dp%d_k" % (a, b2)]))
                for c in range(TL):
                    for c2 in range(c + 1, TL):
                        pre.append(z3.Implies(z3.And(d["n%dp%dl%d_p" % (a, b, c)] == 1, d["n%dp%dl%d_p" % (a, b, c2)] == 1),
                                              d["n%dp%dl%d_k" % (a, b, c)] != d["n%dp%dl%d_k" % (a, b, c2)]))
                pre.append(z3.Sum([d["n%dp%dl%d_p" % (a, b, c)] for c in range(TL)]) <= TL - OL)
            pre.append(z3.Sum([d["n%dp%d_p" % (a, b)] for b in range(TP)]) < TP)
        pre.append(z3.Sum([d["n%d_p" % a] for a in range(TN)]) < TN)
        for e in range(OL):
            for e2 in range(e + 1, OL):
                pre.append(d["o%d_k" % e] != d["o%d_k" % e2])
        return d, pre

    # ---- values
    def _this_v(self, d):
        nodes = []
        for a in range(TN):
            parts = []
            for b in range(TP):
                delta, reset = [], []
                for c in range(TL):
                    pres = BoolV(d["n%dp%dl%d_p" % (a, b, c)] == 1)
                    k = _sortkey(d["n%dp%dl%d_k" % (a, b, c)])
                    delta.append(StructV("Slot", [k, _dbupdate(d["n%dp%dl%d_d" % (a, b, c)], d["n%dp%dl%d_v" % (a, b, c)]), pres]))
                    reset.append(StructV("Slot", [k, IntV(d["n%dp%dl%d_v" % (a, b, c)], "u8"), pres]))
                pv = EnumV("StagingPartitionDatabaseUpdates", d["n%dp%d_r" % (a, b)],
                           {0: [StructV("SymMap<DbSortKey, DatabaseUpdate>", delta)],
                            1: [StructV("SymMap<DbSortKey, Vec<u8>>", reset)]})
                parts.append(StructV("Slot", [IntV(d["n%dp%d_k" % (a, b)], "u8"), pv, BoolV(d["n%dp%d_p" % (a, b)] == 1)]))
            nv = StructV("StagingNodeDatabaseUpdates", [StructV("SymMap<u8, StagingPartitionDatabaseUpdates>", parts)])
            nodes.append(StructV("Slot", [IntV(d["n%d_k" % a], "u8"), nv, BoolV(d["n%d_p" % a] == 1)]))
        return StructV("StagingDatabaseUpdates", [StructV("SymMap<Vec<u8>, StagingNodeDatabaseUpdates>", nodes)])

    def _other_v(self, d):
        delta = [StructV("(DbSortKey, DatabaseUpdate)", [_sortkey(d["o%d_k" % e]), _dbupdate(d["o%d_d" % e], d["o%d_v" % e])])
                 for e in range(OL)]
        reset = [StructV("(DbSortKey, Vec<u8>)", [_sortkey(d["o%d_k" % e]), IntV(d["o%d_v" % e], "u8")]) for e in range(OL)]
        pv = EnumV("PartitionDatabaseUpdates", d["o_reset"], {0: [StructV("IndexMap<DbSortKey, DatabaseUpdate>", delta)],
                                                         1: [StructV("IndexMap<DbSortKey, Vec<u8>>", reset)]})
        parts = StructV("IndexMap<u8, PartitionDatabaseUpdates>", [StructV("(u8, PartitionDatabaseUpdates)", [IntV(d["op"], "u8"), pv])])
        node = StructV("NodeDatabaseUpdates", [parts])
        return StructV("DatabaseUpdates", [StructV("IndexMap<Vec<u8>, NodeDatabaseUpdates>",
                                                    [StructV("(Vec<u8>, NodeDatabaseUpdates)", [IntV(d["on"], "u8"), node])])])

    def setup_path(self, path, inp):
        self._d = {k: lit(v) for k, v in inp.items()}
        path.frames["job"] = {"self": self._this_v(self._d)}

    def args(self, inp):
        d = {k: lit(v) for k, v in inp.items()}
        return [RefV("&mut StagingDatabaseUpdates", "job", "self", ()), self._other_v(d)]

    # ---- verdicts: (kind, value) with kind 0 = no statement (falls through to the database), 1 = Set(value), 2 = gone
    @staticmethod
    def _ite_pair(c, a, b):
        return (z3.If(c, a[0], b[0]), z3.If(c, a[1], b[1]))

    def _verdict_staging(self, v, qn, qp, qs):
        res = (z3.IntVal(0), z3.IntVal(0))
        for ns in v.fields[0].fields:
            node_hit = z3.And(ns.fields[2].term, ns.fields[0].term == qn)
            nres = (z3.IntVal(0), z3.IntVal(0))
            for ps in ns.fields[1].fields[0].fields:
                part_hit = z3.And(ps.fields[2].term, ps.fields[0].term == qp)
                pv = ps.fields[1]
                # Delta
                dres = (z3.IntVal(0), z3.IntVal(0))
                for ls in (pv.variants[0][0].fields if pv.variants.get(0) else []):
                    hit = z3.And(ls.fields[2].term, ls.fields[0].fields[0].term == qs)
                    upd = ls.fields[1]
                    val = upd.variants[0][0].term if upd.variants.get(0) and upd.variants[0] and upd.variants[0][0].kind == "int" else z3.IntVal(0)
                    dres = self._ite_pair(hit, (z3.If(upd.discr == 0, 1, 2), z3.If(upd.discr == 0, val, 0)), dres)
                rres = (z3.IntVal(2), z3.IntVal(0))
                for ls in (pv.variants[1][0].fields if pv.variants.get(1) else []):
                    hit = z3.And(ls.fields[2].term, ls.fields[0].fields[0].term == qs)
                    rres = self._ite_pair(hit, (z3.IntVal(1), ls.fields[1].term), rres)
                nres = self._ite_pair(part_hit, self._ite_pair(pv.discr == 0, dres, rres), nres)
            res = self._ite_pair(node_hit, nres, res)
        return res

    def _verdict_other(self, d, qn, qp, qs):
        hit_part = z3.And(d["on"] == qn, d["op"] == qp)
        dres = (z3.IntVal(0), z3.IntVal(0))
        rres = (z3.IntVal(2), z3.IntVal(0))
        for e in range(OL):
            hit = d["o%d_k" % e] == qs
            dres = self._ite_pair(hit, (z3.If(d["o%d_d" % e] == 0, 1, 2), z3.If(d["o%d_d" % e] == 0, d["o%d_v" % e], 0)), dres)
            rres = self._ite_pair(hit, (z3.IntVal(1), d["o%d_v" % e]), rres)
        return self._ite_pair(hit_part, self._ite_pair(d["o_reset"] == 0, dres, rres), (z3.IntVal(0), z3.IntVal(0)))

    def _expected(self, d):
        vo = self._verdict_other(d, d["qn"], d["qp"], d["qs"])
        vt = self._verdict_staging(self._this_v(d), d["qn"], d["qp"], d["qs"])
        return self._ite_pair(vo[0] != 0, vo, vt)

    def extract_outcome(self, o):
        d = self._d
        k, v = self._verdict_staging(o.path.frames["job"]["self"], d["qn"], d["qp"], d["qs"])
        return {"vk": k, "vv": v}

    def native(self, nat, vals):
        toks = ["ROOT", vals["qn"], vals["qp"], vals["qs"], 200, "COMMIT"]
        for a in range(TN):
            if int(vals["n%d_p" % a]) != 1:
                continue
            for b in range(TP):
                if int(vals["n%dp%d_p" % (a, b)]) != 1:
                    continue
                ents = [c for c in range(TL) if int(vals["n%dp%dl%d_p" % (a, b, c)]) == 1]
                if int(vals["n%dp%d_r" % (a, b)]) == 0:
                    toks += ["D", vals["n%d_k" % a], vals["n%dp%d_k" % (a, b)], len(ents)]
                    for c in ents:
                        if int(vals["n%dp%dl%d_d" % (a, b, c)]) == 0:
                            toks += [vals["n%dp%dl%d_k" % (a, b, c)], "S", vals["n%dp%dl%d_v" % (a, b, c)]]
                        else:
                            toks += [vals["n%dp%dl%d_k" % (a, b, c)], "X"]
                else:
                    toks += ["R", vals["n%d_k" % a], vals["n%dp%d_k" % (a, b)], len(ents)]
                    for c in ents:
                        toks += [vals["n%dp%dl%d_k" % (a, b, c)], vals["n%dp%dl%d_v" % (a, b, c)]]
        toks += ["END", "COMMIT"]
        if int(vals["o_reset"]) == 0:
            toks += ["D", vals["on"], vals["op"], OL]
            for e in range(OL):
                toks += [vals["o%d_k" % e]] + (["S", vals["o%d_v" % e]] if int(vals["o%d_d" % e]) == 0 else ["X"])
        else:
            toks += ["R", vals["on"], vals["op"], OL]
            for e in range(OL):
                toks += [vals["o%d_k" % e], vals["o%d_v" % e]]
        toks += ["END", "GET", vals["qn"], vals["qp"], vals["qs"]]
        t = nat.call("overlay_run", *toks).split()
        if t[0] == "panic":
            return {"panic": True, "msg": " ".join(t[1:])}
        got = t[-1]
        if got == "none":
            return {"panic": False, "vk": 2, "vv": 0}
        if got == "200":
            return {"panic": False, "vk": 0, "vv": 0}
        return {"panic": False, "vk": 1, "vv": int(got)}

    def post(self, inp, res):
        d = {k: lit(v) for k, v in inp.items()}
        ek, ev = self._expected(d)
        return [("the merged staging answers the query like the incoming commit applied on top of the staged state",
                 z3.And(lit(res["vk"]) == ek, z3.Implies(ek == 1, lit(res["vv"]) == ev)))]

    def covers(self, inp, res):
        d = {k: lit(v) for k, v in inp.items()}
        hit = []
        for a in range(TN):
            for b in range(TP):
                hit.append((z3.And(d["n%d_p" % a] == 1, d["n%d_k" % a] == d["on"], d["n%dp%d_p" % (a, b)] == 1,
                                   d["n%dp%d_k" % (a, b)] == d["op"]), d["n%dp%d_r" % (a, b)]))
        same_part = z3.Or([h for h, _ in hit])
        staged_reset = z3.Or([z3.And(h, r == 1) for h, r in hit])
        node_known = z3.Or([z3.And(d["n%d_p" % a] == 1, d["n%d_k" % a] == d["on"]) for a in range(TN)])
        vt = self._verdict_staging(self._this_v(d), d["qn"], d["qp"], d["qs"])
        return [("delta over delta", z3.And(same_part, z3.Not(staged_reset), d["o_reset"] == 0)),
                ("delta over reset", z3.And(staged_reset, d["o_reset"] == 0)),
                ("reset over anything", z3.And(same_part, d["o_reset"] == 1)),
                ("new partition", z3.And(node_known, z3.Not(same_part))), ("new node", z3.Not(node_known)),
                ("delete hides a staged value", z3.And(vt[0] == 1, lit(res["vk"]) == 2))]

    def vectors(self, rng):
        out = []
        names = self._names()
        for _ in range(40):
            d = {k: 0 for k in names}
            keys = [1, 2, 3]
            for a in range(TN - 1):
                d["n%d_p" % a] = rng.randrange(2)
                d["n%d_k" % a] = rng.choice([7, 8])
                for b in range(TP - 1):
                    d["n%dp%d_p" % (a, b)] = rng.randrange(2)
                    d["n%dp%d_k" % (a, b)] = rng.choice([0, 1])
                    d["n%dp%d_r" % (a, b)] = rng.randrange(2)
                    ks = rng.sample(keys, TL - OL)
                    for c in range(TL - OL):
                        d["n%dp%dl%d_p" % (a, b, c)] = rng.randrange(2)
                        d["n%dp%dl%d_k" % (a, b, c)] = ks[c]
                        d["n%dp%dl%d_d" % (a, b, c)] = rng.randrange(2)
                        d["n%dp%dl%d_v" % (a, b, c)] = rng.randrange(1, 90)
            d["on"], d["op"], d["o_reset"] = rng.choice([7, 8]), rng.choice([0, 1]), rng.randrange(2)
            ks = rng.sample(keys, OL)
            for e in range(OL):
                d["o%d_k" % e], d["o%d_d" % e], d["o%d_v" % e] = ks[e], rng.randrange(2), rng.randrange(1, 90)
            d["qn"], d["qp"], d["qs"] = rng.choice([7, 8]), rng.choice([0, 1]), rng.choice(keys)
            # distinct keys within unused slots as well (the precondition only constrains present ones)
            out.append(d)
        return out


JOBS.setdefault("C14", [])
JOBS["C14"] += [MergeUpdates()]


# =====================================================================================================
# C03: the non-fungible container (id sets): take_by_ids / put / take_all conserve the ids
# =====================================================================================================
NFC = 4        # slot capacity of the container's id set


def _nfid(t):
    return StructV("NonFungibleLocalId", [IntV(t, "u64")])


class NfContainer(Job):
    crate = "radix-engine-interface"
    replay_crate = "radix-engine"
    query_timeout_s = 60
    case_keys = ("k",)
    env_overrides = [(re.compile(r"^<NonFungibleLocalId as Clone>::clone$"), _models.m_clone)]

    def __init__(self, op):
        self.op = op
        self.name = "c03m::liquid_non_fungible_" + op
        self.what = {
            "take_by_ids": "LiquidNonFungibleResource::take_by_ids from an arbitrary container (<= %d ids, symbolic) with a "
                           "request of k = 0..3 distinct symbolic ids: Ok exactly when every requested id is held; then "
                           "the container loses exactly the requested ids and the result holds exactly them (ids are "
                           "neither created nor destroyed); otherwise MissingNonFungibleLocalId" % NFC,
            "put": "LiquidNonFungibleResource::put of k = 0..2 ids into an arbitrary container: the container afterwards "
                   "holds exactly the union",
            "take_all": "LiquidNonFungibleResource::take_all: the result holds exactly the former content and the "
                        "container is empty",
        }[op]
        self.cover_labels = {"take_by_ids": ["ok", "missing", "take everything"], "put": ["new id", "duplicate id"],
                             "take_all": ["non-empty"]}[op]

    def cases(self, tier):
        return [{"k": k} for k in {"take_by_ids": (0, 1, 2, 3), "put": (0, 1, 2), "take_all": (0,)}[self.op]]

    def locate(self, prog):
        return find_function(prog, "blueprints/resource/resource.rs", self.op,
                             param_types={"take_by_ids": ["&mut LiquidNonFungibleResource", "&IndexSet<NonFungibleLocalId>"],
                                          "put": ["&mut LiquidNonFungibleResource", "LiquidNonFungibleResource"],
                                          "take_all": ["&mut LiquidNonFungibleResource"]}[self.op])

    def inputs(self):
        k = self.case["k"]
        d, pre = {}, []
        for i in range(NFC):
            d["c%d_p" % i], d["c%d_id" % i] = z3.Int("c%d_p" % i), z3.Int("c%d_id" % i)
            pre += [d["c%d_p" % i] >= 0, d["c%d_p" % i] <= 1, d["c%d_id" % i] >= 0, d["c%d_id" % i] <= 1000]
            for j in range(i):
                pre.append(z3.Implies(z3.And(d["c%d_p" % i] == 1, d["c%d_p" % j] == 1), d["c%d_id" % i] != d["c%d_id" % j]))
        for e in range(k):
            d["a%d" % e] = z3.Int("a%d" % e)
            pre += [d["a%d" % e] >= 0, d["a%d" % e] <= 1000]
            for j in range(e):
                pre.append(d["a%d" % e] != d["a%d" % j])
        if self.op == "put":
            pre.append(z3.Sum([d["c%d_p" % i] for i in range(NFC)]) <= NFC - k)
        return d, pre

    def _container(self, d):
        slots = [StructV("Slot", [_nfid(lit(d["c%d_id" % i])), UnitV(), BoolV(lit(d["c%d_p" % i]) == 1)]) for i in range(NFC)]
        return StructV("LiquidNonFungibleResource", [StructV("SymMap<NonFungibleLocalId, ()>", slots)])

    def setup_path(self, path, inp):
        self._d = {k: lit(v) for k, v in inp.items()}
        path.frames["job"] = {"self": self._container(self._d)}

    def args(self, inp):
        k = self.case["k"]
        me = RefV("&mut LiquidNonFungibleResource", "job", "self", ())
        ids = StructV("IndexSet<NonFungibleLocalId>", [_nfid(lit(inp["a%d" % e])) for e in range(k)])
        if self.op == "take_by_ids":
            return [me, const_ref("&IndexSet<NonFungibleLocalId>", ids)]
        if self.op == "put":
            return [me, StructV("LiquidNonFungibleResource", [ids])]
        return [me]

    @staticmethod
    def _held(setv, t):
        """membership of id term t in a slot-array set or an entry-list set"""
        if setv.ty.startswith("SymMap"):
            return z3.Or([z3.And(s.fields[2].term, s.fields[0].fields[0].term == t) for s in setv.fields]) \
                if setv.fields else z3.BoolVal(False)
        return z3.Or([e.fields[0].term == t for e in setv.fields]) if setv.fields else z3.BoolVal(False)

    def extract_outcome(self, o):
        # membership of a probe id q in the final container and in the returned container
        q = z3.Int("q")
        final = o.path.frames["job"]["self"].fields[0]
        d = {"in_final": self._held(final, q)}
        v = o.value
        if self.op == "take_by_ids":
            d["ok"] = v.discr == 0
            rs = v.variants[0][0].fields[0] if v.variants.get(0) and v.variants[0][0].kind == "struct" else None
            d["in_result"] = self._held(rs, q) if rs is not None else z3.BoolVal(False)
        elif self.op == "take_all":
            d["ok"] = z3.BoolVal(True)
            d["in_result"] = self._held(v.fields[0], q)
        else:
            d["ok"] = v.discr == 0 if v.kind == "enum" else z3.BoolVal(True)
            d["in_result"] = z3.BoolVal(False)
        return d

    def _pre_sets(self, d):
        q = z3.Int("q")
        held = z3.Or([z3.And(d["c%d_p" % i] == 1, d["c%d_id" % i] == q) for i in range(NFC)])
        k = self.case["k"]
        asked = z3.Or([d["a%d" % e] == q for e in range(k)]) if k else z3.BoolVal(False)
        return q, held, asked

    def post(self, inp, res):
        d = {k: lit(v) for k, v in inp.items()}
        q, held, asked = self._pre_sets(d)
        if "in_final" not in res:
            # native scenario result: evaluated by native_failed
            return []
        ok, inf, inr = lit(res["ok"]), lit(res["in_final"]), lit(res["in_result"])
        k = self.case["k"]
        if self.op == "take_by_ids":
            all_held = z3.And([z3.Or([z3.And(d["c%d_p" % i] == 1, d["c%d_id" % i] == d["a%d" % e]) for i in range(NFC)])
                               for e in range(k)]) if k else z3.BoolVal(True)
            return [("succeeds exactly when every requested id is held", ok == all_held),
                    ("on success the container keeps exactly the ids that were not requested (for every id q)",
                     z3.Implies(ok, inf == z3.And(held, z3.Not(asked)))),
                    ("on success the result holds exactly the requested ids (for every id q)", z3.Implies(ok, inr == asked))]
        if self.op == "put":
            return [("put succeeds", ok), ("the container holds exactly the union (for every id q)", inf == z3.Or(held, asked))]
        return [("the result holds exactly the former content (for every id q)", inr == held),
                ("the container is empty afterwards", z3.Not(inf))]

    def covers(self, inp, res):
        d = {k: lit(v) for k, v in inp.items()}
        if "in_final" not in res:
            return []
        n = z3.Sum([d["c%d_p" % i] for i in range(NFC)])
        k = self.case["k"]
        if self.op == "take_by_ids":
            return [("ok", z3.And(lit(res["ok"]), k > 0)), ("missing", z3.Not(lit(res["ok"]))),
                    ("take everything", z3.And(lit(res["ok"]), n == k, k > 0))]
        if self.op == "put":
            q, held, asked = self._pre_sets(d)
            return [("new id", z3.And(asked, z3.Not(held))), ("duplicate id", z3.And(asked, held))]
        return [("non-empty", n > 0)]

    # native: the whole comparison is done on concrete sets
    def _native_sets(self, nat, vals):
        k = self.case["k"]
        held = [int(vals["c%d_id" % i]) for i in range(NFC) if int(vals["c%d_p" % i]) == 1]
        asked = [int(vals["a%d" % e]) for e in range(k)]
        op = {"take_by_ids": "take", "put": "put", "take_all": "takeall"}[self.op]
        t = nat.call("nf_run", op, len(held), *(held + [len(asked)] + asked))
        return held, asked, t

    def native(self, nat, vals):
        held, asked, t = self._native_sets(nat, vals)
        if t.startswith("panic"):
            return {"panic": True, "msg": t[6:]}
        return {"panic": False, "ok": t.split()[1] == "ok"}

    def native_failed(self, nat, vals, label):
        held, asked, t = self._native_sets(nat, vals)
        if t.startswith("panic"):
            return {"panic": True}, ["native panic: " + t]
        toks = t.split()
        failed = []

        def parse(s):
            s = s.strip("[]")
            return sorted(int(x) for x in s.split(",") if x)
        if self.op == "take_by_ids":
            want_ok = all(a in held for a in asked)
            if (toks[1] == "ok") != want_ok:
                failed.append("take_by_ids(%s) from %s -> %s" % (asked, held, " ".join(toks[1:])))
            elif toks[1] == "ok":
                rem, got = parse(toks[2]), parse(toks[3])
                if rem != sorted(set(held) - set(asked)) or got != sorted(asked):
                    failed.append("take_by_ids(%s) from %s left %s and returned %s" % (asked, held, rem, got))
        elif self.op == "put":
            rem = parse(toks[2])
            if rem != sorted(set(held) | set(asked)):
                failed.append("put(%s) into %s gives %s" % (asked, held, rem))
        else:
            rem, got = parse(toks[2]), parse(toks[3])
            if rem or got != sorted(held):
                failed.append("take_all from %s left %s and returned %s" % (held, rem, got))
        return {"native": " ".join(toks[1:])}, failed

    def vectors(self, rng):
        out = []
        for _ in range(30):
            k = rng.choice([c["k"] for c in self.cases("quick")])
            ids = rng.sample(range(1, 12), NFC)
            d = {"k": k}
            n_present = rng.randrange(0, NFC + 1 - (k if self.op == "put" else 0))
            for i in range(NFC):
                d["c%d_p" % i] = 1 if i < n_present else 0
                d["c%d_id" % i] = ids[i]
            pool = ids[:n_present] + [20, 21, 22]
            asked = rng.sample(pool, k) if rng.random() < 0.6 else rng.sample(ids[:n_present], min(k, n_present)) + [20, 21, 22][:max(0, k - n_present)]
            for e in range(k):
                d["a%d" % e] = asked[e]
            out.append(d)
        return out


JOBS.setdefault("C03", [])
JOBS["C03"] += [NfContainer("take_by_ids"), NfContainer("put"), NfContainer("take_all")]


def _vault_conservation_jobs():
    """the fungible vault's proof locking moves amounts between the liquid and the locked balance: the same two
    obligations that decide C10 also decide C03's conservation clause for it (registered under their own names)"""
    from mir_jobs_engine import VaultLock
    out = []
    for op in ("lock", "unlock"):
        j = VaultLock(op)
        j.name = "c03m::fungible_vault_%s_amount_conserves" % op
        out.append(j)
    return out


JOBS["C03"] += _vault_conservation_jobs()


# =====================================================================================================
# C12: TrackedSubstateValue -- the per-substate read / write state machine of the transaction state cache
# =====================================================================================================
def _isv(t):
    return StructV("IndexedScryptoValue", [IntV(t, "u64")])


def _rs(t):
    return StructV("RuntimeSubstate", [_isv(t)])


def _tsv(d):
    wr = lambda: EnumV("Write", d["wk"], {0: [_rs(d["a"])], 1: []})          # noqa: E731
    return EnumV("TrackedSubstateValue", d["tv"], {
        0: [_rs(d["a"])], 1: [EnumV("ReadOnly", d["ro"], {0: [], 1: [_rs(d["a"])]})], 2: [_isv(d["e"]), wr()],
        3: [_rs(d["a"])], 4: [wr()], 5: []})


def _val_of(v):
    """u64 term inside IndexedScryptoValue / RuntimeSubstate (0 when the payload is absent on this path)"""
    while v is not None and v.kind == "struct" and v.fields:
        v = v.fields[0]
    return v.term if v is not None and v.kind == "int" else z3.IntVal(0)


def _payload(e, k, i=0):
    vs = e.variants.get(k)
    return vs[i] if vs and len(vs) > i and vs[i].kind != "undef" else None


def _write_obs(w):
    if w is None or w.kind != "enum":
        return z3.BoolVal(False), z3.IntVal(0)
    return w.discr == 0, _val_of(_payload(w, 0))


def tsv_observe(s):
    """(cur_some, cur_val, rev_some, rev_val): what get() shows, and what revert_writes() would restore"""
    tv = s.discr
    ro = _payload(s, 1)
    ro_ex = (ro.discr == 1) if ro is not None and ro.kind == "enum" else z3.BoolVal(False)
    ro_val = _val_of(_payload(ro, 1)) if ro is not None and ro.kind == "enum" else z3.IntVal(0)
    w2s, w2v = _write_obs(_payload(s, 2, 1))
    w4s, w4v = _write_obs(_payload(s, 4))
    cur_some = z3.If(tv == 0, True, z3.If(tv == 1, ro_ex, z3.If(tv == 2, w2s, z3.If(tv == 3, True, z3.If(tv == 4, w4s, False)))))
    cur_val = z3.If(tv == 0, _val_of(_payload(s, 0)), z3.If(tv == 1, ro_val, z3.If(tv == 2, w2v, z3.If(
        tv == 3, _val_of(_payload(s, 3)), z3.If(tv == 4, w4v, 0)))))
    rev_some = z3.If(tv == 1, ro_ex, tv == 2)
    rev_val = z3.If(tv == 1, ro_val, z3.If(tv == 2, _val_of(_payload(s, 2, 0)), 0))
    return cur_some, z3.If(cur_some, cur_val, 0), rev_some, z3.If(rev_some, rev_val, 0)


class TrackedValueStep(Job):
    crate = "radix-engine"
    env_overrides = [(re.compile(r"^<IndexedScryptoValue as Clone>::clone$"), _models.m_clone)]

    def __init__(self, op):
        self.op = op
        self.name = "c12m::tracked_substate_value_" + op
        self.what = {
            "set": "TrackedSubstateValue::set from every state: the value is read back afterwards and the knowledge of what "
                   "the database held (restored by a revert) is kept",
            "take": "TrackedSubstateValue::take from every state: returns exactly what a read showed, a read shows nothing "
                    "afterwards, the database knowledge is kept",
            "revert_writes": "TrackedSubstateValue::revert_writes from every state: a read shows what the database held "
                             "(or nothing when that was never read: the entry becomes garbage)",
            "get": "TrackedSubstateValue::get from every state: shows the latest write, else the database value that was "
                   "read, else nothing",
        }[op]
        self.cover_labels = ["read-exist-and-write state", "write-only delete state",
                             "nothing visible afterwards" if op == "take" else "value visible afterwards"]

    def locate(self, prog):
        return find_function(prog, "track/state_updates.rs", self.op,
                             param_types={"set": ["&mut TrackedSubstateValue", "IndexedScryptoValue"],
                                          "take": ["&mut TrackedSubstateValue"], "revert_writes": ["&mut TrackedSubstateValue"],
                                          "get": ["&TrackedSubstateValue"]}[self.op])

    def inputs(self):
        d = {k: z3.Int(k) for k in ("tv", "ro", "wk", "a", "e", "v")}
        return d, [d["tv"] >= 0, d["tv"] <= 5, d["ro"] >= 0, d["ro"] <= 1, d["wk"] >= 0, d["wk"] <= 1,
                   d["a"] >= 1, d["a"] <= 1000, d["e"] >= 1, d["e"] <= 1000, d["v"] >= 1, d["v"] <= 1000]

    def setup_path(self, path, inp):
        self._d = {k: lit(v) for k, v in inp.items()}
        path.frames["job"] = {"self": _tsv(self._d)}

    def args(self, inp):
        me = RefV("&mut TrackedSubstateValue", "job", "self", ())
        if self.op == "set":
            return [me, _isv(lit(inp["v"]))]
        if self.op == "get":
            return [RefV("&TrackedSubstateValue", "job", "self", ())]
        return [me]

    def extract_outcome(self, o):
        cs, cv, rs_, rv = tsv_observe(o.path.frames["job"]["self"])
        d = {"cs": cs, "cv": cv, "rs": rs_, "rv": rv}
        if self.op in ("take", "get"):
            r = o.value
            d["ret_s"] = r.discr == 1
            p = _payload(r, 1)
            if p is not None and p.kind == "ref":
                p = _models.deref(None, o.path, p) if hasattr(p, "target") else self._deref(o, p)
            d["ret_v"] = z3.If(r.discr == 1, _val_of(p), 0)
        return d

    @staticmethod
    def _deref(o, ref):
        # a reference into the job frame: read it through a throw-away interpreter-free walk
        v = o.path.frames[ref.fid][ref.local]
        projs = list(ref.projs)
        while projs:
            p = projs.pop(0)
            if p[0] == "field":
                v = v.fields[p[1]]
            elif p[0] == "downcast":
                fp = projs.pop(0)
                idx = {"New": 0, "ReadOnly": 1, "ReadExistAndWrite": 2, "ReadNonExistAndWrite": 3, "WriteOnly": 4,
                       "Existent": 1, "Update": 0, "Some": 1}[p[1]]
                v = v.variants[idx][fp[1]]
        return v

    def native(self, nat, vals):
        op = {"set": "set", "take": "take", "revert_writes": "revert", "get": "get"}[self.op]
        t = nat.call("tsv", vals["tv"], vals["ro"], vals["wk"], vals["a"], vals["e"], op, vals["v"]).split()
        if t[0] == "panic":
            return {"panic": True, "msg": " ".join(t[1:])}

        def o(x):
            return (False, 0) if x in ("none", "-") else (True, int(x))
        r = {"panic": False}
        (r["cs"], r["cv"]), (r["rs"], r["rv"]) = o(t[2]), o(t[3])
        if self.op in ("take", "get"):
            r["ret_s"], r["ret_v"] = o(t[1])
        return r

    def post(self, inp, res):
        d = {k: lit(v) for k, v in inp.items()}
        r = {k: lit(v) for k, v in res.items() if not isinstance(v, str)}
        cs0, cv0, rs0, rv0 = tsv_observe(_tsv(d))
        keep_rev = ("the database knowledge (what a revert restores) is unchanged", z3.And(r["rs"] == rs0, r["rv"] == rv0))
        if self.op == "set":
            return [("the written value is read back", z3.And(r["cs"], r["cv"] == d["v"])), keep_rev]
        if self.op == "take":
            return [("take returns exactly what a read showed", z3.And(r["ret_s"] == cs0, r["ret_v"] == cv0)),
                    ("nothing is visible afterwards", z3.Not(r["cs"])), keep_rev]
        if self.op == "get":
            return [("get shows the current value", z3.And(r["ret_s"] == cs0, r["ret_v"] == cv0)),
                    ("get does not change the state", z3.And(r["cs"] == cs0, r["cv"] == cv0)), keep_rev]
        return [("after a revert a read shows what the database held, or nothing", z3.And(r["cs"] == rs0, r["cv"] == rv0)), keep_rev]

    def covers(self, inp, res):
        d = {k: lit(v) for k, v in inp.items()}
        return [("read-exist-and-write state", d["tv"] == 2), ("write-only delete state", z3.And(d["tv"] == 4, d["wk"] == 1)),
                ("nothing visible afterwards", z3.Not(lit(res["cs"]))) if self.op == "take" else
                ("value visible afterwards", lit(res["cs"]))]

    def vectors(self, rng):
        out = []
        for tv in range(6):
            for ro in (0, 1):
                for wk in (0, 1):
                    out.append({"tv": tv, "ro": ro, "wk": wk, "a": rng.randrange(1, 500), "e": rng.randrange(500, 1000),
                                "v": rng.randrange(1, 1000)})
        return out


JOBS.setdefault("C12", [])
JOBS["C12"] += [TrackedValueStep(op) for op in ("set", "take", "revert_writes", "get")]


# =====================================================================================================
# C40: the V2 access controller state machine -- one transition from an arbitrary state
# =====================================================================================================
AC_OPS = {
    0: ("create_proof", "transition", "AccessControllerCreateProofStateMachineInput"),
    1: ("initiate_recovery_as_primary", "transition_mut", "AccessControllerInitiateRecoveryAsPrimaryStateMachineInput"),
    2: ("initiate_recovery_as_recovery", "transition_mut", "AccessControllerInitiateRecoveryAsRecoveryStateMachineInput"),
    3: ("initiate_badge_withdraw_as_primary", "transition_mut", "AccessControllerInitiateBadgeWithdrawAttemptAsPrimaryStateMachineInput"),
    4: ("initiate_badge_withdraw_as_recovery", "transition_mut", "AccessControllerInitiateBadgeWithdrawAttemptAsRecoveryStateMachineInput"),
    5: ("quick_confirm_primary_recovery", "transition_mut", "AccessControllerQuickConfirmPrimaryRoleRecoveryProposalStateMachineInput"),
    6: ("quick_confirm_recovery_recovery", "transition_mut", "AccessControllerQuickConfirmRecoveryRoleRecoveryProposalStateMachineInput"),
    7: ("quick_confirm_primary_badge_withdraw", "transition_mut", "AccessControllerQuickConfirmPrimaryRoleBadgeWithdrawAttemptStateMachineInput"),
    8: ("quick_confirm_recovery_badge_withdraw", "transition_mut", "AccessControllerQuickConfirmRecoveryRoleBadgeWithdrawAttemptStateMachineInput"),
    9: ("timed_confirm_recovery", "transition_mut", "AccessControllerTimedConfirmRecoveryStateMachineInput"),
    10: ("cancel_primary_recovery", "transition_mut", "AccessControllerCancelPrimaryRoleRecoveryProposalStateMachineInput"),
    11: ("cancel_recovery_recovery", "transition_mut", "AccessControllerCancelRecoveryRoleRecoveryProposalStateMachineInput"),
    12: ("cancel_primary_badge_withdraw", "transition_mut", "AccessControllerCancelPrimaryRoleBadgeWithdrawAttemptStateMachineInput"),
    13: ("cancel_recovery_badge_withdraw", "transition_mut", "AccessControllerCancelRecoveryRoleBadgeWithdrawAttemptStateMachineInput"),
    14: ("lock_primary_role", "transition_mut", "AccessControllerLockPrimaryRoleStateMachineInput"),
    15: ("unlock_primary_role", "transition_mut", "AccessControllerUnlockPrimaryRoleStateMachineInput"),
    16: ("stop_timed_recovery", "transition_mut", "AccessControllerStopTimedRecoveryStateMachineInput"),
}
AC_WITH_PROPOSAL = {1: "proposal", 2: "proposal", 5: "proposal_to_confirm", 6: "proposal_to_confirm", 9: "proposal_to_confirm",
                    16: "proposal"}
AC_STATE = ["L", "pa", "pp", "pw", "ra", "rp", "rt", "rw"]


def _prop(t):
    return StructV("RecoveryProposal", [IntV(t, "u32")])


def ac_state_tuple(d):
    rr_state = EnumV("RecoveryRoleRecoveryState", z3.If(lit(d["ra"]) == 2, 1, 0),
                     {0: [_prop(d["rp"])], 1: [_prop(d["rp"]), StructV("Instant", [IntV(d["rt"], "i64")])]})
    return StructV("(PrimaryRoleLockingState, PrimaryRoleRecoveryAttemptState, PrimaryRoleBadgeWithdrawAttemptState, "
                   "RecoveryRoleRecoveryAttemptState, RecoveryRoleBadgeWithdrawAttemptState)", [
        EnumV("PrimaryRoleLockingState", d["L"], {0: [], 1: []}),
        EnumV("PrimaryRoleRecoveryAttemptState", d["pa"], {0: [], 1: [_prop(d["pp"])]}),
        EnumV("PrimaryRoleBadgeWithdrawAttemptState", d["pw"], {0: [], 1: []}),
        EnumV("RecoveryRoleRecoveryAttemptState", z3.If(lit(d["ra"]) == 0, 0, 1), {0: [], 1: [rr_state]}),
        EnumV("RecoveryRoleBadgeWithdrawAttemptState", d["rw"], {0: [], 1: []})])


def ac_read_state(sub):
    t = sub.fields[4].fields

    def pv(v):
        while v is not None and v.kind == "struct" and v.fields:
            v = v.fields[0]
        return v.term if v is not None and v.kind == "int" else z3.IntVal(0)
    pa = t[1]
    pp = pv(_payload(pa, 1))
    ra_e = t[3]
    rr = _payload(ra_e, 1)
    if rr is not None and rr.kind == "enum":
        timed = rr.discr == 1
        rp = z3.If(timed, pv(_payload(rr, 1, 0)), pv(_payload(rr, 0, 0)))
        rt = pv(_payload(rr, 1, 1))
        ra = z3.If(ra_e.discr == 0, 0, z3.If(timed, 2, 1))
    else:
        ra, rp, rt = z3.If(ra_e.discr == 0, 0, 1), z3.IntVal(0), z3.IntVal(0)
    return {"L": t[0].discr, "pa": pa.discr, "pp": z3.If(pa.discr == 1, pp, 0), "pw": t[2].discr, "ra": ra,
            "rp": z3.If(ra != 0, rp, 0), "rt": z3.If(ra == 2, rt, 0), "rw": t[4].discr}


class AccessControllerStep(Job):
    crate = "radix-engine"
    query_timeout_s = 60

    def __init__(self, op):
        self.op = op
        self.opname, self.fn_name, self.input_ty = AC_OPS[op]
        self.name = "c40m::access_controller_" + self.opname
        self.what = ("access controller V2 state machine, transition `%s`, from every state (locking, both recovery "
                     "attempts with arbitrary proposals, both badge-withdraw attempts, arbitrary timer) and every input "
                     "proposal / clock answer: it succeeds exactly under the documented guard, a failed call leaves the "
                     "state unchanged, and a successful one changes exactly the documented components" % self.opname)
        self.cover_labels = ["ok", "err"] if op not in (14, 15) else ["ok"]

    @property
    def env_overrides(self):
        def m_now(interp, path, args, ret_ty, callee):
            return EnumV(ret_ty, 0, {0: [StructV("Instant", [IntV(lit(self._d["now"]), "i64")])]})

        def m_cmp(interp, path, args, ret_ty, callee):
            return EnumV(ret_ty, 0, {0: [BoolV(lit(self._d["cmp"]) == 1)]})

        def m_true(interp, path, args, ret_ty, callee):
            return BoolV(True)

        def m_vault_ok(interp, path, args, ret_ty, callee):
            return EnumV(ret_ty, 0, {0: [StructV("OpaqueNode", [])]})

        def m_default_state(interp, path, args, ret_ty, callee):
            return ac_state_tuple({k: 0 for k in AC_STATE})

        def m_prop_eq(interp, path, args, ret_ty, callee):
            a, b = _models.deref(interp, path, args[0]), _models.deref(interp, path, args[1])
            return BoolV(_models.val_eq(a, b))
        return [(re.compile(r"Runtime::current_time::<"), m_now),
                (re.compile(r"Runtime::compare_against_current_time::<"), m_cmp),
                (re.compile(r"is_internal_fungible_vault$"), m_true),
                (re.compile(r"as Native(Fungible|NonFungible)?Vault>::(take_all|amount|create_proof_of_amount|"
                            r"non_fungible_local_ids|create_proof_of_non_fungibles)::<"), m_vault_ok),
                (re.compile(r"^<\(PrimaryRoleLockingState, .*\) as Default>::default$"), m_default_state),
                (re.compile(r"^<RecoveryProposal as PartialEq>::eq$"), m_prop_eq),
                (re.compile(r"^<RecoveryProposal as Clone>::clone$"), _models.m_clone)]

    def locate(self, prog):
        self_ty = "&AccessControllerV2Substate" if self.fn_name == "transition" else "&mut AccessControllerV2Substate"
        return find_function(prog, "access_controller/v2/state_machine.rs", self.fn_name,
                             param_types=[self_ty, "&mut Y", self.input_ty])

    def inputs(self):
        d = {k: z3.Int(k) for k in AC_STATE + ["dsome", "delay", "ip", "now", "cmp"]}
        pre = [d["L"] >= 0, d["L"] <= 1, d["pa"] >= 0, d["pa"] <= 1, d["pw"] >= 0, d["pw"] <= 1, d["ra"] >= 0, d["ra"] <= 2,
               d["rw"] >= 0, d["rw"] <= 1, d["pp"] >= 1, d["pp"] <= 1000, d["rp"] >= 1, d["rp"] <= 1000, d["ip"] >= 1,
               d["ip"] <= 1000, d["rt"] >= -(1 << 62), d["rt"] <= (1 << 62), d["now"] >= -(1 << 62), d["now"] <= (1 << 62),
               d["dsome"] >= 0, d["dsome"] <= 1, d["delay"] >= 0, d["delay"] < (1 << 32), d["cmp"] >= 0, d["cmp"] <= 1]
        return d, pre

    def setup_path(self, path, inp):
        d = {k: lit(v) for k, v in inp.items()}
        self._d = d
        sub = StructV("AccessControllerV2Substate", [
            StructV("Vault", [StructV("Own", [StructV("NodeId", [IntV(3, "u8")])])]), EnumV("Option<Vault>", 0, {0: []}),
            EnumV("Option<u32>", d["dsome"], {0: [], 1: [IntV(d["delay"], "u32")]}), StructV("ResourceAddress", [IntV(1, "u8")]),
            ac_state_tuple(d)])
        path.frames["job"] = {"self": sub, "api": StructV("Api", [])}

    def args(self, inp):
        me = RefV("&AccessControllerV2Substate" if self.fn_name == "transition" else "&mut AccessControllerV2Substate",
                  "job", "self", ())
        api = RefV("&mut Y", "job", "api", ())
        if self.op in AC_WITH_PROPOSAL:
            inp_v = StructV(self.input_ty, [_prop(lit(inp["ip"]))])
        else:
            inp_v = StructV(self.input_ty, [])
        return [me, api, inp_v]

    def extract_outcome(self, o):
        d = ac_read_state(o.path.frames["job"]["self"])
        v = o.value
        d["ok"] = v.discr == 0
        ret = _payload(v, 0)
        if ret is not None and ret.kind == "struct" and ret.ty == "RecoveryProposal":
            d["ret"] = z3.If(v.discr == 0, ret.fields[0].term, 0)
        else:
            d["ret"] = z3.IntVal(0)
        return d

    def native(self, nat, vals):
        t = nat.call("ac_run", vals["L"], vals["pa"], vals["pp"], vals["pw"], vals["ra"], vals["rp"], vals["rt"], vals["rw"],
                     vals["dsome"], vals["delay"], self.op, vals["ip"], vals["now"], vals["cmp"]).split()
        if t[0] == "panic":
            return {"panic": True, "msg": " ".join(t[1:])}
        r = {"panic": False, "ok": t[0] == "ok", "ret": 0 if t[1] == "-" else int(t[1])}
        for k, x in zip(AC_STATE, t[2:]):
            r[k] = int(x)
        return r

    def post(self, inp, res):
        d = {k: lit(v) for k, v in inp.items()}
        r = {k: lit(v) for k, v in res.items() if not isinstance(v, str)}
        # the state components are only meaningful where the enum says so
        pre = {"L": d["L"], "pa": d["pa"], "pp": z3.If(d["pa"] == 1, d["pp"], 0), "pw": d["pw"], "ra": d["ra"],
               "rp": z3.If(d["ra"] != 0, d["rp"], 0), "rt": z3.If(d["ra"] == 2, d["rt"], 0), "rw": d["rw"]}

        def same(keys=AC_STATE):
            return z3.And([r[k] == pre[k] for k in keys])

        def others_same(changed):
            return same([k for k in AC_STATE if k not in changed])
        default = z3.And([r[k] == 0 for k in AC_STATE])
        ok, op = r["ok"], self.op
        add_ok = z3.And(d["now"] + d["delay"] * 60 <= (1 << 63) - 1)
        guard = {
            0: d["L"] == 0, 1: d["pa"] == 0, 2: z3.And(d["ra"] == 0, z3.Implies(d["dsome"] == 1, add_ok)), 3: d["pw"] == 0,
            4: d["rw"] == 0, 5: z3.And(d["pa"] == 1, d["pp"] == d["ip"]), 6: z3.And(d["ra"] != 0, d["rp"] == d["ip"]),
            7: d["pw"] == 1, 8: d["rw"] == 1, 9: z3.And(d["ra"] == 2, d["rp"] == d["ip"], d["cmp"] == 1), 10: d["pa"] == 1,
            11: d["ra"] != 0, 12: d["pw"] == 1, 13: d["rw"] == 1, 14: z3.BoolVal(True), 15: z3.BoolVal(True),
            16: z3.And(d["ra"] == 2, d["rp"] == d["ip"])}[op]
        effect = {
            0: same(),
            1: z3.And(r["pa"] == 1, r["pp"] == d["ip"], others_same(["pa", "pp"])),
            2: z3.And(z3.If(d["dsome"] == 1, z3.And(r["ra"] == 2, r["rt"] == d["now"] + d["delay"] * 60), r["ra"] == 1),
                      r["rp"] == d["ip"], others_same(["ra", "rp", "rt"])),
            3: z3.And(r["pw"] == 1, others_same(["pw"])), 4: z3.And(r["rw"] == 1, others_same(["rw"])),
            5: z3.And(default, r["ret"] == d["pp"]), 6: z3.And(default, r["ret"] == d["rp"]), 7: default, 8: default,
            9: z3.And(default, r["ret"] == d["rp"]),
            10: z3.And(r["pa"] == 0, others_same(["pa", "pp"])), 11: z3.And(r["ra"] == 0, others_same(["ra", "rp", "rt"])),
            12: z3.And(r["pw"] == 0, others_same(["pw"])), 13: z3.And(r["rw"] == 0, others_same(["rw"])),
            14: z3.And(r["L"] == 1, others_same(["L"])), 15: z3.And(r["L"] == 0, others_same(["L"])),
            16: z3.And(r["ra"] == 1, r["rp"] == d["rp"], others_same(["ra", "rt"]))}[op]
        return [("the transition succeeds exactly under its documented guard", ok == guard),
                ("a failed transition leaves the state unchanged", z3.Implies(z3.Not(ok), same())),
                ("a successful transition changes exactly the documented components", z3.Implies(ok, effect))]

    def covers(self, inp, res):
        ok = lit(res["ok"])
        return [("ok", ok)] + ([("err", z3.Not(ok))] if self.op not in (14, 15) else [])

    def vectors(self, rng):
        out = []
        for _ in range(40):
            pp, rp = rng.randrange(1, 5), rng.randrange(1, 5)
            out.append({"L": rng.randrange(2), "pa": rng.randrange(2), "pp": pp, "pw": rng.randrange(2), "ra": rng.randrange(3),
                        "rp": rp, "rt": rng.choice([0, 1600, -50]), "rw": rng.randrange(2), "dsome": rng.randrange(2),
                        "delay": rng.choice([0, 10, 4294967295]), "ip": rng.choice([pp, rp, 7]), "now": rng.choice([0, 1000, -7]),
                        "cmp": rng.randrange(2)})
        return out


JOBS["C40"] = [AccessControllerStep(op) for op in sorted(AC_OPS)]
