"""Engine-M job for C07: System::update_transaction_tracker (radix-engine/src/system/system_callback.rs), the commit-time
glue between the replay-protection ring (TransactionTrackerSubstateV1::{partition_for_expiry_epoch, advance}, executed from
their MIR) and the store: where the intent record is written, which partition is deleted when the ring advances and which
tracker state is persisted.  The Track and the SBOR (de)serialisation are environment stubs."""
import re as _re

import z3

from mir_engine import Job, find_function, lit
from mirsmt.values import BoolV, EnumV, IntV, StructV, UndefV, UnitV
from mirsmt import models as _models
from mir_jobs import JOBS

U64 = (1 << 64) - 1
TU = ["se", "sp", "lo", "hi", "epp", "nxt", "e", "succ"]


def _epoch(t):
    return StructV("Epoch", [IntV(t, "u64")])


class TrackerUpdate(Job):
    crate = "radix-engine"
    query_timeout_s = 120
    max_unroll = 6
    case_keys = ("kind",)

    def __init__(self):
        self.name = "c07m::update_transaction_tracker"
        self.what = ("System::update_transaction_tracker with one intent nullification (transaction intent or subintent, any "
                     "expiry epoch the tracker covers that is not before the next epoch) from an arbitrary tracker state, with "
                     "TransactionTrackerSubstateV1::{partition_for_expiry_epoch, advance} executed from their MIR: a "
                     "transaction intent is recorded on success and on failure, a subintent only on success; the record goes "
                     "to the partition the ring assigns to its expiry epoch with the matching status; the ring advances "
                     "exactly when the next epoch reaches the end of the first partition, the partition deleted is the old "
                     "first partition and never the one just written, and after the advance the persisted tracker still maps "
                     "the expiry epoch to the partition that holds the record")
        self.cover_labels = ["ring advances and a record is written", "no advance", "subintent of a failed transaction: no record",
                             "record wraps around the end of the partition range"]

    def cases(self, tier):
        return [{"kind": 0}, {"kind": 1}]

    def locate(self, prog):
        return find_function(prog, "system/system_callback.rs", "update_transaction_tracker", nparams=4)

    def inputs(self):
        d = {k: z3.Int(k) for k in TU}
        n = d["hi"] - d["lo"] + 1
        pre = [d["lo"] >= 0, d["hi"] <= 255, d["lo"] < d["hi"], n <= 255,   # the partition count is computed in u8
               d["sp"] >= d["lo"], d["sp"] <= d["hi"],
               d["epp"] >= 1, d["epp"] <= 1 << 40, d["se"] >= 0, d["se"] <= 1 << 62,
               d["nxt"] >= d["se"], d["nxt"] <= (1 << 62) + (1 << 50),
               # the expiry epoch is covered by the tracker (guaranteed by validation: `expect` in the code) and the
               # intent is still valid in the epoch that commits it (expiry > current epoch, i.e. >= next epoch)
               d["e"] >= d["se"], d["e"] < d["se"] + n * d["epp"], d["e"] >= d["nxt"],
               d["succ"] >= 0, d["succ"] <= 1]
        return d, pre

    def _tracker_v(self, d):
        return StructV("TransactionTrackerSubstateV1", [IntV(d["se"], "u64"), IntV(d["sp"], "u8"), IntV(d["lo"], "u8"),
                                                        IntV(d["hi"], "u8"), IntV(d["epp"], "u64")])

    @property
    def env_overrides(self):
        R = _re.compile

        def some(ret_ty, v):
            return EnumV(ret_ty, 1, {0: [], 1: [v]})

        def ok(ret_ty, v):
            return EnumV(ret_ty, 0, {0: [v]})

        def m_into_v1(interp, path, args, ret_ty, callee):
            return path.frames["job"]["tracker"]

        def m_from_typed(interp, path, args, ret_ty, callee):
            v = _models.deref(interp, path, args[0])
            tag = "isv_kv" if "KeyValueEntrySubstate<" in callee else "isv_field"
            return StructV(tag, [v])

        def m_set(interp, path, args, ret_ty, callee):
            job = path.frames["job"]
            val = args[4]
            if val.ty == "isv_kv":
                entry = val.fields[0]           # KeyValueEntrySubstate::V1(KeyValueEntrySubstateV1 { value, lock_status })
                v1 = entry.variants[0][0]
                status = v1.fields[0].variants[1][0].variants[0][0]      # Some(TransactionStatus::V1(status))
                job["records"] = IntV(job["records"].term + 1, "u32")
                job["rec_part"] = IntV(args[2].fields[0].term, "u8")
                job["rec_status"] = IntV(status.discr if not isinstance(status.discr, int) else z3.IntVal(status.discr), "u8")
            else:
                fs = val.fields[0]
                job["tracker_writes"] = IntV(job["tracker_writes"].term + 1, "u32")
                job["written"] = fs
            return ok(ret_ty, UnitV())

        def m_delete(interp, path, args, ret_ty, callee):
            job = path.frames["job"]
            job["deletes"] = IntV(job["deletes"].term + 1, "u32")
            job["del_part"] = IntV(args[2].fields[0].term, "u8")
            return UnitV()
        return [(R(r"ComponentAddress::(as|into)_node_id$"), lambda i, p, a, r, c: UndefV()),
                (R(r"^<TransactionTrackerField as Into<SubstateKey>>::into$"), lambda i, p, a, r, c: UndefV()),
                (R(r"CommitableSubstateStore>::read_substate$"), lambda i, p, a, r, c: some(r, UndefV())),
                (R(r"IndexedScryptoValue::as_typed::<"), lambda i, p, a, r, c: ok(r, UndefV())),
                (R(r"FieldSubstate::<.*>::into_payload$"), lambda i, p, a, r, c: UndefV()),
                (R(r"TransactionTrackerSubstate::into_v1$"), m_into_v1),
                (R(r"scrypto_encode::<"), lambda i, p, a, r, c: ok(r, UndefV())),
                (R(r"IndexedScryptoValue::from_typed::<"), m_from_typed),
                (R(r"FieldSubstate::<.*>::new_unlocked_field$"), lambda i, p, a, r, c: a[0]),
                (R(r"CommitableSubstateStore>::set_substate::<"), m_set),
                (R(r"CommitableSubstateStore>::delete_partition$"), m_delete)]

    def setup_path(self, path, inp):
        d = {k: lit(v) for k, v in inp.items()}
        path.frames["job"] = {"track": StructV("Track", []), "tracker": self._tracker_v(d),
                              "records": IntV(0, "u32"), "rec_part": IntV(0, "u8"), "rec_status": IntV(0, "u8"),
                              "deletes": IntV(0, "u32"), "del_part": IntV(0, "u8"), "tracker_writes": IntV(0, "u32"),
                              "written": UndefV()}

    def args(self, inp):
        from mirsmt.values import RefV
        d = {k: lit(v) for k, v in inp.items()}
        h = StructV("Hash", [UndefV()])
        if self.case["kind"] == 0:
            n = EnumV("IntentHashNullification", 0, {0: [StructV("TransactionIntentHash", [h]), _epoch(d["e"])]})
        else:
            n = EnumV("IntentHashNullification", 2, {2: [StructV("SubintentHash", [h]), _epoch(d["e"])]})
        return [RefV("&mut MappedTrack", "job", "track", ()), _epoch(d["nxt"]),
                StructV("Vec<IntentHashNullification>", [n]), BoolV(d["succ"] == 1)]

    def extract_outcome(self, o):
        job = o.path.frames["job"]
        w = job["written"]
        if isinstance(w, UndefV):
            nse, nsp = z3.IntVal(-1), z3.IntVal(-1)
        else:
            t = w.variants[0][0]           # TransactionTrackerSubstate::V1(tracker)
            nse, nsp = t.fields[0].term, t.fields[1].term
        ret = o.value
        retlen = len(ret.fields) if hasattr(ret, "fields") else -1
        return {"records": job["records"].term, "rec_part": job["rec_part"].term, "rec_status": job["rec_status"].term,
                "deletes": job["deletes"].term, "del_part": job["del_part"].term,
                "tracker_writes": job["tracker_writes"].term, "nse": nse, "nsp": nsp, "ret": z3.IntVal(retlen)}

    def native(self, nat, vals):
        t = nat.call("tracker_update", *([vals[k] for k in TU[:7]] + [self.case["kind"], vals["succ"]])).split()
        if t[0] != "ok":
            return {"panic": True}
        keys = ["records", "rec_part", "rec_status", "deletes", "del_part", "tracker_writes", "nse", "nsp", "ret"]
        r = {"panic": False}
        r.update({k: int(v) for k, v in zip(keys, t[1:])})
        return r

    @staticmethod
    def _part(lo, hi, sp, se, epp, e):
        n = hi - lo + 1
        return lo + ((sp - lo) + (e - se) / epp) % n

    def post(self, inp, res):
        d = {k: lit(v) for k, v in inp.items()}
        r = {k: lit(v) for k, v in res.items()}
        kind = self.case["kind"]
        recorded = z3.BoolVal(True) if kind == 0 else (d["succ"] == 1)
        adv = d["nxt"] >= d["se"] + d["epp"]
        wrote = r["records"] == 1
        nsp = z3.If(d["sp"] == d["hi"], d["lo"], d["sp"] + 1)
        p0 = self._part(d["lo"], d["hi"], d["sp"], d["se"], d["epp"], d["e"])
        return [
            ("a transaction intent is recorded on success and on failure, a subintent only on success (exactly one record)",
             z3.If(recorded, z3.And(wrote, r["ret"] == 1), z3.And(r["records"] == 0, r["ret"] == 0))),
            ("the record is written to the partition the ring assigns to its expiry epoch",
             z3.Implies(wrote, r["rec_part"] == p0)),
            ("the recorded status is CommittedSuccess exactly for a successful transaction, CommittedFailure otherwise",
             z3.Implies(wrote, r["rec_status"] == z3.If(d["succ"] == 1, 0, 1))),
            ("the ring advances (one partition deleted) exactly when the next epoch reaches the end of the first partition",
             r["deletes"] == z3.If(adv, 1, 0)),
            ("the deleted partition is the old first partition",
             z3.Implies(r["deletes"] == 1, r["del_part"] == d["sp"])),
            ("the partition that holds the record just written is not the one deleted",
             z3.Implies(z3.And(wrote, r["deletes"] == 1), r["del_part"] != r["rec_part"])),
            ("the tracker is persisted exactly once: advanced by one partition when the ring advances, unchanged otherwise",
             z3.And(r["tracker_writes"] == 1, r["nse"] == z3.If(adv, d["se"] + d["epp"], d["se"]),
                    r["nsp"] == z3.If(adv, nsp, d["sp"]))),
            ("the persisted tracker still maps the expiry epoch to the partition that holds the record",
             z3.Implies(wrote, self._part(d["lo"], d["hi"], r["nsp"], r["nse"], d["epp"], d["e"]) == r["rec_part"])),
        ]

    def covers(self, inp, res):
        d = {k: lit(v) for k, v in inp.items()}
        r = {k: lit(v) for k, v in res.items()}
        adv = d["nxt"] >= d["se"] + d["epp"]
        out = [("ring advances and a record is written", z3.And(adv, r["records"] == 1)),
               ("no advance", z3.Not(adv)),
               ("record wraps around the end of the partition range", z3.And(r["records"] == 1, r["rec_part"] < d["sp"]))]
        if self.case["kind"] == 1:
            out.append(("subintent of a failed transaction: no record", r["records"] == 0))
        return out

    def vectors(self, rng):
        out = []
        for _ in range(24):
            lo, hi = rng.choice([(1, 255), (1, 3), (0, 1), (10, 14)])
            n = hi - lo + 1
            epp = rng.choice([1, 2, 100])
            se = rng.choice([0, 1, 100, 5000])
            sp = rng.randrange(lo, hi + 1)
            nxt = se + rng.choice([0, 1, epp - 1, epp, epp + 1, 2 * epp])
            span = n * epp
            if nxt >= se + span:
                nxt = se + span - 1
            e = rng.randrange(nxt, se + span)
            out.append({"kind": rng.randrange(2), "se": se, "sp": sp, "lo": lo, "hi": hi, "epp": epp, "nxt": nxt, "e": e,
                        "succ": rng.randrange(2)})
        return out


JOBS.setdefault("C07", [])
JOBS["C07"].append(TrackerUpdate())
