"""Engine-M jobs for C37: manifest resource constraints (radix-common/src/data/manifest/model/
manifest_resource_assertion.rs) accept exactly the balances they describe."""
import re

import z3

from mir_engine import Job, find_function, lit
from mirsmt.values import IntV, BoolV, StructV, EnumV, UnitV
from mirsmt import models as _models
from mir_jobs import dec_v, const_ref, JOBS, I192_LO, I192_HI, E18

FILE = "manifest_resource_assertion.rs"


def _nfid(t):
    return StructV("NonFungibleLocalId", [IntV(t, "u64")])


def _idset(terms):
    return StructV("IndexSet<NonFungibleLocalId>", [_nfid(t) for t in terms])


def lower_v(k, v):
    return EnumV("LowerBound", k, {0: [], 1: [dec_v(v)]})


def upper_v(k, v):
    return EnumV("UpperBound", k, {0: [dec_v(v)], 1: []})


def general_v(lk, lv, uk, uv):
    return StructV("GeneralResourceConstraint", [_idset([]), lower_v(lk, lv), upper_v(uk, uv),
                                                 EnumV("AllowedIds", 1, {0: [_idset([])], 1: []})])


def constraint_v(d, set_terms):
    return EnumV("ManifestResourceConstraint", d["variant"], {
        0: [], 1: [dec_v(d["a"])], 2: [dec_v(d["a"])], 3: [_idset(set_terms)], 4: [_idset(set_terms)],
        5: [general_v(d["lk"], d["lv"], d["uk"], d["uv"])]})


BASE = ["variant", "a", "lk", "lv", "uk", "uv"]


def base_pre(d):
    pre = [d["variant"] >= 0, d["variant"] <= 5, d["lk"] >= 0, d["lk"] <= 1, d["uk"] >= 0, d["uk"] <= 1]
    for k in ("a", "lv", "uv"):
        pre += [d[k] >= I192_LO, d[k] <= I192_HI]
    return pre


ENV = [(re.compile(r"^<NonFungibleLocalId as Clone>::clone$"), _models.m_clone)]


def native_base(vals, set_ids):
    return [vals["variant"], vals["a"], vals["lk"], vals["lv"], vals["uk"], vals["uv"], len(set_ids)] + list(set_ids)


def parse_ok(s):
    t = s.split()
    if t[0] == "panic":
        return {"panic": True, "msg": " ".join(t[1:])}
    return {"panic": False, "ok": t[0] == "ok"}


class ValidateFungible(Job):
    env_overrides = ENV
    query_timeout_s = 60

    def __init__(self):
        self.name = "c37m::manifest_resource_constraint_validate_fungible"
        self.what = ("ManifestResourceConstraint::validate_fungible for every constraint form (non-zero, exact, at-least, "
                     "the two id-set forms, general with any lower / upper bound) and every non-negative amount: accepted "
                     "exactly when the amount satisfies the constraint's meaning (NonZero = > 0, Inclusive bounds "
                     "inclusive, Unbounded = no limit; id-set constraints never fit a fungible balance); no panic")
        self.cover_labels = ["accepted", "rejected", "general accepted at the lower bound", "general rejected above the upper bound"]

    def locate(self, prog):
        return find_function(prog, FILE, "validate_fungible", param_types=["ManifestResourceConstraint", "Decimal"])

    def inputs(self):
        d = {k: z3.Int(k) for k in BASE + ["amount"]}
        return d, base_pre(d) + [d["amount"] >= 0, d["amount"] <= I192_HI]

    def args(self, inp):
        d = {k: lit(v) for k, v in inp.items()}
        return [constraint_v(d, []), dec_v(d["amount"])]

    def extract(self, v):
        return {"ok": v.discr == 0}

    def native(self, nat, vals):
        return parse_ok(nat.call("mrc_fungible", *(native_base(vals, []) + [vals["amount"]])))

    @staticmethod
    def meaning(d, amount):
        lower_ok = z3.If(d["lk"] == 0, amount > 0, amount >= d["lv"])
        upper_ok = z3.If(d["uk"] == 0, amount <= d["uv"], True)
        return z3.If(d["variant"] == 0, amount > 0, z3.If(d["variant"] == 1, amount == d["a"], z3.If(
            d["variant"] == 2, amount >= d["a"], z3.If(d["variant"] == 5, z3.And(lower_ok, upper_ok), False))))

    def post(self, inp, res):
        d = {k: lit(v) for k, v in inp.items()}
        return [("accepted exactly when the amount satisfies the constraint's meaning",
                 lit(res["ok"]) == self.meaning(d, d["amount"]))]

    def covers(self, inp, res):
        d = {k: lit(v) for k, v in inp.items()}
        ok = lit(res["ok"])
        return [("accepted", ok), ("rejected", z3.Not(ok)),
                ("general accepted at the lower bound", z3.And(ok, d["variant"] == 5, d["lk"] == 1, d["amount"] == d["lv"], d["lv"] > 0)),
                ("general rejected above the upper bound", z3.And(z3.Not(ok), d["variant"] == 5, d["uk"] == 0, d["amount"] > d["uv"], d["uv"] >= 0))]

    def vectors(self, rng):
        out = []
        for _ in range(40):
            lv, uv, a = [rng.choice([0, 1, E18, 5 * E18, -E18, rng.randrange(0, 10 ** 25)]) for _ in range(3)]
            out.append({"variant": rng.randrange(6), "a": a, "lk": rng.randrange(2), "lv": lv, "uk": rng.randrange(2), "uv": uv,
                        "amount": rng.choice([0, 1, E18, 5 * E18, lv if lv >= 0 else 0, uv if uv >= 0 else 0, (uv + 1) if uv >= 0 else 3,
                                              a if a >= 0 else 0, rng.randrange(0, 10 ** 25)])})
        return out


class ValidFungible(Job):
    env_overrides = ENV
    query_timeout_s = 60

    def __init__(self):
        self.name = "c37m::manifest_resource_constraint_is_valid_for_fungible_use"
        self.what = ("ManifestResourceConstraint::is_valid_for_fungible_use for every constraint form: valid exactly when "
                     "the amounts / bounds are non-negative and the bounds overlap (lower's equivalent decimal <= upper's), "
                     "id-set forms are invalid; and a constraint declared valid is satisfiable (its lower bound's "
                     "equivalent amount meets the constraint's meaning)")
        self.cover_labels = ["valid", "invalid", "valid nonzero..unbounded"]

    def locate(self, prog):
        return find_function(prog, FILE, "is_valid_for_fungible_use", param_types=["&ManifestResourceConstraint"])

    def inputs(self):
        d = {k: z3.Int(k) for k in BASE}
        return d, base_pre(d)

    def args(self, inp):
        d = {k: lit(v) for k, v in inp.items()}
        return [const_ref("&ManifestResourceConstraint", constraint_v(d, []))]

    def extract(self, v):
        return {"val": z3.If(v.term, 1, 0)}

    def native(self, nat, vals):
        t = nat.call("mrc_valid_fungible", *native_base(vals, [])).split()
        if t[0] == "panic":
            return {"panic": True, "msg": " ".join(t[1:])}
        return {"panic": False, "val": int(t[1])}

    def post(self, inp, res):
        d = {k: lit(v) for k, v in inp.items()}
        lo_eq = z3.If(d["lk"] == 0, 1, d["lv"])
        up_eq = z3.If(d["uk"] == 0, d["uv"], I192_HI)
        gen_valid = z3.And(z3.Or(d["lk"] == 0, d["lv"] >= 0), z3.Or(d["uk"] == 1, d["uv"] >= 0), lo_eq <= up_eq)
        spec = z3.If(d["variant"] == 0, True, z3.If(z3.Or(d["variant"] == 1, d["variant"] == 2), d["a"] >= 0,
                                                    z3.If(d["variant"] == 5, gen_valid, False)))
        valid = lit(res["val"]) == 1
        witness = z3.If(d["variant"] == 0, 1, z3.If(d["variant"] == 5, lo_eq, d["a"]))
        return [("valid exactly when amounts / bounds are non-negative and the bounds overlap", valid == spec),
                ("a constraint declared valid is satisfiable", z3.Implies(valid, z3.And(
                    witness >= 0, ValidateFungible.meaning(d, witness))))]

    def covers(self, inp, res):
        d = {k: lit(v) for k, v in inp.items()}
        return [("valid", lit(res["val"]) == 1), ("invalid", lit(res["val"]) == 0),
                ("valid nonzero..unbounded", z3.And(lit(res["val"]) == 1, d["variant"] == 5, d["lk"] == 0, d["uk"] == 1))]

    def vectors(self, rng):
        out = []
        for _ in range(40):
            out.append({"variant": rng.randrange(6), "a": rng.choice([0, 1, -1, E18, rng.randrange(-10 ** 20, 10 ** 25)]),
                        "lk": rng.randrange(2), "lv": rng.choice([0, 1, -1, 5 * E18, rng.randrange(-10 ** 20, 10 ** 25)]),
                        "uk": rng.randrange(2), "uv": rng.choice([0, 1, -1, 5 * E18, rng.randrange(-10 ** 20, 10 ** 25)])})
        return out


class ValidateNonFungible(Job):
    env_overrides = ENV
    query_timeout_s = 60
    case_keys = ("ns", "ni")

    def __init__(self):
        self.name = "c37m::manifest_resource_constraint_validate_non_fungible"
        self.what = ("ManifestResourceConstraint::validate_non_fungible for the non-zero / exact amount / at-least amount / "
                     "exact id set / at-least id set forms, every constraint set of <= 2 and balance set of <= 3 distinct "
                     "symbolic ids: accepted exactly when the balance's id set satisfies the constraint's meaning (count "
                     "rules on |ids|, set equality, set inclusion); no panic")
        self.cover_labels = ["exact set accepted", "exact set rejected (extra id)", "at-least set accepted with extras",
                             "missing id rejected", "amount form accepted"]

    def cases(self, tier):
        return [{"ns": ns, "ni": ni} for ns in (0, 1, 2) for ni in (0, 1, 2, 3)]

    def locate(self, prog):
        return find_function(prog, FILE, "validate_non_fungible",
                             param_types=["ManifestResourceConstraint", "&IndexSet<NonFungibleLocalId>"])

    def inputs(self):
        d = {k: z3.Int(k) for k in ("variant", "a")}
        pre = [d["variant"] >= 0, d["variant"] <= 4, d["a"] >= I192_LO, d["a"] <= I192_HI]
        for pfx, n in (("s", self.case["ns"]), ("i", self.case["ni"])):
            for j in range(n):
                d["%s%d" % (pfx, j)] = z3.Int("%s%d" % (pfx, j))
                pre += [d["%s%d" % (pfx, j)] >= 0, d["%s%d" % (pfx, j)] <= 50]
                for j2 in range(j):
                    pre.append(d["%s%d" % (pfx, j)] != d["%s%d" % (pfx, j2)])
        return d, pre

    def _sets(self, d):
        return ([lit(d["s%d" % j]) for j in range(self.case["ns"])], [lit(d["i%d" % j]) for j in range(self.case["ni"])])

    def args(self, inp):
        d = {k: lit(v) for k, v in inp.items()}
        d.update({"lk": 0, "lv": 0, "uk": 1, "uv": 0})
        S, I = self._sets(d)
        return [constraint_v(d, S), const_ref("&IndexSet<NonFungibleLocalId>", _idset(I))]

    def extract(self, v):
        return {"ok": v.discr == 0}

    def native(self, nat, vals):
        S = [vals["s%d" % j] for j in range(self.case["ns"])]
        I = [vals["i%d" % j] for j in range(self.case["ni"])]
        v = dict(vals)
        v.update({"lk": 0, "lv": 0, "uk": 1, "uv": 0})
        return parse_ok(nat.call("mrc_nf", *(native_base(v, S) + [len(I)] + I)))

    def post(self, inp, res):
        d = {k: lit(v) for k, v in inp.items()}
        S, I = self._sets(d)
        n = len(I)
        subset = z3.And([z3.Or([s == i for i in I]) if I else z3.BoolVal(False) for s in S]) if S else z3.BoolVal(True)
        superset = z3.And([z3.Or([i == s for s in S]) if S else z3.BoolVal(False) for i in I]) if I else z3.BoolVal(True)
        spec = z3.If(d["variant"] == 0, n > 0, z3.If(d["variant"] == 1, d["a"] == n * E18, z3.If(
            d["variant"] == 2, n * E18 >= d["a"], z3.If(d["variant"] == 3, z3.And(subset, superset), subset))))
        return [("accepted exactly when the id set satisfies the constraint's meaning", lit(res["ok"]) == spec)]

    def covers(self, inp, res):
        d = {k: lit(v) for k, v in inp.items()}
        ok = lit(res["ok"])
        ns, ni = self.case["ns"], self.case["ni"]
        return [("exact set accepted", z3.And(ok, d["variant"] == 3, ns == 2)),
                ("exact set rejected (extra id)", z3.And(z3.Not(ok), d["variant"] == 3, ni > ns)),
                ("at-least set accepted with extras", z3.And(ok, d["variant"] == 4, ni > ns, ns > 0)),
                ("missing id rejected", z3.And(z3.Not(ok), d["variant"] == 4, ns > 0)),
                ("amount form accepted", z3.And(ok, d["variant"] == 1, ni > 0))]

    def vectors(self, rng):
        out = []
        for _ in range(40):
            ns, ni = rng.randrange(3), rng.randrange(4)
            pool = rng.sample(range(1, 9), 5)
            S = rng.sample(pool, ns)
            I = rng.sample(pool, ni) if rng.random() < 0.5 else (S + [x for x in pool if x not in S])[:ni]
            d = {"ns": ns, "ni": ni, "variant": rng.randrange(5), "a": rng.choice([0, ni * E18, E18, 2 * E18, E18 // 2])}
            for j in range(ns):
                d["s%d" % j] = S[j]
            for j in range(ni):
                d["i%d" % j] = I[j]
            out.append(d)
        return out


def general_sets_v(d, R, ak, A):
    return EnumV("ManifestResourceConstraint", 5, {5: [StructV("GeneralResourceConstraint", [
        _idset(R), lower_v(d["lk"], d["lv"]), upper_v(d["uk"], d["uv"]),
        EnumV("AllowedIds", ak, {0: [_idset(A)], 1: []})])]})


class _GeneralNf(Job):
    """Shared plumbing of the two jobs on General constraints with id sets. A case fixes the set sizes (nr required ids,
    allow-list kind ak: 0 = list of na ids / 1 = any, ni balance ids); ids and bounds are symbolic."""
    env_overrides = ENV
    query_timeout_s = 90

    def _ids(self, d, pfx, n):
        return [lit(d["%s%d" % (pfx, j)]) for j in range(n)]

    def _inputs(self, sets):
        d = {k: z3.Int(k) for k in ("lk", "lv", "uk", "uv")}
        pre = [d["lk"] >= 0, d["lk"] <= 1, d["uk"] >= 0, d["uk"] <= 1, d["lv"] >= I192_LO, d["lv"] <= I192_HI,
               d["uv"] >= I192_LO, d["uv"] <= I192_HI]
        for pfx, n in sets:
            for j in range(n):
                d["%s%d" % (pfx, j)] = z3.Int("%s%d" % (pfx, j))
                pre += [d["%s%d" % (pfx, j)] >= 0, d["%s%d" % (pfx, j)] <= 50]
                for j2 in range(j):
                    pre.append(d["%s%d" % (pfx, j)] != d["%s%d" % (pfx, j2)])
        return d, pre

    def _grc_args(self, vals):
        c = self.case
        R = [vals["r%d" % j] for j in range(c["nr"])]
        A = [vals["a%d" % j] for j in range(c["na"])]
        return [vals["lk"], vals["lv"], vals["uk"], vals["uv"], len(R)] + R + [c["ak"], len(A)] + A

    @staticmethod
    def _subset(X, Y):
        return z3.And([z3.Or([x == y for y in Y]) if Y else z3.BoolVal(False) for x in X]) if X else z3.BoolVal(True)

    def _rand_sets(self, rng, d, sets):
        pool = rng.sample(range(1, 12), 8)
        for pfx, n in sets:
            ids = rng.sample(pool[:5], n) if n <= 5 else pool[:n]
            for j in range(n):
                d["%s%d" % (pfx, j)] = ids[j]


class GeneralValidNonFungible(_GeneralNf):
    case_keys = ("nr", "ak", "na")

    def __init__(self):
        self.name = "c37m::general_resource_constraint_is_valid_for_non_fungible_use"
        self.what = ("ManifestResourceConstraint::is_valid_for_non_fungible_use on the General form with id sets (<= 2 "
                     "required ids, allow-list Any or <= 3 ids, any lower / upper bound): a constraint declared valid is "
                     "satisfiable by some set of ids (an integer count n with max(|required|, lower) <= n <= min(upper, "
                     "|allow-list|) exists and required is inside the allow-list); and valid exactly when both bounds are "
                     "non-negative whole numbers, lower <= upper, |required| <= upper, lower <= |allow-list| and required "
                     "is a subset of the allow-list")
        self.cover_labels = ["valid", "invalid", "valid with allow-list and required id"]

    def cases(self, tier):
        out = [{"nr": nr, "ak": 1, "na": 0} for nr in (0, 1, 2)]
        out += [{"nr": nr, "ak": 0, "na": na} for nr in (0, 1, 2) for na in (0, 1, 2, 3)]
        return out

    def locate(self, prog):
        return find_function(prog, FILE, "is_valid_for_non_fungible_use", param_types=["&ManifestResourceConstraint"])

    def inputs(self):
        return self._inputs((("r", self.case["nr"]), ("a", self.case["na"])))

    def args(self, inp):
        d = {k: lit(v) for k, v in inp.items()}
        return [const_ref("&ManifestResourceConstraint", general_sets_v(
            d, self._ids(d, "r", self.case["nr"]), self.case["ak"], self._ids(d, "a", self.case["na"])))]

    def extract(self, v):
        return {"val": z3.If(v.term, 1, 0)}

    def native(self, nat, vals):
        t = nat.call("grc_valid_nf", *self._grc_args(vals)).split()
        if t[0] == "panic":
            return {"panic": True, "msg": " ".join(t[1:])}
        return {"panic": False, "val": int(t[1])}

    def post(self, inp, res):
        d = {k: lit(v) for k, v in inp.items()}
        c = self.case
        R, A = self._ids(d, "r", c["nr"]), self._ids(d, "a", c["na"])
        valid = lit(res["val"]) == 1
        nr, na = c["nr"], c["na"]
        # smallest / largest whole id count the bounds admit (in ids, not attos)
        lo_n = z3.If(d["lk"] == 0, 1, z3.If(d["lv"] <= 0, 0, (d["lv"] + E18 - 1) / E18))
        n_min = z3.If(lo_n >= nr, lo_n, nr)
        up_n = z3.If(d["uk"] == 1, 10 ** 60, z3.If(d["uv"] < 0, -1, d["uv"] / E18))
        n_max = up_n if c["ak"] == 1 else z3.If(up_n <= na, up_n, na)
        sub = self._subset(R, A) if c["ak"] == 0 else z3.BoolVal(True)
        satisfiable = z3.And(n_min <= n_max, sub)
        whole = lambda k, v, unb: z3.Or(k == unb, z3.And(v >= 0, v % E18 == 0))
        lo_eq = z3.If(d["lk"] == 0, 1, d["lv"])
        up_eq = z3.If(d["uk"] == 0, d["uv"], I192_HI)
        spec = z3.And(whole(d["lk"], d["lv"], 0), whole(d["uk"], d["uv"], 1), lo_eq <= up_eq, nr * E18 <= up_eq, sub,
                      z3.BoolVal(True) if c["ak"] == 1 else lo_eq <= na * E18)
        return [("a constraint declared valid for non-fungible use is satisfiable by some id set", z3.Implies(valid, satisfiable)),
                ("valid exactly when the bounds are whole, overlap and are compatible with the id sets", valid == spec)]

    def covers(self, inp, res):
        c = self.case
        v = lit(res["val"]) == 1
        return [("valid", v), ("invalid", z3.Not(v)),
                ("valid with allow-list and required id", z3.And(v, c["ak"] == 0, c["nr"] > 0))]

    def vectors(self, rng):
        out = []
        for _ in range(40):
            c = rng.choice(self.cases("quick"))
            d = dict(c)
            d.update({"lk": rng.randrange(2), "lv": rng.choice([0, E18, 2 * E18, E18 // 2, -E18, 1]),
                      "uk": rng.randrange(2), "uv": rng.choice([0, E18, 2 * E18, 3 * E18, E18 // 2, 1, -E18])})
            pool = rng.sample(range(1, 12), 6)
            A = pool[:c["na"]]
            R = (A + pool[3:])[:c["nr"]] if rng.random() < 0.6 else rng.sample(pool, c["nr"])
            for j in range(c["nr"]):
                d["r%d" % j] = R[j]
            for j in range(c["na"]):
                d["a%d" % j] = A[j]
            out.append(d)
        return out


class GeneralValidateNonFungible(_GeneralNf):
    case_keys = ("nr", "ak", "na", "ni")

    def __init__(self):
        self.name = "c37m::general_resource_constraint_validate_non_fungible"
        self.what = ("ManifestResourceConstraint::validate_non_fungible on the General form with id sets (<= 2 required "
                     "ids, allow-list Any or <= 2 ids, balance of <= 3 ids, any bounds): accepted exactly when the count "
                     "lies within the bounds, every required id is present and (with an allow-list) every id is allowed")
        self.cover_labels = ["accepted", "rejected", "rejected: id outside allow-list", "rejected: required id missing"]

    def cases(self, tier):
        if tier == "quick":
            return [{"nr": nr, "ak": ak, "na": na, "ni": ni} for nr in (0, 1) for (ak, na) in ((1, 0), (0, 1), (0, 2))
                    for ni in (0, 1, 2)]
        return [{"nr": nr, "ak": ak, "na": na, "ni": ni} for nr in (0, 1, 2)
                for (ak, na) in ((1, 0), (0, 0), (0, 1), (0, 2)) for ni in (0, 1, 2, 3)]

    def locate(self, prog):
        return find_function(prog, FILE, "validate_non_fungible",
                             param_types=["ManifestResourceConstraint", "&IndexSet<NonFungibleLocalId>"])

    def inputs(self):
        c = self.case
        return self._inputs((("r", c["nr"]), ("a", c["na"]), ("i", c["ni"])))

    def args(self, inp):
        d = {k: lit(v) for k, v in inp.items()}
        c = self.case
        return [general_sets_v(d, self._ids(d, "r", c["nr"]), c["ak"], self._ids(d, "a", c["na"])),
                const_ref("&IndexSet<NonFungibleLocalId>", _idset(self._ids(d, "i", c["ni"])))]

    def extract(self, v):
        return {"ok": v.discr == 0}

    def native(self, nat, vals):
        I = [vals["i%d" % j] for j in range(self.case["ni"])]
        return parse_ok(nat.call("grc_nf", *(self._grc_args(vals) + [len(I)] + I)))

    def post(self, inp, res):
        d = {k: lit(v) for k, v in inp.items()}
        c = self.case
        R, A, I = self._ids(d, "r", c["nr"]), self._ids(d, "a", c["na"]), self._ids(d, "i", c["ni"])
        n = c["ni"]
        lower_ok = z3.If(d["lk"] == 0, z3.BoolVal(n > 0), d["lv"] <= n * E18)
        upper_ok = z3.If(d["uk"] == 1, True, n * E18 <= d["uv"])
        allowed = z3.BoolVal(True) if c["ak"] == 1 else self._subset(I, A)
        spec = z3.And(lower_ok, upper_ok, self._subset(R, I), allowed)
        return [("accepted exactly when count, required ids and allow-list are all satisfied", lit(res["ok"]) == spec)]

    def covers(self, inp, res):
        d = {k: lit(v) for k, v in inp.items()}
        c = self.case
        ok = lit(res["ok"])
        R, A, I = self._ids(d, "r", c["nr"]), self._ids(d, "a", c["na"]), self._ids(d, "i", c["ni"])
        n = c["ni"]
        in_bounds = z3.And(z3.If(d["lk"] == 0, z3.BoolVal(n > 0), d["lv"] <= n * E18), z3.If(d["uk"] == 1, True, n * E18 <= d["uv"]))
        return [("accepted", z3.And(ok, n > 0)), ("rejected", z3.Not(ok)),
                ("rejected: id outside allow-list", z3.And(z3.Not(ok), in_bounds, self._subset(R, I), c["ak"] == 0)),
                ("rejected: required id missing", z3.And(z3.Not(ok), in_bounds, c["nr"] > 0))]

    def vectors(self, rng):
        out = []
        for _ in range(40):
            c = rng.choice(self.cases("quick"))
            d = dict(c)
            d.update({"lk": rng.randrange(2), "lv": rng.choice([0, E18, 2 * E18, E18 // 2]),
                      "uk": rng.randrange(2), "uv": rng.choice([0, E18, 2 * E18, 3 * E18, E18 // 2])})
            pool = rng.sample(range(1, 12), 6)
            A = pool[:c["na"]]
            I = pool[:c["ni"]] if rng.random() < 0.6 else rng.sample(pool, c["ni"])
            R = I[:c["nr"]] if (rng.random() < 0.6 and len(I) >= c["nr"]) else rng.sample(pool, c["nr"])
            for pfx, ids in (("r", R), ("a", A), ("i", I)):
                for j, x in enumerate(ids):
                    d["%s%d" % (pfx, j)] = x
            out.append(d)
        return out


class ValidNonFungibleSimple(Job):
    env_overrides = ENV
    query_timeout_s = 60

    def __init__(self):
        self.name = "c37m::manifest_resource_constraint_is_valid_for_non_fungible_use"
        self.what = ("ManifestResourceConstraint::is_valid_for_non_fungible_use for the non-General forms: amount forms are "
                     "valid exactly when the amount is a non-negative whole number, the others always")
        self.cover_labels = ["valid amount", "fractional amount invalid"]

    def locate(self, prog):
        return find_function(prog, FILE, "is_valid_for_non_fungible_use", param_types=["&ManifestResourceConstraint"])

    def inputs(self):
        d = {k: z3.Int(k) for k in BASE}
        pre = base_pre(d) + [d["variant"] <= 4]
        return d, pre

    def args(self, inp):
        d = {k: lit(v) for k, v in inp.items()}
        return [const_ref("&ManifestResourceConstraint", constraint_v(d, []))]

    def extract(self, v):
        return {"val": z3.If(v.term, 1, 0)}

    def native(self, nat, vals):
        t = nat.call("mrc_valid_nf", *native_base(vals, [])).split()
        if t[0] == "panic":
            return {"panic": True, "msg": " ".join(t[1:])}
        return {"panic": False, "val": int(t[1])}

    def post(self, inp, res):
        d = {k: lit(v) for k, v in inp.items()}
        amount_form = z3.Or(d["variant"] == 1, d["variant"] == 2)
        spec = z3.If(amount_form, z3.And(d["a"] >= 0, d["a"] % E18 == 0), True)
        return [("amount forms valid exactly for non-negative whole amounts", (lit(res["val"]) == 1) == spec)]

    def covers(self, inp, res):
        d = {k: lit(v) for k, v in inp.items()}
        return [("valid amount", z3.And(lit(res["val"]) == 1, d["variant"] == 1, d["a"] > 0)),
                ("fractional amount invalid", z3.And(lit(res["val"]) == 0, d["variant"] == 2, d["a"] > 0))]

    def vectors(self, rng):
        return [{"variant": rng.randrange(5), "a": rng.choice([0, 1, -1, E18, 3 * E18, E18 // 2, -E18]), "lk": 0, "lv": 0,
                 "uk": 1, "uv": 0} for _ in range(30)]


JOBS["C37"] = [ValidateFungible(), ValidFungible(), ValidateNonFungible(), ValidNonFungibleSimple(),
               GeneralValidNonFungible(), GeneralValidateNonFungible()]


class GeneralNormalize(_GeneralNf):
    """normalize() must not change which balances a VALID constraint accepts. The balance is described relative to the ids
    the constraint names: a membership flag per named id plus a number of foreign ids."""
    case_keys = ("nr", "ak", "na")
    query_timeout_s = 120

    def __init__(self):
        self.name = "c37m::general_resource_constraint_normalize"
        self.what = ("GeneralResourceConstraint::normalize on every constraint that is valid for non-fungible use (<= 2 required "
                     "ids, allow-list Any or <= 3 ids, any whole bounds): the normalised constraint accepts exactly the same "
                     "balances as the original one -- for every balance made of any subset of the named ids plus 0..2 foreign "
                     "ids -- and stays valid")
        self.cover_labels = ["bounds tightened", "allow-list collapsed onto the required ids", "required ids grown to the allow-list",
                             "balance accepted", "balance rejected"]

    def cases(self, tier):
        out = [{"nr": nr, "ak": 1, "na": 0} for nr in (0, 1, 2)]
        out += [{"nr": nr, "ak": 0, "na": na} for nr in (0, 1, 2) for na in (0, 1, 2, 3) if na >= nr]
        return out

    def locate(self, prog):
        return find_function(prog, FILE, "normalize", param_types=["&mut GeneralResourceConstraint"])

    def _universe(self, d):
        c = self.case
        return self._ids(d, "r", c["nr"]) + self._ids(d, "a", c["na"])

    def inputs(self):
        c = self.case
        d, pre = self._inputs((("r", c["nr"]), ("a", c["na"])))
        nu = c["nr"] + c["na"]
        for j in range(nu):
            d["b%d" % j] = z3.Int("b%d" % j)
            pre += [d["b%d" % j] >= 0, d["b%d" % j] <= 1]
        d["extra"] = z3.Int("extra")
        pre += [d["extra"] >= 0, d["extra"] <= 2]
        # balance flags of equal ids agree (an id named twice is one id)
        U = [d["r%d" % j] for j in range(c["nr"])] + [d["a%d" % j] for j in range(c["na"])]
        for i in range(nu):
            for j in range(i):
                pre.append(z3.Implies(U[i] == U[j], d["b%d" % i] == d["b%d" % j]))
        # bounds small enough to matter against <= 7 ids, whole numbers (validity for non-fungible use)
        pre += [d["lv"] <= 8 * E18, d["uv"] <= 8 * E18]
        # the constraint is valid for non-fungible use
        R = [d["r%d" % j] for j in range(c["nr"])]
        A = [d["a%d" % j] for j in range(c["na"])]
        whole = lambda k, v, unb: z3.Or(k == unb, z3.And(v >= 0, v % E18 == 0))
        lo_eq = z3.If(d["lk"] == 0, 1, d["lv"])
        up_eq = z3.If(d["uk"] == 0, d["uv"], I192_HI)
        sub = self._subset(R, A) if c["ak"] == 0 else z3.BoolVal(True)
        pre += [whole(d["lk"], d["lv"], 0), whole(d["uk"], d["uv"], 1), lo_eq <= up_eq, c["nr"] * E18 <= up_eq, sub]
        if c["ak"] == 0:
            pre.append(lo_eq <= c["na"] * E18)
        return d, pre

    def setup_path(self, path, inp):
        d = {k: lit(v) for k, v in inp.items()}
        c = self.case
        g = StructV("GeneralResourceConstraint", [_idset(self._ids(d, "r", c["nr"])), lower_v(d["lk"], d["lv"]),
                                                  upper_v(d["uk"], d["uv"]),
                                                  EnumV("AllowedIds", c["ak"], {0: [_idset(self._ids(d, "a", c["na"]))], 1: []})])
        path.frames["job"] = {"self": g}

    def args(self, inp):
        from mirsmt.values import RefV
        return [RefV("&mut GeneralResourceConstraint", "job", "self", ())]

    @staticmethod
    def _accept(R, lk, lv, uk, uv, ak, A, U, flags, extra):
        """does the constraint (R required, bounds, allow-list kind ak / ids A) accept the balance {U[i] | flags[i]} + extra
        foreign ids?  U may repeat ids (flags agree on equal ids): the count takes each distinct id once."""
        n = extra
        for i in range(len(U)):
            first = z3.And([U[i] != U[j] for j in range(i)]) if i else z3.BoolVal(True)
            n = n + z3.If(z3.And(flags[i] == 1, first), 1, 0)
        lower_ok = z3.If(lk == 0, n > 0, lv <= n * E18)
        upper_ok = z3.If(uk == 1, True, n * E18 <= uv)
        has = lambda x: z3.Or([z3.And(U[i] == x, flags[i] == 1) for i in range(len(U))]) if U else z3.BoolVal(False)
        req_ok = z3.And([has(r) for r in R]) if R else z3.BoolVal(True)
        if ak is True:
            allow_ok = z3.BoolVal(True)
        else:
            in_A = lambda x: z3.Or([x == a for a in A]) if A else z3.BoolVal(False)
            allow_ok = z3.And([extra == 0] + [z3.Implies(flags[i] == 1, in_A(U[i])) for i in range(len(U))])
        return z3.And(lower_ok, upper_ok, req_ok, allow_ok)

    def extract_outcome(self, o):
        g = o.path.frames["job"]["self"]
        self._after = g
        return {"done": z3.BoolVal(True)}

    native_only_keys = ("before", "after", "valid")

    def native(self, nat, vals):
        c = self.case
        U = [vals["r%d" % j] for j in range(c["nr"])] + [vals["a%d" % j] for j in range(c["na"])]
        bal = []
        for i, u in enumerate(U):
            if int(vals["b%d" % i]) == 1 and u not in bal:
                bal.append(u)
        bal += [90 + k for k in range(int(vals["extra"]))]
        t = nat.call("grc_normalize", *(self._grc_args(vals) + [len(bal)] + bal)).split()
        if t[0] == "panic":
            return {"panic": True, "msg": " ".join(t[1:])}
        return {"panic": False, "done": True, "before": int(t[1]), "after": int(t[2]), "valid": int(t[3])}

    def native_failed(self, nat, vals, label):
        r = self.native(nat, vals)
        if r.get("panic"):
            return r, ["native panic: " + r.get("msg", "")]
        failed = []
        if r["valid"] == 1 and r["before"] != r["after"]:
            failed.append("normalize changed the verdict on the balance from %d to %d" % (r["before"], r["after"]))
        return r, failed

    def post(self, inp, res):
        if not hasattr(self, "_after") or "before" in res:
            return []
        d = {k: lit(v) for k, v in inp.items()}
        c = self.case
        R, A = self._ids(d, "r", c["nr"]), self._ids(d, "a", c["na"])
        U = R + A
        flags = [d["b%d" % i] for i in range(len(U))]
        before = self._accept(R, d["lk"], d["lv"], d["uk"], d["uv"], True if c["ak"] == 1 else False, A, U, flags, d["extra"])
        g = self._after
        R2 = [e.fields[0].term for e in g.fields[0].fields]
        lo, up, al = g.fields[1], g.fields[2], g.fields[3]
        lk2 = lo.discr
        lv2 = unwrap_dec(lo.variants[1][0]) if lo.variants.get(1) else z3.IntVal(0)
        uk2 = up.discr
        uv2 = unwrap_dec(up.variants[0][0]) if up.variants.get(0) else z3.IntVal(0)
        posts = []
        alts = []
        # the allow-list after: Any, or a concrete entry list (the model keeps entry lists concrete in length)
        if al.variants.get(0):
            A2 = [e.fields[0].term for e in al.variants[0][0].fields]
            alts.append((al.discr == 0, self._accept(R2, lk2, lv2, uk2, uv2, False, A2, U, flags, d["extra"])))
        alts.append((al.discr == 1, self._accept(R2, lk2, lv2, uk2, uv2, True, [], U, flags, d["extra"])))
        after = z3.Or([z3.And(cnd, acc) for cnd, acc in alts])
        posts.append(("the normalised constraint accepts exactly the balances the original accepts", before == after))
        return posts

    def covers(self, inp, res):
        if not hasattr(self, "_after") or "before" in res:
            return []
        d = {k: lit(v) for k, v in inp.items()}
        c = self.case
        g = self._after
        R, A = self._ids(d, "r", c["nr"]), self._ids(d, "a", c["na"])
        U = R + A
        flags = [d["b%d" % i] for i in range(len(U))]
        before = self._accept(R, d["lk"], d["lv"], d["uk"], d["uv"], True if c["ak"] == 1 else False, A, U, flags, d["extra"])
        tightened = z3.Or(g.fields[1].discr != d["lk"], g.fields[2].discr != d["uk"])
        collapsed = z3.And(g.fields[3].discr == 0, z3.BoolVal(c["ak"] == 1))
        grown = z3.BoolVal(len(g.fields[0].fields) > c["nr"])
        return [("bounds tightened", tightened), ("allow-list collapsed onto the required ids", collapsed),
                ("required ids grown to the allow-list", grown), ("balance accepted", before), ("balance rejected", z3.Not(before))]

    def vectors(self, rng):
        return []


def unwrap_dec(v):
    from mir_jobs import unwrap_int
    return unwrap_int(v)


JOBS["C37"].append(GeneralNormalize())
