"""Engine-M jobs: which /repo functions are executed from MIR, over which symbolic inputs, against which
post-conditions (written as integer formulas from the documented semantics, independent of the code)."""
import z3

from mir_engine import Job, find_function, lit
from mirsmt import values
from mirsmt.values import IntV, BoolV, StructV, EnumV

I192_LO, I192_HI = values.int_range("BInt<3>")
I256_LO, I256_HI = values.int_range("BInt<4>")
E18 = 10 ** 18
E36 = 10 ** 36


def tdiv(a, b):
    """truncated (round toward zero) integer division as a z3 term; b != 0"""
    a, b = lit(a), lit(b)
    aa = z3.If(a >= 0, a, -a)
    bb = z3.If(b >= 0, b, -b)
    q = aa / bb      # both non-negative: z3 euclidean = floor = trunc
    return z3.If((a >= 0) == (b >= 0), q, -q)


def fdiv(a, b):
    """floor division for positive b"""
    return lit(a) / lit(b)   # z3 Int div is euclidean: floor for b > 0


def dec_v(t):
    return StructV("Decimal", [StructV("I192", [IntV(t, "BInt<3>")])])


def pdec_v(t):
    return StructV("PreciseDecimal", [StructV("I256", [IntV(t, "BInt<4>")])])


def unwrap_int(v):
    """Decimal(I192(BInt)) -> z3 term"""
    if v.kind == "undef":
        return z3.IntVal(0)      # payload of a variant that is not the live one on this path
    while v.kind == "struct":
        v = v.fields[0]
    assert v.kind == "int", v
    return v.term


def opt_extract(v):
    """Option<newtype int> -> {'some': Bool, 'val': Int}"""
    assert v.kind == "enum", v
    some = v.discr == 1
    if 1 in v.variants and v.variants[1]:
        val = unwrap_int(v.variants[1][0])
    else:
        val = z3.IntVal(0)
    return {"some": some, "val": val}


def res_extract(v):
    """Result<newtype int, E> -> {'some': Bool (Ok), 'val': Int}"""
    assert v.kind == "enum", v
    ok = v.discr == 0
    if 0 in v.variants and v.variants[0]:
        val = unwrap_int(v.variants[0][0])
    else:
        val = z3.IntVal(0)
    return {"some": ok, "val": val}


def parse_native_opt(s):
    t = s.split()
    if t[0] == "panic":
        return {"panic": True, "msg": " ".join(t[1:])}
    if t[0] in ("none", "err"):
        return {"panic": False, "some": False, "val": 0}
    if t[0] in ("some", "ok", "val"):
        return {"panic": False, "some": True, "val": int(t[1])}
    raise RuntimeError("native output: " + s)


def edge_ints(lo, hi, rng, extra=()):
    base = [0, 1, -1, 2, -2, 5, 7, 10, E18, -E18, E18 + 1, E18 - 1, 5 * 10 ** 17, -5 * 10 ** 17, 15 * 10 ** 17,
            -15 * 10 ** 17, 25 * 10 ** 17, 123456789012345678901234567890, -98765432109876543210987654321,
            lo, hi, lo + 1, hi - 1, hi // E18, lo // E18, (hi // E18) + 1, 1 << 96, -(1 << 96), (1 << 128) + 12345]
    base += list(extra)
    for _ in range(12):
        bits = rng.choice([8, 30, 60, 64, 90, 128, 160, 190, 250])
        v = rng.getrandbits(bits)
        base.append(v if rng.random() < 0.5 else -v)
    return [b for b in base if lo <= b <= hi]


# =====================================================================================================
# C24 multiply / divide
# =====================================================================================================
class DecBinop(Job):
    def __init__(self, name, what, op, precise=False, tiers=("quick", "thorough")):
        self.name, self.what, self.op, self.precise, self.tiers = name, what, op, precise, tiers
        self.crate = "radix-common"
        self.cover_labels = ["some", "none", "negative result", "inexact"]

    def locate(self, prog):
        if self.precise:
            return find_function(prog, "math/precise_decimal.rs", "checked_" + self.op,
                                 param_types=["precise_decimal::PreciseDecimal", "precise_decimal::PreciseDecimal"])
        return find_function(prog, "math/decimal.rs", "checked_" + self.op,
                             param_types=["decimal::Decimal", "decimal::Decimal"])

    def rng_(self):
        return (I256_LO, I256_HI, E36) if self.precise else (I192_LO, I192_HI, E18)

    def inputs(self):
        lo, hi, _ = self.rng_()
        a, b = z3.Int("a"), z3.Int("b")
        return {"a": a, "b": b}, [a >= lo, a <= hi, b >= lo, b <= hi]

    def args(self, inp):
        mk = pdec_v if self.precise else dec_v
        return [mk(inp["a"]), mk(inp["b"])]

    def extract(self, v):
        return opt_extract(v)

    def native(self, nat, vals):
        return parse_native_opt(nat.call(("pdec_" if self.precise else "dec_") + self.op, vals["a"], vals["b"]))

    def exact(self, inp):
        _, _, one = self.rng_()
        a, b = inp["a"], inp["b"]
        if self.op == "mul":
            return tdiv(a * b, one), z3.BoolVal(True), (a * b) % one != 0
        return tdiv(a * one, z3.If(b == 0, 1, b)), b != 0, (a * one) % z3.If(b == 0, 1, b) != 0

    def post(self, inp, res):
        lo, hi, _ = self.rng_()
        e, defined, _ = self.exact(inp)
        representable = z3.And(defined, e >= lo, e <= hi)
        return [
            ("Some iff the exact truncated result is representable", res["some"] == representable),
            ("value is the exact result truncated toward zero", z3.Implies(res["some"], res["val"] == e)),
        ]

    def covers(self, inp, res):
        _, _, inexact = self.exact(inp)
        return [("some", res["some"]), ("none", z3.Not(res["some"])),
                ("negative result", z3.And(res["some"], res["val"] < 0)),
                ("inexact", z3.And(res["some"], inexact))]

    def vectors(self, rng):
        lo, hi, _ = self.rng_()
        xs = edge_ints(lo, hi, rng)
        out = []
        for i in range(40):
            out.append({"a": rng.choice(xs), "b": rng.choice(xs)})
        out += [{"a": hi, "b": E18}, {"a": lo, "b": -E18 if not self.precise else -E36}, {"a": 7, "b": 0}]
        return out


JOBS = {}
JOBS["C24"] = [
    DecBinop("c24m::decimal_checked_mul", "Decimal::checked_mul = trunc(a*b/10^18), None iff outside I192; all "
             "192-bit a, b", "mul"),
    DecBinop("c24m::decimal_checked_div", "Decimal::checked_div = trunc(a*10^18/b), None iff b = 0 or outside I192; "
             "all 192-bit a, b", "div"),
    DecBinop("c24m::precise_decimal_checked_mul", "PreciseDecimal::checked_mul = trunc(a*b/10^36), None iff outside "
             "I256; all 256-bit a, b", "mul", precise=True),
    DecBinop("c24m::precise_decimal_checked_div", "PreciseDecimal::checked_div = trunc(a*10^36/b), None iff b = 0 or "
             "outside I256; all 256-bit a, b", "div", precise=True),
]


# =====================================================================================================
# C25 rounding
# =====================================================================================================
def const_ref(ty, v):
    from mirsmt.interp import _ConstRef
    return _ConstRef(ty, v)


def mode_v(m):
    return EnumV("RoundingMode", m, {k: [] for k in range(7)})


def round_spec(a, u, mode):
    """the multiple of u prescribed by the rounding mode (u > 0 concrete)"""
    fl = (a / u) * u                 # z3 Int division is floor for u > 0
    exact = a % u == 0
    ce = z3.If(exact, fl, fl + u)
    r = a - fl
    toward_zero = z3.If(a >= 0, fl, ce)
    away = z3.If(a >= 0, ce, fl)
    even = z3.If((a / u) % 2 == 0, fl, ce)

    def nearest(tie):
        return z3.If(2 * r < u, fl, z3.If(2 * r > u, ce, tie))
    return z3.If(mode == 0, ce, z3.If(mode == 1, fl, z3.If(mode == 2, toward_zero, z3.If(mode == 3, away,
           z3.If(mode == 4, nearest(toward_zero), z3.If(mode == 5, nearest(away), nearest(even)))))))


class Round(Job):
    case_keys = ("dp",)

    def __init__(self, name, what, precise=False, quick_dps=None):
        self.name, self.what, self.precise = name, what, precise
        self.crate = "radix-common"
        self.scale = 36 if precise else 18
        self.quick_dps = quick_dps
        self.cover_labels = ["rounded up", "rounded down", "tie", "overflow none", "unchanged"]
        self.max_unroll = 60

    def cases(self, tier):
        dps = range(self.scale + 1)
        if tier == "quick" and self.quick_dps is not None:
            dps = self.quick_dps
        return [{"dp": d} for d in dps]

    def locate(self, prog):
        return find_function(prog, "math/precise_decimal.rs" if self.precise else "math/decimal.rs", "checked_round",
                             nparams=3)

    def rng_(self):
        return (I256_LO, I256_HI) if self.precise else (I192_LO, I192_HI)

    def inputs(self):
        lo, hi = self.rng_()
        a, m = z3.Int("a"), z3.Int("mode")
        return {"a": a, "mode": m}, [a >= lo, a <= hi, m >= 0, m <= 6]

    def args(self, inp):
        mk = pdec_v if self.precise else dec_v
        ty = "&PreciseDecimal" if self.precise else "&Decimal"
        return [const_ref(ty, mk(inp["a"])), IntV(self.case["dp"], "i32"), mode_v(inp["mode"])]

    def extract(self, v):
        return opt_extract(v)

    def native(self, nat, vals):
        return parse_native_opt(nat.call("pdec_round" if self.precise else "dec_round", vals["a"],
                                         self.case["dp"], vals["mode"]))

    def post(self, inp, res):
        lo, hi = self.rng_()
        u = 10 ** (self.scale - self.case["dp"])
        e = round_spec(inp["a"], u, inp["mode"])
        return [
            ("Some iff the prescribed multiple is representable", res["some"] == z3.And(e >= lo, e <= hi)),
            ("value is the multiple prescribed by the mode", z3.Implies(res["some"], res["val"] == e)),
        ]

    def covers(self, inp, res):
        u = 10 ** (self.scale - self.case["dp"])
        a = inp["a"]
        return [("rounded up", z3.And(res["some"], res["val"] > a)),
                ("rounded down", z3.And(res["some"], res["val"] < a)),
                ("tie", z3.And(res["some"], 2 * (a % u) == u, inp["mode"] == 6)),
                ("overflow none", z3.Not(res["some"])),
                ("unchanged", z3.And(res["some"], res["val"] == a))]

    def vectors(self, rng):
        lo, hi = self.rng_()
        xs = edge_ints(lo, hi, rng)
        out = []
        for i in range(40):
            out.append({"a": rng.choice(xs), "mode": rng.randrange(7), "dp": rng.randrange(self.scale + 1)})
        out += [{"a": hi, "mode": 0, "dp": 0}, {"a": lo, "mode": 1, "dp": 0}, {"a": 25 * 10 ** 17, "mode": 6, "dp": 0},
                {"a": -25 * 10 ** 17, "mode": 6, "dp": 0}, {"a": 35 * 10 ** 17, "mode": 6, "dp": 0}]
        return out


JOBS["C25"] = [
    Round("c25m::decimal_checked_round", "Decimal::checked_round(dp, mode) returns the multiple of 10^-dp prescribed "
          "by the mode, None iff it is outside I192; every 192-bit value, all 7 modes, dp enumerated 0..=18"),
    Round("c25m::precise_decimal_checked_round", "PreciseDecimal::checked_round(dp, mode), every 256-bit value, all 7 "
          "modes, dp enumerated (quick: 0,1,17,18,35,36; thorough: 0..=36)", precise=True,
          quick_dps=[0, 1, 17, 18, 35, 36]),
]


# =====================================================================================================
# C29 calendar conversions
# =====================================================================================================
MIN_TS = -62135596800
MAX_TS = 135536014634284799
FIELDS = ["year", "month", "day", "hour", "minute", "second"]
FIELD_TYS = ["u32", "u8", "u8", "u8", "u8", "u8"]


def is_leap(y):
    return z3.And(y % 4 == 0, z3.Or(y % 100 != 0, y % 400 == 0))


def days_in_month(y, m):
    return z3.If(m == 2, z3.If(is_leap(y), 29, 28),
                 z3.If(z3.Or(m == 4, m == 6, m == 9, m == 11), 30, 31))


def valid_fields(d):
    y, m, dd, h, mi, s = [d[k] for k in FIELDS]
    return z3.And(y >= 1, y <= 4294967295, m >= 1, m <= 12, dd >= 1, dd <= days_in_month(y, m), h >= 0, h <= 23,
                  mi >= 0, mi <= 59, s >= 0, s <= 59)


def civil_seconds(d):
    """seconds since 1970-01-01T00:00:00Z of a proleptic-Gregorian date-time (days-from-civil algorithm; independent
    of the code under test: era/year-of-era/day-of-year decomposition with March-based years)"""
    y, m, dd, h, mi, s = [d[k] for k in FIELDS]
    yp = z3.If(m <= 2, y - 1, y)
    era = yp / 400                       # floor (yp >= 0)
    yoe = yp - era * 400
    mp = z3.If(m > 2, m - 3, m + 9)
    doy = (153 * mp + 2) / 5 + dd - 1
    doe = yoe * 365 + yoe / 4 - yoe / 100 + doy
    days = era * 146097 + doe - 719468
    return days * 86400 + h * 3600 + mi * 60 + s


def dt_extract(v):
    """UtcDateTime struct -> dict"""
    return {k: f.term for k, f in zip(FIELDS, v.fields)}


class FromInstant(Job):
    def __init__(self):
        self.name = "c29m::utc_from_instant"
        self.what = ("UtcDateTime::from_instant for every i64: Ok exactly on the supported range, and then the fields "
                     "are a valid calendar date-time whose proleptic-Gregorian second count (independent reference) "
                     "is the input; no expect/overflow panic")
        self.crate = "radix-common"
        self.max_unroll = 16
        self.query_timeout_s = 900     # hardest query: 50 s alone, 150 s with 6 parallel workers on a loaded machine
        self.cover_labels = ["ok", "err", "pre-1970", "leap day", "year > 9999"]

    def locate(self, prog):
        return find_function(prog, "time/utc_date_time.rs", "from_instant", nparams=1)

    def inputs(self):
        t = z3.Int("t")
        return {"t": t}, [t >= -(1 << 63), t < (1 << 63)]

    def args(self, inp):
        return [const_ref("&Instant", StructV("Instant", [IntV(inp["t"], "i64")]))]

    def extract(self, v):
        d = {"ok": v.discr == 0}
        if 0 in v.variants and v.variants[0]:
            d.update(dt_extract(v.variants[0][0]))
        else:
            d.update({k: z3.IntVal(0) for k in FIELDS})
        return d

    def native(self, nat, vals):
        t = nat.call("utc_from_instant", vals["t"]).split()
        if t[0] == "panic":
            return {"panic": True, "msg": " ".join(t[1:])}
        if t[0] == "err":
            return dict({"panic": False, "ok": False}, **{k: 0 for k in FIELDS})
        return dict({"panic": False, "ok": True}, **{k: int(x) for k, x in zip(FIELDS, t[1:])})

    def post(self, inp, res):
        t = inp["t"]
        ok = lit(res["ok"])
        d = {k: lit(res[k]) for k in FIELDS}
        return [("Ok iff the instant is in the supported range", ok == z3.And(t >= MIN_TS, t <= MAX_TS)),
                ("fields form a valid calendar date-time", z3.Implies(ok, valid_fields(d))),
                ("fields denote exactly the input second (Gregorian reference)", z3.Implies(ok, civil_seconds(d) == t))]

    def covers(self, inp, res):
        return [("ok", res["ok"]), ("err", z3.Not(res["ok"])), ("pre-1970", z3.And(res["ok"], inp["t"] < 0)),
                ("leap day", z3.And(res["ok"], res["month"] == 2, res["day"] == 29)),
                ("year > 9999", z3.And(res["ok"], res["year"] > 9999))]

    def vectors(self, rng):
        xs = [0, -1, 1, 86399, 86400, -86400, -86401, MIN_TS, MIN_TS - 1, MAX_TS, MAX_TS + 1, 951782400, 951868800,
              946684800, 4107542400, 4102444800, -2203891200, 1 << 40, -(1 << 35), (1 << 63) - 1, -(1 << 63),
              1709164800, 1709251199, 1709251200, 13574563200, 253402300799, 253402300800]
        for _ in range(30):
            xs.append(rng.randrange(MIN_TS, MAX_TS))
            xs.append(rng.randrange(-10 ** 11, 10 ** 11))
        return [{"t": x} for x in xs]


class ToInstant(Job):
    def __init__(self):
        self.name = "c29m::utc_to_instant"
        self.what = ("UtcDateTime::to_instant for every valid field tuple (year any u32 >= 1): equals the "
                     "proleptic-Gregorian second count of the independent reference; no overflow panic")
        self.crate = "radix-common"
        self.max_unroll = 16
        self.cover_labels = ["pre-1970", "post-1970", "december", "leap february"]

    def locate(self, prog):
        return find_function(prog, "time/utc_date_time.rs", "to_instant", nparams=1)

    def inputs(self):
        d = {k: z3.Int(k) for k in FIELDS}
        return d, [valid_fields(d)]

    def args(self, inp):
        return [const_ref("&UtcDateTime", StructV("UtcDateTime", [IntV(inp[k], ty) for k, ty in
                                                                   zip(FIELDS, FIELD_TYS)]))]

    def extract(self, v):
        return {"val": unwrap_int(v)}

    def native(self, nat, vals):
        t = nat.call("utc_to_instant", *[vals[k] for k in FIELDS]).split()
        if t[0] == "panic":
            return {"panic": True, "msg": " ".join(t[1:])}
        if t[0] != "val":
            raise RuntimeError("native utc_to_instant: %r" % t)
        return {"panic": False, "val": int(t[1])}

    def post(self, inp, res):
        return [("to_instant equals the Gregorian reference second count", lit(res["val"]) == civil_seconds(inp))]

    def covers(self, inp, res):
        return [("pre-1970", inp["year"] < 1970), ("post-1970", inp["year"] > 1970), ("december", inp["month"] == 12),
                ("leap february", z3.And(inp["month"] == 2, inp["day"] == 29))]

    def vectors(self, rng):
        out = [dict(zip(FIELDS, v)) for v in [(1970, 1, 1, 0, 0, 0), (1969, 12, 31, 23, 59, 59), (1, 1, 1, 0, 0, 0),
                                               (2000, 2, 29, 12, 0, 0), (1900, 2, 28, 1, 2, 3), (2100, 3, 1, 0, 0, 0),
                                               (4294967295, 12, 31, 23, 59, 59), (1968, 2, 29, 0, 0, 0),
                                               (2024, 2, 29, 23, 59, 59), (1600, 3, 1, 5, 6, 7), (400, 2, 29, 0, 0, 1)]]
        for _ in range(40):
            y = rng.choice([rng.randrange(1, 3000), rng.randrange(1, 4294967296)])
            m = rng.randrange(1, 13)
            leap = y % 4 == 0 and (y % 100 != 0 or y % 400 == 0)
            dim = [31, 29 if leap else 28, 31, 30, 31, 30, 31, 31, 30, 31, 30, 31][m - 1]
            out.append(dict(zip(FIELDS, (y, m, rng.randrange(1, dim + 1), rng.randrange(24), rng.randrange(60),
                                         rng.randrange(60)))))
        return out


JOBS["C29"] = [FromInstant(), ToInstant()]

JOBS_BY_NAME = {}

import mir_jobs_engine  # noqa: E402,F401  (registers the radix-engine jobs in JOBS)
import mir_jobs_more    # noqa: E402,F401  (registers more radix-common jobs)
import mir_jobs_state   # noqa: E402,F401  (registers the map-backed state jobs)
import mir_jobs_fee     # noqa: E402,F401  (registers the fee reserve jobs)
import mir_jobs_mem     # noqa: E402,F401  (registers the wasm memory access jobs)
import mir_jobs_assert  # noqa: E402,F401  (registers the manifest resource constraint jobs)
import mir_jobs_txval   # noqa: E402,F401  (registers the transaction header validation jobs)
import mir_jobs_limits  # noqa: E402,F401  (registers the limits module jobs)
import mir_jobs_auth    # noqa: E402,F401  (registers the access rule evaluation jobs)
import mir_jobs_subintent    # noqa: E402,F401  (registers the subintent structure job)
import mir_jobs_account    # noqa: E402,F401  (registers the account deposit jobs)
import mir_jobs_addr    # noqa: E402,F401  (registers the address codec jobs)
import mir_jobs_worktop    # noqa: E402,F401  (registers the worktop jobs)
import mir_jobs_pool    # noqa: E402,F401  (registers the pool contribution jobs)
import mir_jobs_rounds    # noqa: E402,F401  (registers the round / epoch jobs)
import mir_jobs_tracker    # noqa: E402,F401  (registers the transaction tracker commit job)
import mir_jobs_dbkey    # noqa: E402,F401  (registers the sorted database key jobs)
import mir_jobs_overlay    # noqa: E402,F401  (registers the overlay listing job)
import mir_jobs_royalty    # noqa: E402,F401  (registers the royalty bookkeeping jobs)


def _index():
    JOBS_BY_NAME.clear()
    for pid, js in JOBS.items():
        for j in js:
            JOBS_BY_NAME[j.name] = j


_index()
