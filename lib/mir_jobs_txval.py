"""Engine-M jobs for C34: transaction header validation and the across-intent aggregation (radix-transactions)."""
import z3

from mir_engine import Job, find_function, lit
from mirsmt.values import IntV, BoolV, StructV, EnumV, RefV, UnitV, UndefV
from mir_jobs import JOBS, const_ref

U64 = (1 << 64) - 1
U32 = (1 << 32) - 1
I64 = (-(1 << 63), (1 << 63) - 1)
CFG = ["net_some", "net", "min_pct", "max_pct", "range", "min_bp", "max_bp"]


def epoch_v(t):
    return StructV("Epoch", [IntV(t, "u64")])


def opt_instant_v(kind, t):
    return EnumV("Option<Instant>", kind, {0: [], 1: [StructV("Instant", [IntV(t, "i64")])]})


def validator_v(d):
    u = UndefV()
    cfg = StructV("TransactionValidationConfigV1", [
        IntV(16, "usize"), IntV(512, "usize"), IntV(d["min_pct"], "u16"), IntV(d["max_pct"], "u16"), IntV(d["range"], "u64"),
        IntV(1000, "usize"), u, BoolV(True), u, u, BoolV(True), IntV(d["min_bp"], "u32"), IntV(d["max_bp"], "u32"),
        IntV(3, "usize"), IntV(64, "usize"), IntV(512, "usize")])
    net = EnumV("Option<u8>", d["net_some"], {0: [], 1: [IntV(d["net"], "u8")]})
    return StructV("TransactionValidator", [cfg, net])


def cfg_pre(d):
    return [d["net_some"] >= 0, d["net_some"] <= 1, d["net"] >= 0, d["net"] <= 255, d["min_pct"] >= 0, d["min_pct"] <= 65535,
            d["max_pct"] >= 0, d["max_pct"] <= 65535, d["range"] >= 0, d["range"] <= U64, d["min_bp"] >= 0, d["min_bp"] <= U32,
            d["max_bp"] >= 0, d["max_bp"] <= U32]


def native_cfg(vals):
    return [vals["net_some"], vals["net"], vals["min_pct"], vals["max_pct"], vals["range"], vals["min_bp"], vals["max_bp"], 512, 512]


def window_ok(d, hs, he):
    return z3.And(hs < he, hs + d["range"] <= U64, he <= hs + d["range"])


def parse_ok(s):
    t = s.split()
    if t[0] == "panic":
        return {"panic": True, "msg": " ".join(t[1:])}
    return {"panic": False, "ok": t[0] == "ok"}


class HeaderV1(Job):
    crate = "radix-transactions"
    replay_from = "radix-engine"

    def __init__(self):
        self.name = "c34m::validate_header_v1"
        self.what = ("TransactionValidator::validate_header_v1 for every header and every configuration value: accepted "
                     "exactly when the network matches (or the validator is network-agnostic), 0 < end - start <= "
                     "max_epoch_range (without u64 overflow) and min_tip <= tip <= max_tip; every limit at its exact "
                     "boundary; no panic")
        self.cover_labels = ["ok", "wrong network", "empty window", "window too long", "window at the limit", "tip at max"]

    def locate(self, prog):
        return find_function(prog, "transaction_validator_v1.rs", "validate_header_v1", nparams=2)

    def inputs(self):
        d = {k: z3.Int(k) for k in CFG + ["hnet", "hs", "he", "tip"]}
        return d, cfg_pre(d) + [d["hnet"] >= 0, d["hnet"] <= 255, d["hs"] >= 0, d["hs"] <= U64, d["he"] >= 0, d["he"] <= U64,
                                d["tip"] >= 0, d["tip"] <= 65535]

    def args(self, inp):
        d = {k: lit(v) for k, v in inp.items()}
        h = StructV("TransactionHeaderV1", [IntV(d["hnet"], "u8"), epoch_v(d["hs"]), epoch_v(d["he"]), IntV(5, "u32"),
                                            UndefV(), BoolV(False), IntV(d["tip"], "u16")])
        return [const_ref("&TransactionValidator", validator_v(d)), const_ref("&TransactionHeaderV1", h)]

    def extract(self, v):
        return {"ok": v.discr == 0}

    def native(self, nat, vals):
        return parse_ok(nat.call("header_v1", *(native_cfg(vals) + [vals["hnet"], vals["hs"], vals["he"], vals["tip"]])))

    def post(self, inp, res):
        d = {k: lit(v) for k, v in inp.items()}
        spec = z3.And(z3.Or(d["net_some"] == 0, d["hnet"] == d["net"]), window_ok(d, d["hs"], d["he"]),
                      d["tip"] >= d["min_pct"], d["tip"] <= d["max_pct"])
        return [("accepted exactly when network, epoch window and tip are within the configuration", lit(res["ok"]) == spec)]

    def covers(self, inp, res):
        d = {k: lit(v) for k, v in inp.items()}
        ok = lit(res["ok"])
        return [("ok", ok), ("wrong network", z3.And(z3.Not(ok), d["net_some"] == 1, d["hnet"] != d["net"])),
                ("empty window", z3.And(z3.Not(ok), d["he"] <= d["hs"])),
                ("window too long", z3.And(z3.Not(ok), d["he"] > d["hs"] + d["range"])),
                ("window at the limit", z3.And(ok, d["he"] == d["hs"] + d["range"])), ("tip at max", z3.And(ok, d["tip"] == d["max_pct"]))]

    def vectors(self, rng):
        out = []
        for _ in range(40):
            rngv = rng.choice([0, 1, 100, 8640, U64])
            hs = rng.choice([0, 1, 50, U64 - 5, U64])
            out.append({"net_some": rng.randrange(2), "net": rng.choice([1, 242]), "min_pct": rng.choice([0, 5]),
                        "max_pct": rng.choice([0, 100, 65535]), "range": rngv, "min_bp": 0, "max_bp": 0,
                        "hnet": rng.choice([1, 242]), "hs": hs,
                        "he": min(U64, rng.choice([hs, hs + 1, hs + rngv if hs + rngv <= U64 else U64, min(U64, hs + rngv + 1), 0])),
                        "tip": rng.choice([0, 4, 5, 100, 101, 65535])})
        return out


class HeaderV2Tx(Job):
    crate = "radix-transactions"

    def __init__(self):
        self.name = "c34m::validate_transaction_header_v2"
        self.what = ("TransactionValidator::validate_transaction_header_v2: accepted exactly when min_tip_basis_points "
                     "<= tip_basis_points <= max_tip_basis_points, for every u32 value")
        self.cover_labels = ["ok", "below", "above", "at max"]

    def locate(self, prog):
        return find_function(prog, "transaction_validator_v2.rs", "validate_transaction_header_v2", nparams=2)

    def inputs(self):
        d = {k: z3.Int(k) for k in CFG + ["tip"]}
        return d, cfg_pre(d) + [d["tip"] >= 0, d["tip"] <= U32]

    def args(self, inp):
        d = {k: lit(v) for k, v in inp.items()}
        h = StructV("TransactionHeaderV2", [UndefV(), BoolV(False), IntV(d["tip"], "u32")])
        return [const_ref("&TransactionValidator", validator_v(d)), const_ref("&TransactionHeaderV2", h)]

    def extract(self, v):
        return {"ok": v.discr == 0}

    def native(self, nat, vals):
        return parse_ok(nat.call("header_v2_tx", *(native_cfg(vals) + [vals["tip"]])))

    def post(self, inp, res):
        d = {k: lit(v) for k, v in inp.items()}
        return [("accepted exactly when the tip is within [min, max] basis points",
                 lit(res["ok"]) == z3.And(d["tip"] >= d["min_bp"], d["tip"] <= d["max_bp"]))]

    def covers(self, inp, res):
        d = {k: lit(v) for k, v in inp.items()}
        ok = lit(res["ok"])
        return [("ok", ok), ("below", z3.And(z3.Not(ok), d["tip"] < d["min_bp"])), ("above", z3.And(z3.Not(ok), d["tip"] > d["max_bp"])),
                ("at max", z3.And(ok, d["tip"] == d["max_bp"], d["tip"] > 0))]

    def vectors(self, rng):
        return [{"net_some": 1, "net": 1, "min_pct": 0, "max_pct": 0, "range": 10, "min_bp": rng.choice([0, 10]),
                 "max_bp": rng.choice([0, 100, U32]), "tip": rng.choice([0, 9, 10, 100, 101, U32])} for _ in range(30)]


class IntentHeaderV2(Job):
    crate = "radix-transactions"
    query_timeout_s = 60

    def __init__(self):
        self.name = "c34m::validate_intent_header_v2"
        self.what = ("TransactionValidator::validate_intent_header_v2 with AcrossIntentAggregation::update_headers, from an "
                     "arbitrary aggregation state (the intersection of the intents seen so far): accepted exactly when "
                     "the intent's own header is valid (network, epoch window within max_epoch_range, min < max timestamp "
                     "when both are given) and the intersection with the running epoch / timestamp windows stays "
                     "non-empty; the aggregation then holds exactly that intersection")
        self.cover_labels = ["ok", "empty epoch intersection", "empty timestamp intersection", "narrows the window"]

    def locate(self, prog):
        return find_function(prog, "transaction_validator_v2.rs", "validate_intent_header_v2", nparams=3)

    def inputs(self):
        names = CFG + ["agg_s", "agg_e", "atsk", "ats", "atek", "ate", "hnet", "hs", "he", "htsk", "hts", "htek", "hte"]
        d = {k: z3.Int(k) for k in names}
        pre = cfg_pre(d) + [d["hnet"] >= 0, d["hnet"] <= 255]
        for k in ("agg_s", "agg_e", "hs", "he"):
            pre += [d[k] >= 0, d[k] <= U64]
        for k in ("atsk", "atek", "htsk", "htek"):
            pre += [d[k] >= 0, d[k] <= 1]
        for k in ("ats", "ate", "hts", "hte"):
            pre += [d[k] >= I64[0], d[k] <= I64[1]]
        # the aggregation invariant (what update_headers maintains): non-empty windows so far
        pre += [d["agg_s"] < d["agg_e"], z3.Implies(z3.And(d["atsk"] == 1, d["atek"] == 1), d["ats"] < d["ate"])]
        return d, pre

    def setup_path(self, path, inp):
        d = {k: lit(v) for k, v in inp.items()}
        self._d = d
        path.frames["job"] = {"agg": StructV("AcrossIntentAggregation", [
            IntV(0, "usize"), epoch_v(d["agg_s"]), epoch_v(d["agg_e"]), opt_instant_v(d["atsk"], d["ats"]), opt_instant_v(d["atek"], d["ate"])])}

    def args(self, inp):
        d = {k: lit(v) for k, v in inp.items()}
        h = StructV("IntentHeaderV2", [IntV(d["hnet"], "u8"), epoch_v(d["hs"]), epoch_v(d["he"]),
                                       opt_instant_v(d["htsk"], d["hts"]), opt_instant_v(d["htek"], d["hte"]), IntV(1, "u64")])
        return [const_ref("&TransactionValidator", validator_v(d)), const_ref("&IntentHeaderV2", h),
                RefV("&mut AcrossIntentAggregation", "job", "agg", ())]

    def extract_outcome(self, o):
        a = o.path.frames["job"]["agg"].fields

        def opt(e):
            val = e.variants[1][0].fields[0].term if e.variants.get(1) and e.variants[1] and e.variants[1][0].kind == "struct" else z3.IntVal(0)
            return e.discr, z3.If(e.discr == 1, val, 0)
        tsk, ts = opt(a[3])
        tek, te = opt(a[4])
        return {"ok": o.value.discr == 0, "rs": a[1].fields[0].term, "re": a[2].fields[0].term, "rtsk": tsk, "rts": ts,
                "rtek": tek, "rte": te}

    def native(self, nat, vals):
        # the aggregation state is reached by one update_headers call on start(); states with as = 0 / ae = MAX / no
        # timestamps are the start() state itself
        t = nat.call("header_v2_intent", *(native_cfg(vals) + [1, vals["agg_s"], vals["agg_e"], vals["atsk"], vals["ats"], vals["atek"],
                                                             vals["ate"], vals["hnet"], vals["hs"], vals["he"], vals["htsk"],
                                                             vals["hts"], vals["htek"], vals["hte"]])).split()
        if t[0] == "panic":
            return {"panic": True, "msg": " ".join(t[1:])}
        if t[0] == "val":
            return {"panic": False, "skipped": True, "ok": False}
        if t[0] == "err":
            return {"panic": False, "ok": False}
        return {"panic": False, "ok": True, "rs": int(t[1]), "re": int(t[2]), "rtsk": int(t[3]), "rts": int(t[4]),
                "rtek": int(t[5]), "rte": int(t[6])}

    def post(self, inp, res):
        d = {k: lit(v) for k, v in inp.items()}
        r = {k: lit(v) for k, v in res.items() if not isinstance(v, str)}
        own = z3.And(z3.Or(d["net_some"] == 0, d["hnet"] == d["net"]), window_ok(d, d["hs"], d["he"]),
                     z3.Implies(z3.And(d["htsk"] == 1, d["htek"] == 1), d["hts"] < d["hte"]))
        ns = z3.If(d["hs"] > d["agg_s"], d["hs"], d["agg_s"])
        ne = z3.If(d["he"] < d["agg_e"], d["he"], d["agg_e"])
        ntsk = z3.If(z3.Or(d["atsk"] == 1, d["htsk"] == 1), 1, 0)
        nts = z3.If(z3.And(d["htsk"] == 1, z3.Or(d["atsk"] == 0, d["hts"] > d["ats"])), d["hts"], z3.If(d["atsk"] == 1, d["ats"], 0))
        ntek = z3.If(z3.Or(d["atek"] == 1, d["htek"] == 1), 1, 0)
        nte = z3.If(z3.And(d["htek"] == 1, z3.Or(d["atek"] == 0, d["hte"] < d["ate"])), d["hte"], z3.If(d["atek"] == 1, d["ate"], 0))
        inter = z3.And(ns < ne, z3.Implies(z3.And(ntsk == 1, ntek == 1), nts < nte))
        posts = [("accepted exactly when the header is valid and the intersection of all windows stays non-empty",
                  r["ok"] == z3.And(own, inter))]
        if "rs" in r:
            posts.append(("on success the aggregation holds exactly the intersection of the epoch and timestamp windows",
                          z3.Implies(r["ok"], z3.And(r["rs"] == ns, r["re"] == ne, r["rtsk"] == ntsk, r["rtek"] == ntek,
                                                     z3.Implies(ntsk == 1, r["rts"] == nts), z3.Implies(ntek == 1, r["rte"] == nte)))))
        return posts

    def covers(self, inp, res):
        d = {k: lit(v) for k, v in inp.items()}
        ok = lit(res["ok"])
        own_epochs = window_ok(d, d["hs"], d["he"])
        return [("ok", ok), ("empty epoch intersection", z3.And(z3.Not(ok), own_epochs, z3.Or(d["hs"] >= d["agg_e"], d["he"] <= d["agg_s"]))),
                ("empty timestamp intersection", z3.And(z3.Not(ok), own_epochs, d["hs"] < d["agg_e"], d["he"] > d["agg_s"], d["htsk"] == 1, d["atek"] == 1, d["hts"] >= d["ate"])),
                ("narrows the window", z3.And(ok, d["hs"] > d["agg_s"], d["he"] < d["agg_e"]))]

    def vectors(self, rng):
        out = []
        for _ in range(40):
            a_s = rng.choice([0, 5, 100])
            a_e = rng.choice([a_s + 1, a_s + 50, U64])
            atsk, atek = rng.randrange(2), rng.randrange(2)
            ats = rng.choice([-5, 0, 100])
            ate = ats + rng.choice([1, 50]) if atek else 0
            hs = rng.choice([0, 5, 20, 120, a_e if a_e < U64 else 7])
            rg = rng.choice([1, 30, 8640])
            he = rng.choice([hs, hs + 1, hs + rg, hs + rg + 1])
            htsk, htek = rng.randrange(2), rng.randrange(2)
            hts = rng.choice([-10, 0, 120, 140])
            hte = rng.choice([hts, hts + 1, 130, 1000])
            out.append({"net_some": rng.randrange(2), "net": 242, "min_pct": 0, "max_pct": 0, "range": rg, "min_bp": 0, "max_bp": 0,
                        "agg_s": a_s, "agg_e": a_e, "atsk": atsk, "ats": ats if atsk else 0, "atek": atek, "ate": ate,
                        "hnet": rng.choice([242, 1]), "hs": hs, "he": he, "htsk": htsk, "hts": hts if htsk else 0, "htek": htek,
                        "hte": hte if htek else 0})
        return out


JOBS["C34"] = [HeaderV1(), HeaderV2Tx(), IntentHeaderV2()]


# ---------------------------------------------------------------------------------------------------------------
# message validation (V2): lengths and decryptor counts are symbolic "sized" values
import re as _re2          # noqa: E402
from mirsmt import models as _models2   # noqa: E402

MSG_MAX = 3000


def _sized(ty, n):
    """a container of which only the length matters"""
    return StructV(ty, [IntV(n, "usize")])


class MessageV2Job(Job):
    crate = "radix-transactions"
    query_timeout_s = 60
    case_keys = ("entries",)

    def __init__(self):
        self.name = "c34m::validate_message_v2"
        self.what = ("TransactionValidator::validate_message_v2 for every message shape (none; plaintext with any mime-type and "
                     "content length, text or bytes; encrypted with any payload length and 0..2 decryptor groups with any key / "
                     "value curve and any number of decryptors) and every limit configuration (all <= 3000): accepted exactly "
                     "when every length is within its limit, an encrypted message has at least one group, every group's curve "
                     "matches its key, no group is empty and the TOTAL number of decryptors over all groups is within the limit")
        self.cover_labels = ["plaintext accepted", "plaintext too long", "encrypted accepted", "too many decryptors in total",
                             "curve mismatch"]

    def cases(self, tier):
        return [{"entries": n} for n in (0, 1, 2)]

    def locate(self, prog):
        return find_function(prog, "validation/transaction_validator_v2.rs", "validate_message_v2", nparams=2)

    def _names(self):
        ns = ["maxp", "maxe", "maxm", "maxd", "kind", "mime", "ckind", "mlen", "elen"]
        for e in range(self.case["entries"]):
            ns += ["kc%d" % e, "vc%d" % e, "cnt%d" % e]
        return ns

    def inputs(self):
        d = {k: z3.Int(k) for k in self._names()}
        pre = []
        for k, v in d.items():
            if k == "kind":
                pre += [v >= 0, v <= 2]
            elif k == "ckind" or k.startswith(("kc", "vc")):
                pre += [v >= 0, v <= 1]
            else:
                pre += [v >= 0, v <= MSG_MAX]
        if self.case["entries"] == 2:
            pre.append(d["kc0"] != d["kc1"])        # map keys are distinct
        return d, pre

    @property
    def env_overrides(self):
        def m_len(interp, path, args, ret_ty, callee):
            v = _models2.deref(interp, path, args[0])
            if v.kind == "struct" and v.ty.startswith("Sized"):
                return IntV(v.fields[0].term, "usize")
            raise _models2.Refuse("len of %r" % (v,))
        return [(_re2.compile(r"^<impl String>::len$|^Vec::<u8>::len$|^IndexMap::<PublicKeyFingerprint, AesWrapped256BitKey>::len$"), m_len)]

    def args(self, inp):
        d = {k: lit(v) for k, v in inp.items()}
        u = UndefV()
        msgcfg = StructV("MessageValidationConfig", [IntV(d["maxp"], "usize"), IntV(d["maxe"], "usize"), IntV(d["maxm"], "usize"),
                                                      IntV(d["maxd"], "usize")])
        cfg = StructV("TransactionValidationConfigV1", [
            IntV(16, "usize"), IntV(512, "usize"), IntV(0, "u16"), IntV(65535, "u16"), IntV(100, "u64"),
            IntV(1000, "usize"), msgcfg, BoolV(True), u, u, BoolV(True), IntV(0, "u32"), IntV(1000000, "u32"),
            IntV(3, "usize"), IntV(64, "usize"), IntV(512, "usize")])
        validator = StructV("TransactionValidator", [cfg, EnumV("Option<u8>", 0, {0: [], 1: [IntV(0, "u8")]})])
        contents = EnumV("MessageContentsV1", d["ckind"], {0: [_sized("SizedString", d["mlen"])], 1: [_sized("SizedVec", d["mlen"])]})
        plain = StructV("PlaintextMessageV1", [_sized("SizedString", d["mime"]), contents])
        entries = []
        for e in range(self.case["entries"]):
            dec = _sized("SizedMap", d["cnt%d" % e])
            group = EnumV("DecryptorsByCurveV2", d["vc%d" % e], {0: [u, dec], 1: [u, dec]})
            entries.append(StructV("Slot", [EnumV("CurveType", d["kc%d" % e], {0: [], 1: []}), group, BoolV(True)]))
        enc = StructV("EncryptedMessageV2", [StructV("AesGcmPayload", [_sized("SizedVec", d["elen"])]),
                                             StructV("SymMap<CurveType, DecryptorsByCurveV2>", entries)])
        message = EnumV("MessageV2", d["kind"], {0: [], 1: [plain], 2: [enc]})
        self._path.frames["job"]["msg"] = message          # map operations need a place: the message lives in the job frame
        return [const_ref("&TransactionValidator", validator), RefV("&MessageV2", "job", "msg", ())]

    def setup_path(self, path, inp):
        path.frames["job"] = {}
        self._path = path

    def extract(self, v):
        return {"ok": v.discr == 0}

    def native(self, nat, vals):
        n = self.case["entries"]
        toks = [vals["maxp"], vals["maxe"], vals["maxm"], vals["maxd"], vals["kind"], vals["mime"], vals["ckind"], vals["mlen"],
                vals["elen"], n]
        for e in range(n):
            toks += [vals["kc%d" % e], vals["vc%d" % e], vals["cnt%d" % e]]
        return parse_ok(nat.call("msg_v2", *toks))

    def post(self, inp, res):
        d = {k: lit(v) for k, v in inp.items()}
        n = self.case["entries"]
        plain_ok = z3.And(d["mime"] <= d["maxm"], d["mlen"] <= d["maxp"])
        groups_ok = z3.And([z3.And(d["kc%d" % e] == d["vc%d" % e], d["cnt%d" % e] >= 1) for e in range(n)]) if n else z3.BoolVal(True)
        total = z3.Sum([d["cnt%d" % e] for e in range(n)]) if n else z3.IntVal(0)
        enc_ok = z3.And(d["elen"] <= d["maxe"], z3.BoolVal(n >= 1), groups_ok, total <= d["maxd"])
        spec = z3.If(d["kind"] == 0, True, z3.If(d["kind"] == 1, plain_ok, enc_ok))
        return [("accepted exactly when every length and the total decryptor count are within the limits", lit(res["ok"]) == spec)]

    def covers(self, inp, res):
        d = {k: lit(v) for k, v in inp.items()}
        ok = lit(res["ok"])
        n = self.case["entries"]
        F = z3.BoolVal(False)
        total = z3.Sum([d["cnt%d" % e] for e in range(n)]) if n else z3.IntVal(0)
        each_ok = z3.And([z3.And(d["kc%d" % e] == d["vc%d" % e], d["cnt%d" % e] >= 1, d["cnt%d" % e] <= d["maxd"]) for e in range(n)]) \
            if n else F
        return [("plaintext accepted", z3.And(ok, d["kind"] == 1)), ("plaintext too long", z3.And(z3.Not(ok), d["kind"] == 1)),
                ("encrypted accepted", z3.And(ok, d["kind"] == 2)),
                ("too many decryptors in total", z3.And(z3.Not(ok), d["kind"] == 2, d["elen"] <= d["maxe"], each_ok, total > d["maxd"])
                 if n == 2 else F),
                ("curve mismatch", z3.And(z3.Not(ok), d["kind"] == 2, d["elen"] <= d["maxe"], d["kc0"] != d["vc0"]) if n >= 1 else F)]

    def vectors(self, rng):
        out = []
        for _ in range(40):
            n = rng.randrange(3)
            d = {"entries": n, "maxp": rng.choice([0, 100, 2000]), "maxe": rng.choice([0, 100, 2000]), "maxm": rng.choice([0, 10, 128]),
                 "maxd": rng.choice([0, 1, 20]), "kind": rng.randrange(3), "mime": rng.choice([0, 10, 11, 128, 129]),
                 "ckind": rng.randrange(2), "mlen": rng.choice([0, 100, 101, 2000, 2001]), "elen": rng.choice([0, 100, 101, 2000])}
            kcs = rng.sample([0, 1], n)
            for e in range(n):
                d["kc%d" % e] = kcs[e]
                d["vc%d" % e] = kcs[e] if rng.random() < 0.8 else 1 - kcs[e]
                d["cnt%d" % e] = rng.choice([0, 1, 10, 19, 20, 21])
            out.append(d)
        return out


JOBS["C34"].append(MessageV2Job())
