"""Engine-M jobs for C44 (rounds and epochs): Round::calculate_progress (radix-common) and
EpochChangeCondition::should_epoch_change (radix-engine-interface)."""
import z3

from mir_engine import find_function, lit
from mirsmt.values import IntV, StructV
from mir_jobs import JOBS, const_ref, opt_extract
from mir_jobs_more import SimpleJob

U64 = (1 << 64) - 1
I64_LO, I64_HI = -(1 << 63), (1 << 63) - 1


def _round(t):
    return StructV("Round", [IntV(t, "u64")])


JOBS.setdefault("C44", [])
JOBS["C44"].append(SimpleJob(
    name="c44m::round_calculate_progress",
    what="Round::calculate_progress for every pair of u64 round numbers: Some(to - from) exactly when the round advances "
         "(to > from), None otherwise (a repeated or earlier round is no progress)",
    locate=lambda prog: find_function(prog, "types/consensus.rs", "calculate_progress", nparams=2),
    ins=[("frm", 0, U64), ("to", 0, U64)],
    mkargs=lambda inp, case: [_round(lit(inp["frm"])), _round(lit(inp["to"]))],
    extract=opt_extract,
    native_op="round_progress",
    post=lambda inp, res, case: [
        ("progress exactly when the round number grows", res["some"] == (inp["to"] > inp["frm"])),
        ("the progress is the difference", z3.Implies(res["some"], res["val"] == inp["to"] - inp["frm"]))],
    covers=lambda inp, res, case: [("progress", lit(res["some"])), ("no progress", z3.Not(lit(res["some"])))],
    cover_labels=["progress", "no progress"],
    crate="radix-common"))


def _epoch_extract(v):
    some = v.discr == 1
    val = v.variants[1][0].term if v.variants.get(1) else z3.IntVal(0)
    return {"some": some, "val": z3.If(some, val, 0)}


def _epoch_post(inp, res, case):
    mn, mx, target, start, now, rnd = (inp[k] for k in ("mn", "mx", "target", "start", "now", "rnd"))
    duration = z3.If(z3.And(now >= 0, start >= 0, now > start), now - start, 0)
    change = z3.Or(rnd >= mx, z3.And(rnd >= mn, duration >= target))
    close = z3.And(duration >= 1000, target >= 1000, (duration - target) * 10 <= target)
    sat_add = z3.If(start + target > I64_HI, I64_HI, start + target)
    return [("the epoch changes exactly when the maximum round count is reached, or the minimum is reached and the target "
             "duration has elapsed", res["some"] == change),
            ("the next epoch's effective start is the previous start + target when the actual duration is within 10 % above "
             "the target (and both are at least a second), else the current time",
             z3.Implies(res["some"], res["val"] == z3.If(close, sat_add, now)))]


JOBS["C44"].append(SimpleJob(
    name="c44m::epoch_change_condition_should_epoch_change",
    what="EpochChangeCondition::should_epoch_change (with is_change_criterion_met and is_actual_duration_close_to_target) "
         "for every condition (u64 minimum / maximum round counts, target duration <= 10^15 ms), every i64 effective start "
         "and current time, every round: decided exactly by the documented rules of the three fields",
    locate=lambda prog: find_function(prog, "consensus_manager/invocations.rs", "should_epoch_change", nparams=4),
    ins=[("mn", 0, U64), ("mx", 0, U64), ("target", 0, 10 ** 15), ("start", I64_LO, I64_HI), ("now", I64_LO, I64_HI),
         ("rnd", 0, U64)],
    mkargs=lambda inp, case: [const_ref("&EpochChangeCondition", StructV("EpochChangeCondition", [
        IntV(lit(inp["mn"]), "u64"), IntV(lit(inp["mx"]), "u64"), IntV(lit(inp["target"]), "u64")])),
        IntV(lit(inp["start"]), "i64"), IntV(lit(inp["now"]), "i64"), _round(lit(inp["rnd"]))],
    extract=_epoch_extract,
    native_op="epoch_change",
    post=_epoch_post,
    covers=lambda inp, res, case: [
        ("change by maximum rounds", z3.And(lit(res["some"]), lit(inp["rnd"]) >= lit(inp["mx"]))),
        ("change by elapsed time", z3.And(lit(res["some"]), lit(inp["rnd"]) < lit(inp["mx"]))),
        ("no change", z3.Not(lit(res["some"]))),
        ("effective start snaps to the target", z3.And(lit(res["some"]), lit(res["val"]) != lit(inp["now"])))],
    cover_labels=["change by maximum rounds", "change by elapsed time", "no change", "effective start snaps to the target"],
    extra_vectors=[{"mn": 10, "mx": 100, "target": 300000, "start": 1000, "now": 400000, "rnd": 50},
                   {"mn": 10, "mx": 100, "target": 300000, "start": 1000, "now": 310000, "rnd": 50},
                   {"mn": 10, "mx": 100, "target": 300000, "start": 1000, "now": 100000, "rnd": 100},
                   {"mn": 10, "mx": 100, "target": 300000, "start": 1000, "now": 900000, "rnd": 5},
                   {"mn": 0, "mx": 1, "target": 500, "start": -5, "now": 100, "rnd": 0}],
    crate="radix-engine-interface", query_timeout_s=120))


# ---------------------------------------------------------------------------------------------------------------
# ConsensusManagerBlueprint::next_round over a stubbed field store
import re as _re                                              # noqa: E402
from mir_engine import Job                                    # noqa: E402
from mirsmt.values import BoolV, EnumV, RefV, UnitV, UndefV   # noqa: E402
from mirsmt import models as _models                          # noqa: E402
from mir_jobs import dec_v                                    # noqa: E402

NR = ["M0", "m0", "epoch", "start", "cur", "mn", "mx", "target", "rnd", "t", "gaps", "leader", "fallback"]


class NextRound(Job):
    crate = "radix-engine"
    query_timeout_s = 120
    max_unroll = 20
    case_keys = ("gaps",)

    def __init__(self):
        self.name = "c44m::consensus_manager_next_round"
        self.what = ("ConsensusManagerBlueprint::next_round (with check_non_decreasing_and_update_timestamps, "
                     "Round::calculate_progress, EpochChangeCondition::should_epoch_change, update_proposal_statistics; "
                     "epoch_change is a recorded effect) from an arbitrary manager state: it fails when time would move "
                     "backwards, when the round does not advance, or when the gap leaders do not match the rounds skipped; "
                     "otherwise the round becomes the proposed one within the same epoch, or -- exactly when the epoch-change "
                     "condition is met -- the epoch advances by exactly one, the round restarts at zero and the epoch start "
                     "times are updated; the leaders' made / missed counters grow by exactly the rounds progressed")
        self.cover_labels = ["round advances within the epoch", "epoch changes and the round resets", "round does not advance: rejected",
                             "gap leaders inconsistent: rejected"]

    def cases(self, tier):
        return [{"gaps": g} for g in ((0, 1, 2) if tier == "quick" else (0, 1, 2, 3))]

    def locate(self, prog):
        return find_function(prog, "consensus_manager/consensus_manager.rs", "next_round", nparams=4)

    def inputs(self):
        d = {k: z3.Int(k) for k in NR if k != "gaps"}
        pre = [d["M0"] >= 0, d["M0"] <= 10 ** 15, d["m0"] >= -(1 << 31), d["m0"] < (1 << 31), d["epoch"] >= 0, d["epoch"] <= U64,
               d["start"] >= 0, d["start"] <= 10 ** 15, d["cur"] >= 0, d["cur"] <= U64, d["mn"] >= 0, d["mn"] <= U64,
               d["mx"] >= 0, d["mx"] <= U64, d["target"] >= 0, d["target"] <= 10 ** 15, d["rnd"] >= 0, d["rnd"] <= U64,
               d["t"] >= 0, d["t"] <= 10 ** 15, d["leader"] >= 0, d["leader"] <= 3, d["fallback"] >= 0, d["fallback"] <= 1]
        return d, pre

    def _state_v(self, d):
        return StructV("ConsensusManagerSubstate", [BoolV(True), StructV("Epoch", [IntV(d["epoch"], "u64")]),
                                                    IntV(d["start"], "i64"), IntV(d["start"], "i64"), _round(d["cur"]),
                                                    EnumV("Option<ValidatorIndex>", 0, {0: [], 1: [IntV(0, "u8")]})])

    def _config_v(self, d):
        cond = StructV("EpochChangeCondition", [IntV(d["mn"], "u64"), IntV(d["mx"], "u64"), IntV(d["target"], "u64")])
        u = UndefV()
        return StructV("ConsensusManagerConfigSubstate", [StructV("ConsensusManagerConfig", [IntV(100, "u32"), cond, u, u, u, u, u, u])])

    @property
    def env_overrides(self):
        R = _re.compile

        def ok(ret_ty, v):
            return EnumV(ret_ty, 0, {0: [v]})
        keymap = {"ProposerMilliTimestampFieldPayload": "milli", "ProposerMinuteTimestampFieldPayload": "minute",
                  "ConfigurationFieldPayload": "config", "StateFieldPayload": "state",
                  "CurrentProposalStatisticFieldPayload": "stats"}

        def which(callee):
            hits = [k for t_, k in keymap.items() if t_ in callee]
            if len(hits) != 1:
                raise _models.Refuse("field store stub: unknown payload type in %s" % callee)
            return hits[0]

        def m_read(interp, path, args, ret_ty, callee):
            return ok(ret_ty, path.frames["job"][which(callee)])

        def m_write(interp, path, args, ret_ty, callee):
            k = which(callee)
            path.frames["job"][k] = _models.deref(interp, path, args[2])
            path.frames["job"][k + "_written"] = BoolV(True)
            return ok(ret_ty, UnitV())

        def m_epoch_change(interp, path, args, ret_ty, callee):
            job = path.frames["job"]
            job["epoch_changes"] = IntV(job["epoch_changes"].term + 1, "u32")
            job["epoch_change_to"] = IntV(args[0].fields[0].term, "u64")
            return ok(ret_ty, UnitV())
        return [(R(r"^<ConsensusManagerField as Into<u8>>::into$"), lambda i, p, a, r, c: IntV(0, "u8")),
                (R(r"SystemActorApi<RuntimeError>>::actor_open_field$"), lambda i, p, a, r, c: ok(r, IntV(1, "u32"))),
                (R(r"SystemFieldApi<RuntimeError>>::field_read_typed::<"), m_read),
                (R(r"SystemFieldApi<RuntimeError>>::field_write_typed::<"), m_write),
                (R(r"SystemFieldApi<RuntimeError>>::field_close$"), lambda i, p, a, r, c: ok(r, UnitV())),
                (R(r"FieldPayload::fully_update_and_into_latest_version$|FieldPayload>::from_content_source::<"),
                 lambda i, p, a, r, c: a[0]),
                (R(r"ConsensusManagerBlueprint::epoch_change::<"), m_epoch_change),
                (R(r"Runtime::emit_event::<"), lambda i, p, a, r, c: ok(r, UnitV())),
                (R(r"^<(Round|Epoch|EpochChangeCondition|ConsensusManagerConfig) as Clone>::clone$"), _models.m_clone)]

    def setup_path(self, path, inp):
        d = self._d = {k: lit(v) for k, v in inp.items()}
        stats = StructV("CurrentProposalStatisticSubstate", [StructV("Vec<ProposalStatistic>", [
            StructV("ProposalStatistic", [IntV(0, "u64"), IntV(0, "u64")]) for _ in range(3)])])
        path.frames["job"] = {"api": StructV("Api", []),
                              "milli": StructV("ProposerMilliTimestampSubstate", [IntV(d["M0"], "i64")]),
                              "minute": StructV("ProposerMinuteTimestampSubstate", [IntV(d["m0"], "i32")]),
                              "config": self._config_v(d), "state": self._state_v(d), "stats": stats,
                              "epoch_changes": IntV(0, "u32"), "epoch_change_to": IntV(0, "u64"),
                              "milli_written": BoolV(False), "minute_written": BoolV(False), "state_written": BoolV(False),
                              "stats_written": BoolV(False)}

    def args(self, inp):
        d = {k: lit(v) for k, v in inp.items()}
        hist = StructV("LeaderProposalHistory", [StructV("Vec<ValidatorIndex>", [IntV(0, "u8")] * self.case["gaps"]),
                                                 IntV(d["leader"], "u8"), BoolV(d["fallback"] == 1)])
        return [_round(d["rnd"]), IntV(d["t"], "i64"), hist, RefV("&mut Y", "job", "api", ())]

    def extract_outcome(self, o):
        job = o.path.frames["job"]
        st = job["state"]
        ok = o.value.discr == 0
        made = z3.Sum([s_.fields[0].term for s_ in job["stats"].fields[0].fields])
        missed = z3.Sum([s_.fields[1].term for s_ in job["stats"].fields[0].fields])
        g = lambda t: z3.If(ok, t, -1)
        return {"ok": ok, "epoch": g(st.fields[1].fields[0].term), "round": g(st.fields[4].fields[0].term),
                "eff": g(st.fields[2].term), "act": g(st.fields[3].term), "made": g(made), "missed": g(missed),
                "changes": g(job["epoch_changes"].term), "change_to": g(job["epoch_change_to"].term)}

    native_only_keys = ("note",)

    def native(self, nat, vals):
        t = nat.call("next_round_run", *([vals[k] for k in NR[:10]] + [self.case["gaps"], vals["leader"], vals["fallback"]])).split()
        if t[0] == "panic":
            # the epoch-change path is not set up natively (validator set / rewards): not comparable
            return {"panic": False, "note": "epoch change path not replayable natively"}
        if t[0] != "ok":
            return {"panic": False, "ok": False, "epoch": -1, "round": -1, "eff": -1, "act": -1, "made": -1, "missed": -1}
        e, r, eff, act, made, missed = map(int, t[1:7])
        return {"panic": False, "ok": True, "epoch": e, "round": r, "eff": eff, "act": act, "made": made, "missed": missed}

    def _change(self, d):
        duration = z3.If(z3.And(d["t"] >= 0, d["start"] >= 0, d["t"] > d["start"]), d["t"] - d["start"], 0)
        return z3.Or(d["rnd"] >= d["mx"], z3.And(d["rnd"] >= d["mn"], duration >= d["target"]))

    def post(self, inp, res):
        if "changes" not in res:
            # native result: only what the native scenario exposes
            keys = [k for k in ("ok", "epoch", "round", "eff", "act", "made", "missed") if k in res]
            if not keys:
                return []
        d = {k: lit(v) for k, v in inp.items()}
        r = {k: lit(v) for k, v in res.items() if not isinstance(v, str)}
        gaps = self.case["gaps"]
        time_ok = z3.And(d["t"] >= d["M0"], d["t"] / 60000 <= (1 << 31) - 1)
        progress = d["rnd"] - d["cur"]
        pre_ok = z3.And(time_ok, progress > 0, progress - 1 == gaps, d["leader"] <= 2)
        change = self._change(d)
        posts = [("accepted only when time does not move backwards, the round advances and the gap leaders match",
                  z3.Implies(r["ok"], pre_ok)),
                 ("under those conditions it fails only on an epoch number overflow",
                  z3.Implies(z3.And(pre_ok, z3.Not(r["ok"])), z3.And(change, d["epoch"] == U64))),
                 ("without an epoch change the round becomes the proposed one and the epoch stays",
                  z3.Implies(z3.And(r["ok"], z3.Not(change)), z3.And(r["round"] == d["rnd"], r["epoch"] == d["epoch"],
                                                                     r["eff"] == d["start"], r["act"] == d["start"]))),
                 ("an epoch change advances the epoch by exactly one, restarts the round at zero and records the start times",
                  z3.Implies(z3.And(r["ok"], change), z3.And(r["epoch"] == d["epoch"] + 1, r["round"] == 0, r["act"] == d["t"]))),
                 ("the leaders' counters grow by exactly the rounds progressed (gap rounds and a fallback round count as missed)",
                  z3.Implies(r["ok"], z3.And(r["made"] + r["missed"] == gaps + 1, r["made"] == z3.If(d["fallback"] == 1, 0, 1))))]
        if "changes" in res:
            posts.append(("epoch_change runs exactly on an epoch change, for the next epoch",
                          z3.Implies(r["ok"], z3.If(change, z3.And(r["changes"] == 1, r["change_to"] == d["epoch"] + 1),
                                                    r["changes"] == 0))))
        return posts

    def covers(self, inp, res):
        d = {k: lit(v) for k, v in inp.items()}
        ok = lit(res["ok"])
        change = self._change(d)
        gaps = self.case["gaps"]
        return [("round advances within the epoch", z3.And(ok, z3.Not(change))),
                ("epoch changes and the round resets", z3.And(ok, change)),
                ("round does not advance: rejected", z3.And(z3.Not(ok), d["rnd"] <= d["cur"], d["t"] >= d["M0"])),
                ("gap leaders inconsistent: rejected", z3.And(z3.Not(ok), d["rnd"] > d["cur"], d["rnd"] - d["cur"] - 1 != gaps,
                                                              d["t"] >= d["M0"]))]

    def vectors(self, rng):
        out = []
        for _ in range(30):
            gaps = rng.randrange(3)
            cur = rng.choice([0, 5, 10, 99])
            good = rng.random() < 0.6
            rnd = cur + gaps + 1 if good else rng.choice([cur, max(cur - 1, 0), cur + gaps + 2])
            M0 = rng.choice([0, 1000, 60000 * 7 + 5])
            out.append({"gaps": gaps, "M0": M0, "m0": M0 // 60000, "epoch": rng.choice([0, 5, 77]), "start": rng.choice([0, 500]),
                        "cur": cur, "mn": 1000, "mx": 100000, "target": 300000, "rnd": rnd,
                        "t": M0 + rng.choice([0, 1, 5000]) if rng.random() < 0.85 else max(M0 - 1, 0),
                        "leader": rng.choice([0, 1, 2, 3]), "fallback": rng.randrange(2)})
        return out


JOBS["C44"].append(NextRound())


# ---------------------------------------------------------------------------------------------------------------
# time queries: get_current_time_v2 / compare_current_time_v2 agree with the recorded clock
class TimeQuery(Job):
    crate = "radix-engine"
    query_timeout_s = 60

    def __init__(self, op):
        self.op = op
        self.name = "c44m::consensus_manager_%s_current_time_v2" % op
        self.what = {
            "get": "ConsensusManagerBlueprint::get_current_time_v2 for every stored millisecond / minute timestamp: second "
                   "precision reports the stored milliseconds divided by 1000 (truncated), minute precision the stored minute "
                   "count times 60",
            "compare": "ConsensusManagerBlueprint::compare_current_time_v2 for every stored clock, every instant and all five "
                       "operators: second precision compares the instant with the stored milliseconds / 1000, minute precision "
                       "compares the instant's minute (saturated to the i32 range) with the stored minute -- i.e. the answer "
                       "agrees with what get_current_time reports at that precision",
        }[op]
        self.cover_labels = ["second precision", "minute precision"] + (["true answer", "false answer"] if op == "compare" else [])

    @property
    def env_overrides(self):
        R = _re.compile

        def ok(ret_ty, v):
            return EnumV(ret_ty, 0, {0: [v]})

        def m_read(interp, path, args, ret_ty, callee):
            d = self._d
            if "MilliTimestamp" in callee:
                return ok(ret_ty, StructV("ProposerMilliTimestampSubstate", [IntV(d["M"], "i64")]))
            return ok(ret_ty, StructV("ProposerMinuteTimestampSubstate", [IntV(d["m"], "i32")]))
        return [(R(r"^<ConsensusManagerField as Into<u8>>::into$"), lambda i, p, a, r, c: IntV(0, "u8")),
                (R(r"SystemActorApi<RuntimeError>>::actor_open_field$"), lambda i, p, a, r, c: ok(r, IntV(1, "u32"))),
                (R(r"SystemFieldApi<RuntimeError>>::field_read_typed::<"), m_read),
                (R(r"SystemFieldApi<RuntimeError>>::field_close$"), lambda i, p, a, r, c: ok(r, UnitV())),
                (R(r"FieldPayload::fully_update_and_into_latest_version$"), lambda i, p, a, r, c: a[0])]

    def locate(self, prog):
        return find_function(prog, "consensus_manager/consensus_manager.rs", self.op + "_current_time_v2",
                             nparams=4 if self.op == "compare" else 2)

    def inputs(self):
        names = ["M", "m", "prec"] + (["other", "cmp"] if self.op == "compare" else [])
        d = {k: z3.Int(k) for k in names}
        pre = [d["M"] >= I64_LO, d["M"] <= I64_HI, d["m"] >= -(1 << 31), d["m"] < (1 << 31), d["prec"] >= 0, d["prec"] <= 1]
        if self.op == "compare":
            pre += [d["other"] >= I64_LO, d["other"] <= I64_HI, d["cmp"] >= 0, d["cmp"] <= 4]
        return d, pre

    def setup_path(self, path, inp):
        self._d = {k: lit(v) for k, v in inp.items()}
        path.frames["job"] = {"api": StructV("Api", [])}

    def args(self, inp):
        d = {k: lit(v) for k, v in inp.items()}
        prec = EnumV("TimePrecisionV2", d["prec"], {0: [], 1: []})
        api = RefV("&mut Y", "job", "api", ())
        if self.op == "get":
            return [prec, api]
        return [StructV("Instant", [IntV(d["other"], "i64")]), prec, EnumV("TimeComparisonOperator", d["cmp"], {k: [] for k in range(5)}), api]

    def extract(self, v):
        ok = v.discr == 0
        if self.op == "get":
            val = v.variants[0][0].fields[0].term if v.variants.get(0) else z3.IntVal(0)
        else:
            val = z3.If(v.variants[0][0].term, 1, 0) if v.variants.get(0) else z3.IntVal(0)
        return {"some": ok, "val": z3.If(ok, val, 0)}

    def native(self, nat, vals):
        from mir_jobs import parse_native_opt
        if self.op == "get":
            return parse_native_opt(nat.call("cm_get_time", vals["M"], vals["m"], vals["prec"]))
        return parse_native_opt(nat.call("cm_compare", vals["M"], vals["m"], vals["prec"], vals["other"], vals["cmp"]))

    @staticmethod
    def _tdiv(a, b):
        q = a / b                              # z3: floor for positive b
        return z3.If(z3.And(a < 0, a % b != 0), q + 1, q)

    def post(self, inp, res):
        d = {k: lit(v) for k, v in inp.items()}
        sec_now = self._tdiv(d["M"], 1000)
        min_now = d["m"] * 60
        ok, val = lit(res["some"]), lit(res["val"])
        if self.op == "get":
            return [("the query never fails", ok),
                    ("the reported time is the recorded clock at the requested precision",
                     val == z3.If(d["prec"] == 1, sec_now, min_now))]
        o = d["other"]
        # minute of the compared instant: seconds * 1000 / 60000 truncated, saturated when it does not fit
        fits_ms = z3.And(o * 1000 >= I64_LO, o * 1000 <= I64_HI)
        omin = self._tdiv(o * 1000, 60000)
        fits_min = z3.And(fits_ms, omin >= -(1 << 31), omin < (1 << 31))
        omin_sat = z3.If(fits_min, omin, z3.If(o < 0, -(1 << 31), (1 << 31) - 1))
        lhs = z3.If(d["prec"] == 1, sec_now, min_now)
        rhs = z3.If(d["prec"] == 1, o, omin_sat * 60)
        c = d["cmp"]
        truth = z3.If(c == 0, lhs == rhs, z3.If(c == 1, lhs < rhs, z3.If(c == 2, lhs <= rhs, z3.If(c == 3, lhs > rhs, lhs >= rhs))))
        return [("the query never fails", ok),
                ("the answer is the comparison of the recorded clock (at that precision) with the given instant",
                 (val == 1) == truth)]

    def covers(self, inp, res):
        d = {k: lit(v) for k, v in inp.items()}
        out = [("second precision", d["prec"] == 1), ("minute precision", d["prec"] == 0)]
        if self.op == "compare":
            out += [("true answer", lit(res["val"]) == 1), ("false answer", lit(res["val"]) == 0)]
        return out

    def vectors(self, rng):
        out = []
        for _ in range(40):
            M = rng.choice([0, 1669663688996, 59999, 60000, -1, -60001, 10 ** 15])
            d = {"M": M, "m": rng.choice([M // 60000 if abs(M // 60000) < 2 ** 31 else 0, 0, 27827728, -5]), "prec": rng.randrange(2)}
            if self.op == "compare":
                d["other"] = rng.choice([M // 1000, M // 1000 - 1, M // 1000 + 1, (M // 60000) * 60, 0, I64_HI, I64_LO, 253402300799])
                d["cmp"] = rng.randrange(5)
            out.append(d)
        return out


JOBS["C44"] += [TimeQuery("get"), TimeQuery("compare")]
