#!/usr/bin/env python3-vt
"""/verif/check <ID> [--tier quick|thorough] [--replay <path>]

exit 0: every obligation of the property held within its stated bounds (known findings are printed)
exit 1: a violation that reproduces natively against the real code and is not a listed known finding
exit 2: the check itself is broken or inconclusive (timeout, OOM, vacuity, non-reproducing counterexample)
"""
import argparse
import json
import os
import sys
import time

sys.path.insert(0, os.path.dirname(os.path.abspath(__file__)))

from common import (HELD, VIOLATED, INCONCLUSIVE, VACUOUS, BROKEN, load_known_findings, write_evidence)  # noqa: E402
import specs  # noqa: E402


def main():
    ap = argparse.ArgumentParser()
    ap.add_argument("pid")
    ap.add_argument("--tier", default=os.environ.get("VERIF_TIER", "quick"), choices=["quick", "thorough"])
    ap.add_argument("--replay", default=None)
    ap.add_argument("--only", default=None, help="substring filter on obligation names (debugging)")
    a = ap.parse_args()
    pid = a.pid
    seed = int(os.environ.get("VERIF_SEED", "0") or 0)
    if pid not in specs.PROPS:
        print("unknown or unclaimed property %s" % pid)
        return 2
    spec = specs.PROPS[pid]

    if a.replay:
        rec = json.load(open(a.replay))
        if rec.get("engine") == "kani":
            import kani_engine
            ok = kani_engine.replay_file(a.replay)
        else:
            import mir_engine
            ok = mir_engine.replay_file(a.replay)
        if ok:
            print("VIOLATION property=%s replay=%s" % (pid, a.replay))
            return 1
        print("replay did not reproduce a violation")
        return 0

    t0 = time.time()
    obligations = []
    kani_hs = spec.get("kani", [])
    if a.only:
        kani_hs = [h for h in kani_hs if a.only in h["name"]]
    if kani_hs:
        import kani_engine
        obligations += kani_engine.run_property(pid, kani_hs, a.tier, seed)
    mjobs = []
    if spec.get("mir"):
        import mir_jobs
        mjobs = list(mir_jobs.JOBS.get(pid, []))
    if a.only:
        mjobs = [j for j in mjobs if a.only in j.name]
    if mjobs:
        import mir_engine
        obligations += mir_engine.run_property(pid, mjobs, a.tier, seed)

    known, fixed = load_known_findings()
    known = [k for k in known if k["property"] == pid]
    new_violations = []
    for o in obligations:
        if o.status == VIOLATED:
            k = next((k for k in known if k["key"] == o.key), None)
            if k:
                print("KNOWN-FINDING: property=%s %s" % (pid, k["text"]))
                o.extra["known_finding"] = k["text"]
            else:
                new_violations.append(o)
    bad = [o for o in obligations if o.status in (INCONCLUSIVE, VACUOUS, BROKEN) or o.status is None]
    wall = time.time() - t0
    write_evidence(pid, a.tier, seed, obligations, spec, wall, len(new_violations))
    for o in obligations:
        print("  [%s] %-12s %s (%.1fs solver, %.1fs wall, %d checks, covers %d/%d)%s" % (
            o.engine, o.status, o.name, o.solver_s, o.wall_s, o.checks, o.covers[0], o.covers[1],
            (" -- " + o.detail[:300]) if o.status != HELD and o.detail else ""))
    if new_violations:
        for o in new_violations:
            print("VIOLATION property=%s replay=%s" % (pid, o.replay))
        return 1
    if bad or not obligations:
        for o in bad:
            print("NOT-DECIDED property=%s obligation=%s status=%s %s" % (pid, o.name, o.status, o.detail[:500]))
        if not obligations:
            print("NOT-DECIDED property=%s no obligations in tier %s" % (pid, a.tier))
        return 2
    print("OK property=%s tier=%s obligations=%d wall=%.0fs" % (pid, a.tier, len(obligations), wall))
    return 0


if __name__ == "__main__":
    sys.exit(main())
