"""Engine-M jobs on radix-engine kernels (C41 pools, C42 validator helpers, C44 minute clock).

The functions are executed from radix-engine's MIR; the Decimal/PreciseDecimal/I192.. code they call is executed
from radix-common's MIR (both dumps are regenerated from /repo on every run). Native replay goes through the add-only
`verif_*` forwarding shims (cargo feature radixdlt_radixdlt_scrypto_verif) in /verif/replay-engine.
"""
import z3

from mir_engine import Job, find_function, lit
from mirsmt.values import IntV, StructV
from mir_jobs import (dec_v, unwrap_int, res_extract, opt_extract, edge_ints, tdiv, I192_LO, I192_HI, E18, JOBS)


def parse_native_res(s):
    t = s.split()
    if t[0] == "panic":
        return {"panic": True, "msg": " ".join(t[1:])}
    if t[0] in ("none", "err"):
        return {"panic": False, "some": False, "val": 0}
    if t[0] in ("some", "ok", "val"):
        return {"panic": False, "some": True, "val": int(t[1])}
    raise RuntimeError("native output: " + s)


def find_by_suffix(prog, file_part, name_suffix):
    cands = [f for f in prog.funcs if f.kind == "fn" and file_part in f.name and f.name.endswith(name_suffix)]
    if len(cands) != 1:
        raise LookupError("function *%s in %s: %d candidates" % (name_suffix, file_part, len(cands)))
    return cands[0]


# =====================================================================================================
# C41 pool redemption: calculate_amount_owed of the one / two / multi resource pools (v1_1, the current logic)
# =====================================================================================================
class PoolOwed(Job):
    crate = "radix-engine"
    case_keys = ("div",)
    query_timeout_s = 120

    def __init__(self, kind, entries=1, quick_divs=(0, 6, 17, 18), tiers=("quick", "thorough")):
        self.kind, self.entries, self.quick_divs, self.tiers = kind, entries, quick_divs, tiers
        self.name = "c41m::%s_resource_pool_calculate_amount_owed" % kind + ("" if entries == 1 else "_x%d" % entries)
        self.what = ("%s-resource pool calculate_amount_owed (v1_1) for every non-negative pool-unit amount, "
                     "total supply and reserve (192-bit), divisibility enumerated%s: the amount owed never exceeds the "
                     "pro-rata share units*reserves/supply, is a non-negative multiple of 10^-divisibility, loses less "
                     "than one divisibility step plus the documented intermediate truncations, never exceeds the "
                     "reserves when units <= supply, and redeeming at most the supply never fails; no panic"
                     % (kind, "" if entries == 1 else " (reserves map with %d entries)" % entries))
        self.cover_labels = ["ok", "err", "rounded below pro-rata", "exact pro-rata"]

    def cases(self, tier):
        divs = range(19) if tier == "thorough" else self.quick_divs
        return [{"div": d} for d in divs]

    def locate(self, prog):
        return find_function(prog, "v1_1/%s_resource_pool_blueprint.rs" % self.kind, "calculate_amount_owed",
                             nparams=4 if self.kind == "one" else 3)

    def inputs(self):
        u, s = z3.Int("u"), z3.Int("s")
        inp = {"u": u, "s": s}
        pre = [u >= 0, u <= I192_HI, s >= 0, s <= I192_HI]
        for i in range(self.entries):
            r = z3.Int("r%d" % i)
            inp["r%d" % i] = r
            pre += [r >= 0, r <= I192_HI]
        return inp, pre

    def args(self, inp):
        div = self.case["div"]
        if self.kind == "one":
            return [dec_v(inp["u"]), dec_v(inp["s"]), dec_v(inp["r0"]), IntV(div, "u8")]
        entries = []
        for i in range(self.entries):
            key = StructV("ResourceAddress", [IntV(i, "u8")])
            info = StructV("ReserveResourceInformation", [dec_v(inp["r%d" % i]), IntV(div, "u8")])
            entries.append(StructV("(ResourceAddress, ReserveResourceInformation)", [key, info]))
        return [dec_v(inp["u"]), dec_v(inp["s"]),
                StructV("IndexMap<ResourceAddress, ReserveResourceInformation>", entries)]

    def extract(self, v):
        if self.kind == "one":
            d = res_extract(v)
            return {"some": d["some"], "val0": d["val"]}
        ok = v.discr == 0
        out = {"some": ok}
        ents = v.variants[0][0].fields if 0 in v.variants and v.variants[0] and v.variants[0][0].kind == "struct" else []
        for i in range(self.entries):
            out["val%d" % i] = unwrap_int(ents[i].fields[1]) if i < len(ents) else z3.IntVal(0)
        return out

    def native(self, nat, vals):
        op = {"one": "pool1_owed", "two": "pool2_owed", "multi": "pooln_owed"}[self.kind]
        out = {"panic": False, "some": True}
        for i in range(self.entries):
            r = parse_native_res(nat.call(op, vals["u"], vals["s"], vals["r%d" % i], self.case["div"]))
            if r["panic"]:
                return r
            if not r["some"]:
                out["some"] = False
            out["val%d" % i] = r["val"]
        if not out["some"]:
            for i in range(self.entries):
                out["val%d" % i] = 0
        return out

    def post(self, inp, res):
        u, s = lit(inp["u"]), lit(inp["s"])
        step = 10 ** (18 - self.case["div"])
        ok = lit(res["some"])
        posts = [("fails when the pool-unit supply is zero", z3.Implies(s == 0, z3.Not(ok))),
                 ("redeeming at most the total supply never fails", z3.Implies(z3.And(s > 0, u <= s), ok))]
        for i in range(self.entries):
            r, v = lit(inp["r%d" % i]), lit(res["val%d" % i])
            posts += [
                ("amount owed never exceeds the pro-rata share (entry %d)" % i, z3.Implies(ok, v * s <= u * r)),
                ("amount owed is a non-negative multiple of the divisibility step (entry %d)" % i,
                 z3.Implies(ok, z3.And(v >= 0, v % step == 0))),
                ("amount owed never exceeds the reserves when units <= supply (entry %d)" % i,
                 z3.Implies(z3.And(ok, u <= s), v <= r)),
                ("amount owed is within one step + intermediate truncation of the pro-rata share (entry %d)" % i,
                 z3.Implies(ok, (v + step + 2) * s * E18 + r * s > u * r * E18)),
            ]
        return posts

    def covers(self, inp, res):
        u, s, r, v = inp["u"], inp["s"], inp["r0"], res["val0"]
        return [("ok", res["some"]), ("err", z3.Not(res["some"])),
                ("rounded below pro-rata", z3.And(res["some"], v * s < u * r)),
                ("exact pro-rata", z3.And(res["some"], v * s == u * r, v > 0))]

    def vectors(self, rng):
        xs = edge_ints(0, I192_HI, rng, extra=[3 * E18, 10 * E18, 7, 123456789 * E18, 10 ** 30, 10 ** 40])
        out = []
        for _ in range(30):
            d = {"u": rng.choice(xs), "s": rng.choice(xs), "div": rng.randrange(19)}
            for i in range(self.entries):
                d["r%d" % i] = rng.choice(xs)
            out.append(d)
        base = {"u": E18, "s": 3 * E18, "div": 18}
        for i in range(self.entries):
            base["r%d" % i] = 10 * E18 + i
        out.append(base)
        z = dict(base)
        z["s"] = 0
        out.append(z)
        z = dict(base)
        z["div"] = 0
        out.append(z)
        return out


JOBS["C41"] = [
    PoolOwed("one"),
    PoolOwed("two", entries=1, quick_divs=(0, 18)),
    PoolOwed("multi", entries=1, quick_divs=(6, 18)),
]


# =====================================================================================================
# C42 validator helpers
# =====================================================================================================
class StakeUnits(Job):
    crate = "radix-engine"
    query_timeout_s = 120

    def __init__(self):
        self.name = "c42m::validator_calculate_stake_unit_amount"
        self.what = ("ValidatorBlueprint::calculate_stake_unit_amount for every non-negative XRD amount, total stake "
                     "and stake-unit supply (192-bit): first stake mints 1:1; otherwise the units minted never exceed "
                     "the proportional share xrd*supply/stake and fall short of it by less than the two documented "
                     "truncations; no panic")
        self.cover_labels = ["first stake", "ok proportional", "err", "rounded down"]

    def locate(self, prog):
        return find_function(prog, "consensus_manager/validator.rs", "calculate_stake_unit_amount", nparams=3)

    def inputs(self):
        x, T, S = z3.Int("x"), z3.Int("T"), z3.Int("S")
        return {"x": x, "T": T, "S": S}, [x >= 0, x <= I192_HI, T >= 0, T <= I192_HI, S >= 0, S <= I192_HI]

    def args(self, inp):
        return [dec_v(inp["x"]), dec_v(inp["T"]), dec_v(inp["S"])]

    def extract(self, v):
        return res_extract(v)

    def native(self, nat, vals):
        return parse_native_res(nat.call("stake_units", vals["x"], vals["T"], vals["S"]))

    def post(self, inp, res):
        x, T, S = lit(inp["x"]), lit(inp["T"]), lit(inp["S"])
        ok, v = lit(res["some"]), lit(res["val"])
        return [("first stake mints exactly the XRD amount", z3.Implies(T == 0, z3.And(ok, v == x))),
                ("units minted never exceed the proportional share", z3.Implies(z3.And(ok, T > 0),
                                                                                 z3.And(v >= 0, v * T <= x * S))),
                ("units minted fall short of the proportional share by less than the two truncations",
                 z3.Implies(z3.And(ok, T > 0), (v + 1) * T * E18 + x * T > x * S * E18)),
                ("staking into a pool whose units are worth at least one XRD each never fails",
                 z3.Implies(z3.And(T > 0, S <= T), ok))]

    def covers(self, inp, res):
        x, T, S = inp["x"], inp["T"], inp["S"]
        return [("first stake", z3.And(T == 0, res["some"])), ("ok proportional", z3.And(T > 0, res["some"], res["val"] > 0)),
                ("err", z3.Not(res["some"])), ("rounded down", z3.And(T > 0, res["some"], res["val"] * T < x * S))]

    def vectors(self, rng):
        xs = edge_ints(0, I192_HI, rng, extra=[3 * E18, 10 * E18, 7, 123456789 * E18, 10 ** 30, 10 ** 40])
        out = [{"x": rng.choice(xs), "T": rng.choice(xs), "S": rng.choice(xs)} for _ in range(40)]
        out += [{"x": 5 * E18, "T": 0, "S": 0}, {"x": 5 * E18, "T": 3 * E18, "S": 7 * E18}, {"x": 1, "T": 3, "S": 1}]
        return out


class SortPrefix(Job):
    crate = "radix-engine"
    query_timeout_s = 120
    max_unroll = 60

    def __init__(self):
        self.name = "c42m::validator_create_sort_prefix_from_stake"
        self.what = ("create_sort_prefix_from_stake for every non-negative stake (192-bit): never fails or panics and "
                     "returns the big-endian bytes of 65535 - min(65535, floor(stake / 100000 XRD)), hence antitone "
                     "in stake (higher stake sorts first) and saturating")
        self.cover_labels = ["saturated", "zero stake", "mid"]

    def locate(self, prog):
        # a free function: rustc prints it without the `<impl at file:line>` part, so it is located by name + signature
        return find_function(prog, None, "create_sort_prefix_from_stake", param_types=["Decimal"],
                             ret_contains="[u8; 2]")

    def inputs(self):
        s = z3.Int("s")
        return {"s": s}, [s >= 0, s <= I192_HI]

    def args(self, inp):
        return [dec_v(inp["s"])]

    def extract(self, v):
        ok = v.discr == 0
        if 0 in v.variants and v.variants[0] and v.variants[0][0].kind == "struct":
            b = v.variants[0][0].fields
            val = b[0].term * 256 + b[1].term
        else:
            val = z3.IntVal(0)
        return {"some": ok, "val": val}

    def native(self, nat, vals):
        return parse_native_res(nat.call("sort_prefix", vals["s"]))

    def post(self, inp, res):
        s = lit(inp["s"])
        k = s / (100000 * E18)
        want = 65535 - z3.If(k > 65535, 65535, k)
        return [("never fails for a non-negative stake", lit(res["some"])),
                ("prefix is 65535 - min(65535, floor(stake/100k))", z3.Implies(lit(res["some"]), lit(res["val"]) == want))]

    def covers(self, inp, res):
        return [("saturated", z3.And(res["some"], res["val"] == 0)), ("zero stake", z3.And(res["some"], res["val"] == 65535)),
                ("mid", z3.And(res["some"], res["val"] > 0, res["val"] < 65535))]

    def vectors(self, rng):
        xs = [0, 1, E18, 99999 * E18, 100000 * E18 - 1, 100000 * E18, 100001 * E18, 65535 * 100000 * E18 - 1,
              65535 * 100000 * E18, 65536 * 100000 * E18, 24 * 10 ** 9 * E18, I192_HI, I192_HI - 1, 10 ** 30, 10 ** 50]
        for _ in range(25):
            xs.append(rng.randrange(0, 7 * 10 ** 9 * E18))
        return [{"s": x} for x in xs]


JOBS["C42"] = [StakeUnits(), SortPrefix()]


# =====================================================================================================
# C44 minute clock
# =====================================================================================================
class MilliToMinute(Job):
    crate = "radix-engine"

    def __init__(self):
        self.name = "c44m::consensus_manager_milli_to_minute"
        self.what = ("ConsensusManagerBlueprint::milli_to_minute for every i64: Some(trunc(ms / 60000)) exactly when "
                     "that quotient fits i32 (hence non-decreasing in ms), None otherwise; no panic")
        self.cover_labels = ["some", "none high", "none low", "negative"]

    def locate(self, prog):
        return find_function(prog, "consensus_manager/consensus_manager.rs", "milli_to_minute", nparams=1)

    def inputs(self):
        t = z3.Int("t")
        return {"t": t}, [t >= -(1 << 63), t < (1 << 63)]

    def args(self, inp):
        return [IntV(inp["t"], "i64")]

    def extract(self, v):
        some = v.discr == 1
        val = v.variants[1][0].term if 1 in v.variants and v.variants[1] else z3.IntVal(0)
        return {"some": some, "val": val}

    def native(self, nat, vals):
        return parse_native_res(nat.call("milli_to_minute", vals["t"]))

    def post(self, inp, res):
        t = lit(inp["t"])
        q = tdiv(t, 60000)
        fits = z3.And(q >= -(1 << 31), q < (1 << 31))
        return [("Some iff the minute count fits i32", lit(res["some"]) == fits),
                ("value is trunc(ms / 60000)", z3.Implies(lit(res["some"]), lit(res["val"]) == q))]

    def covers(self, inp, res):
        return [("some", res["some"]), ("none high", z3.And(z3.Not(res["some"]), inp["t"] > 0)),
                ("none low", z3.And(z3.Not(res["some"]), inp["t"] < 0)), ("negative", z3.And(res["some"], res["val"] < 0))]

    def vectors(self, rng):
        xs = [0, 1, -1, 59999, 60000, -59999, -60000, -60001, (1 << 31) * 60000 - 1, (1 << 31) * 60000,
              -(1 << 31) * 60000, -(1 << 31) * 60000 - 59999, -(1 << 31) * 60000 - 60000, (1 << 63) - 1, -(1 << 63),
              1700000000000]
        for _ in range(25):
            xs.append(rng.randrange(-(1 << 63), 1 << 63))
            xs.append(rng.randrange(-(1 << 48), 1 << 48))
        return [{"t": x} for x in xs]


JOBS["C44"] = [MilliToMinute()]


# =====================================================================================================
# C44: proposer timestamps only move forward (the field store is an environment stub)
# =====================================================================================================
import re as _re

from mirsmt.values import EnumV as _EnumV, BoolV as _BoolV, UnitV as _UnitV, RefV as _RefV
from mirsmt.values import UndefV  # noqa: E402
from mirsmt import models as _models


class TimestampUpdate(Job):
    crate = "radix-engine"

    def __init__(self):
        self.name = "c44m::consensus_manager_check_non_decreasing_and_update_timestamps"
        self.what = ("ConsensusManagerBlueprint::check_non_decreasing_and_update_timestamps for every stored millisecond / "
                     "minute timestamp and every proposed time: rejected exactly when the proposed time is below the stored "
                     "one (or its minute count does not fit i32); otherwise the stored millisecond timestamp becomes the "
                     "proposed one and the stored minute never decreases (max of the old value and the proposed minute); a "
                     "rejected time below the stored one writes nothing")
        self.cover_labels = ["ok forward", "ok same time", "rejected backwards", "minute advanced"]

    @property
    def env_overrides(self):
        def ok(ret_ty, v):
            return _EnumV(ret_ty, 0, {0: [v]})

        def m_into_u8(interp, path, args, ret_ty, callee):
            return IntV(0, "u8")

        def m_open(interp, path, args, ret_ty, callee):
            return ok(ret_ty, IntV(1, "u32"))

        def m_read(interp, path, args, ret_ty, callee):
            if "MilliTimestamp" in callee:
                return ok(ret_ty, StructV("ProposerMilliTimestampSubstate", [IntV(lit(self._d["M0"]), "i64")]))
            return ok(ret_ty, StructV("ProposerMinuteTimestampSubstate", [IntV(lit(self._d["m0"]), "i32")]))

        def m_write(interp, path, args, ret_ty, callee):
            v = _models.deref(interp, path, args[2])
            key = "milli" if "MilliTimestamp" in callee else "minute"
            path.frames["job"][key] = v
            path.frames["job"][key + "_written"] = _BoolV(True)
            return ok(ret_ty, _UnitV())

        def m_close(interp, path, args, ret_ty, callee):
            return ok(ret_ty, _UnitV())

        def m_ident(interp, path, args, ret_ty, callee):
            return args[0]
        return [(_re.compile(r"^<ConsensusManagerField as Into<u8>>::into$"), m_into_u8),
                (_re.compile(r"SystemActorApi<RuntimeError>>::actor_open_field$"), m_open),
                (_re.compile(r"SystemFieldApi<RuntimeError>>::field_read_typed::<"), m_read),
                (_re.compile(r"SystemFieldApi<RuntimeError>>::field_write_typed::<"), m_write),
                (_re.compile(r"SystemFieldApi<RuntimeError>>::field_close$"), m_close),
                (_re.compile(r"FieldPayload::fully_update_and_into_latest_version$|FieldPayload>::from_content_source::<"), m_ident)]

    def locate(self, prog):
        return find_function(prog, "consensus_manager/consensus_manager.rs", "check_non_decreasing_and_update_timestamps", nparams=2)

    def inputs(self):
        d = {k: z3.Int(k) for k in ("M0", "m0", "t")}
        return d, [d["M0"] >= -(1 << 63), d["M0"] < (1 << 63), d["m0"] >= -(1 << 31), d["m0"] < (1 << 31),
                   d["t"] >= -(1 << 63), d["t"] < (1 << 63)]

    def setup_path(self, path, inp):
        self._d = {k: lit(v) for k, v in inp.items()}
        path.frames["job"] = {"api": StructV("Api", []),
                              "milli": StructV("ProposerMilliTimestampSubstate", [IntV(self._d["M0"], "i64")]),
                              "minute": StructV("ProposerMinuteTimestampSubstate", [IntV(self._d["m0"], "i32")]),
                              "milli_written": _BoolV(False), "minute_written": _BoolV(False)}

    def args(self, inp):
        return [IntV(lit(inp["t"]), "i64"), _RefV("&mut Y", "job", "api", ())]

    def extract_outcome(self, o):
        fr = o.path.frames["job"]
        return {"ok": o.value.discr == 0, "M1": fr["milli"].fields[0].term, "m1": fr["minute"].fields[0].term,
                "writes": z3.If(fr["milli_written"].term, 1, 0) + z3.If(fr["minute_written"].term, 1, 0)}

    def native(self, nat, vals):
        t = nat.call("cm_time", vals["M0"], vals["m0"], vals["t"]).split()
        if t[0] == "panic":
            return {"panic": True, "msg": " ".join(t[1:])}
        return {"panic": False, "ok": t[0] == "ok", "M1": int(t[1]), "m1": int(t[2]), "writes": int(t[3])}

    def post(self, inp, res):
        d = {k: lit(v) for k, v in inp.items()}
        r = {k: lit(v) for k, v in res.items() if not isinstance(v, str)}
        q = tdiv(d["t"], 60000)
        fits = z3.And(q >= -(1 << 31), q < (1 << 31))
        return [("rejected exactly when time would move backwards or the minute count does not fit",
                 r["ok"] == z3.And(d["t"] >= d["M0"], fits)),
                ("the stored millisecond timestamp never decreases", r["M1"] >= d["M0"]),
                ("the stored minute never decreases", r["m1"] >= d["m0"]),
                ("on success the millisecond timestamp is the proposed time and the minute is max(old, proposed minute)",
                 z3.Implies(r["ok"], z3.And(r["M1"] == d["t"], r["m1"] == z3.If(q > d["m0"], q, d["m0"])))),
                ("a time below the stored one writes nothing", z3.Implies(d["t"] < d["M0"], z3.And(r["writes"] == 0, r["M1"] == d["M0"],
                                                                                                   r["m1"] == d["m0"])))]

    def covers(self, inp, res):
        d = {k: lit(v) for k, v in inp.items()}
        ok = lit(res["ok"])
        return [("ok forward", z3.And(ok, d["t"] > d["M0"])), ("ok same time", z3.And(ok, d["t"] == d["M0"])),
                ("rejected backwards", z3.And(z3.Not(ok), d["t"] < d["M0"])), ("minute advanced", z3.And(ok, lit(res["m1"]) > d["m0"]))]

    def vectors(self, rng):
        out = []
        for _ in range(40):
            M0 = rng.choice([0, 1000, 1700000000000, -5000, rng.randrange(-(1 << 40), 1 << 45)])
            out.append({"M0": M0, "m0": rng.choice([0, M0 // 60000 if -(1 << 31) <= M0 // 60000 < (1 << 31) else 0, 5, -3, 28000000]),
                        "t": rng.choice([M0, M0 - 1, M0 + 1, M0 + 60000, M0 + 120001, 0, (1 << 62), rng.randrange(-(1 << 40), 1 << 45)])})
        return out


JOBS["C44"].append(TimestampUpdate())


# =====================================================================================================
# C42: redemption value and the stake -> redeem round trip (vault / resource manager reads are environment stubs)
# =====================================================================================================
def _validator_substate():
    from mirsmt.values import UndefV
    u = UndefV()
    return StructV("ValidatorSubstate", [u, u, u, u, u, u, StructV("ResourceAddress", [IntV(1, "u8")]),
                                         StructV("Own", [IntV(2, "u8")]), u, u, u, u, u, u])


class RedemptionValue(Job):
    crate = "radix-engine"
    query_timeout_s = 120

    def __init__(self, roundtrip=False):
        self.roundtrip = roundtrip
        if roundtrip:
            self.name = "c42m::validator_stake_then_redeem_roundtrip"
            self.what = ("calculate_stake_unit_amount followed by calculate_redemption_value on the grown pool (vault = "
                         "stake + xrd, supply = supply + minted units), for every non-negative XRD amount, total stake and "
                         "unit supply of a pool whose units are worth at most ... any ratio: staking and immediately "
                         "unstaking never yields more XRD than was staked")
            self.cover_labels = ["ok", "loses to rounding", "first stake"]
        else:
            self.name = "c42m::validator_calculate_redemption_value"
            self.what = ("ValidatorBlueprint::calculate_redemption_value for every non-negative amount of stake units, "
                         "vault balance and unit supply (the two reads are environment stubs): zero supply pays zero; "
                         "otherwise the XRD value never exceeds the proportional share units * vault / supply and falls "
                         "short of it by less than the two truncations")
            self.cover_labels = ["ok", "zero supply", "rounded down"]

    @property
    def env_overrides(self):
        def m_amount(interp, path, args, ret_ty, callee):
            return _EnumV(ret_ty, 0, {0: [dec_v(self._A)]})

        def m_supply(interp, path, args, ret_ty, callee):
            return _EnumV(ret_ty, 0, {0: [_EnumV("Option<Decimal>", 1, {0: [], 1: [dec_v(self._S)]})]})
        return [(_re.compile(r"as NativeVault>::amount::<"), m_amount),
                (_re.compile(r"ResourceManager::total_supply::<"), m_supply)]

    def locate(self, prog):
        return find_function(prog, "consensus_manager/validator.rs", "calculate_redemption_value", nparams=3)

    def inputs(self):
        names = ("x", "T", "S") if self.roundtrip else ("u", "A", "S")
        d = {k: z3.Int(k) for k in names}
        # amounts up to 10^30 XRD: far above the 2.4 * 10^10 XRD max supply, and sums of two stay representable
        return d, [z3.And(v >= 0, v <= 10 ** 48) for v in d.values()]

    def setup_path(self, path, inp):
        d = {k: lit(v) for k, v in inp.items()}
        if not self.roundtrip:
            self._A, self._S = d["A"], d["S"]
        path.frames["job"] = {"api": StructV("Api", []), "sub": _validator_substate()}

    def args(self, inp):
        return [dec_v(lit(inp["u"])), _RefV("&ValidatorSubstate", "job", "sub", ()), _RefV("&mut Y", "job", "api", ())]

    def run_body(self, it, prog, f, path, inp):
        if not self.roundtrip:
            return it.call_function(f, self.args(inp), path)
        d = {k: lit(v) for k, v in inp.items()}
        f_stake = find_function(prog, "consensus_manager/validator.rs", "calculate_stake_unit_amount", nparams=3)
        outs = []
        for o in it.call_function(f_stake, [dec_v(d["x"]), dec_v(d["T"]), dec_v(d["S"])], path):
            if o.kind != "ret":
                outs.append(o)
                continue
            r = o.value
            from mirsmt import interp as _interp
            for p2, tag in it.fork(o.path, [(r.discr == 0, "ok"), (r.discr != 0, "err")]):
                if tag == "err":
                    outs.append(_interp.Outcome(p2, "ret", StructV("Staged", [_BoolV(False), IntV(0, "BInt<3>"), IntV(0, "BInt<3>")])))
                    continue
                units = unwrap_int(r.variants[0][0])
                self._A, self._S = d["T"] + d["x"], d["S"] + units
                for o2 in it.call_function(f, [dec_v(units), _RefV("&ValidatorSubstate", "job", "sub", ()),
                                               _RefV("&mut Y", "job", "api", ())], p2):
                    if o2.kind != "ret":
                        outs.append(o2)
                        continue
                    r2 = o2.value
                    ok2 = r2.discr == 0
                    v2 = unwrap_int(r2.variants[0][0]) if r2.variants.get(0) else z3.IntVal(0)
                    outs.append(_interp.Outcome(o2.path, "ret", StructV("Staged", [_BoolV(ok2), IntV(z3.If(ok2, v2, 0), "BInt<3>"),
                                                                                 IntV(units, "BInt<3>")])))
        return outs

    def extract(self, v):
        if self.roundtrip:
            return {"some": v.fields[0].term, "val": v.fields[1].term, "units": v.fields[2].term}
        return res_extract(v)

    def native(self, nat, vals):
        if self.roundtrip:
            t = nat.call("stake_roundtrip", vals["x"], vals["T"], vals["S"]).split()
            if t[0] == "panic":
                return {"panic": True, "msg": " ".join(t[1:])}
            if t[0] == "err":
                return {"panic": False, "some": False, "val": 0}
            return {"panic": False, "some": True, "val": int(t[1]), "units": int(t[2])}
        return parse_native_res(nat.call("redeem_value", vals["u"], vals["A"], vals["S"]))

    def post(self, inp, res):
        d = {k: lit(v) for k, v in inp.items()}
        ok, v = lit(res["some"]), lit(res["val"])
        if self.roundtrip:
            return [("staking and immediately unstaking never yields more XRD than was staked", z3.Implies(ok, v <= d["x"]))]
        u, A, S = d["u"], d["A"], d["S"]
        return [("zero supply pays zero", z3.Implies(S == 0, z3.And(ok, v == 0))),
                ("the value never exceeds the proportional share", z3.Implies(z3.And(ok, S > 0), z3.And(v >= 0, v * S <= u * A))),
                ("the value falls short of the proportional share by less than the two truncations",
                 z3.Implies(z3.And(ok, S > 0), (v + 1) * S * E18 + u * S > u * A * E18)),
                # (a vault above the 2.4 * 10^10 XRD maximum supply can overflow the XRD-per-unit quotient: not a
                # reachable state, so the never-fails clause is stated for vaults of at most 10^12 XRD)
                ("redeeming at most the supply never fails (vault within the XRD supply)",
                 z3.Implies(z3.And(S > 0, u <= S, A <= 10 ** 30), ok))]

    def covers(self, inp, res):
        d = {k: lit(v) for k, v in inp.items()}
        ok, v = lit(res["some"]), lit(res["val"])
        if self.roundtrip:
            return [("ok", z3.And(ok, d["x"] > 0, d["T"] > 0)), ("loses to rounding", z3.And(ok, v < d["x"], d["T"] > 0)),
                    ("first stake", z3.And(ok, d["T"] == 0))]
        return [("ok", z3.And(ok, d["S"] > 0, v > 0)), ("zero supply", z3.And(ok, d["S"] == 0)),
                ("rounded down", z3.And(ok, d["S"] > 0, v * d["S"] < d["u"] * d["A"]))]

    def vectors(self, rng):
        xs = [0, 1, 3, 7, E18, 3 * E18, 10 * E18, 123456789 * E18, 10 ** 30, 10 ** 40, 10 ** 48]
        names = ("x", "T", "S") if self.roundtrip else ("u", "A", "S")
        out = [{k: rng.choice(xs) for k in names} for _ in range(40)]
        return out


JOBS["C42"] += [RedemptionValue(), RedemptionValue(roundtrip=True)]


# =====================================================================================================
# C10: fungible vault proof locking -- lock_amount / unlock_amount over a stubbed field store
# =====================================================================================================
LK = 3      # slot capacity of the locked-amounts map


def field_store_overrides(job, fields):
    """environment stub of the actor's field store: `fields` maps a payload type substring to a key of the job frame"""
    def ok(ret_ty, v):
        return _EnumV(ret_ty, 0, {0: [v]})

    def which(callee):
        hits = [k for t, k in fields.items() if t in callee]
        if len(hits) != 1:
            raise _models.Refuse("field store stub: unknown payload type in %s" % callee)
        return hits[0]

    def m_read(interp, path, args, ret_ty, callee):
        return ok(ret_ty, path.frames["job"][which(callee)])

    def m_write(interp, path, args, ret_ty, callee):
        path.frames["job"][which(callee)] = _models.deref(interp, path, args[2])
        return ok(ret_ty, _UnitV())
    return [(_re.compile(r"as Into<u8>>::into$"), lambda i, p, a, r, c: IntV(0, "u8")),
            (_re.compile(r"SystemActorApi<RuntimeError>>::actor_open_field$"), lambda i, p, a, r, c: ok(r, IntV(1, "u32"))),
            (_re.compile(r"SystemFieldApi<RuntimeError>>::field_read_typed::<"), m_read),
            (_re.compile(r"SystemFieldApi<RuntimeError>>::field_write_typed::<"), m_write),
            (_re.compile(r"SystemFieldApi<RuntimeError>>::field_close$"), lambda i, p, a, r, c: ok(r, _UnitV())),
            (_re.compile(r"FieldPayload::fully_update_and_into_latest_version$|FieldPayload>::from_content_source::<"),
             lambda i, p, a, r, c: a[0])]


class VaultLock(Job):
    crate = "radix-engine"
    query_timeout_s = 120

    def __init__(self, op):
        self.op = op
        self.name = "c10m::fungible_vault_%s_amount" % op
        self.what = {
            "lock": "FungibleVaultBlueprint::lock_amount from an arbitrary vault state (any liquid balance, <= 2 distinct "
                    "locked amounts with any counts) and any amount: it succeeds exactly when the amount is already covered "
                    "by the largest lock or the liquid balance covers the difference; then only that difference leaves the "
                    "liquid balance (overlapping proofs lock the maximum, not the sum), the lock count of the amount grows "
                    "by one and liquid + locked is conserved; a failed lock changes nothing",
            "unlock": "FungibleVaultBlueprint::unlock_amount of a locked amount from an arbitrary vault state: its count "
                      "drops by one, the liquid balance regains exactly the drop of the largest lock (everything once no "
                      "proof is left) and liquid + locked is conserved; unlocking an amount that is not locked panics",
        }[op]
        self.cover_labels = ["ok", "takes from liquid", "err insufficient"] if op == "lock" else ["ok", "returns to liquid", "count stays positive"]
        if op == "unlock":
            self.allow_panic = r"not locked|expect failed"

    @property
    def env_overrides(self):
        return field_store_overrides(self, {"LockedBalanceFieldPayload": "locked", "VaultBalanceFieldPayload": "balance"})

    def locate(self, prog):
        return find_function(prog, "fungible/fungible_vault.rs", self.op + "_amount", nparams=2)

    def inputs(self):
        d = {k: z3.Int(k) for k in ["B", "a", "q"] + ["%s%d" % (f, i) for i in range(LK) for f in ("p", "k", "c")]}
        pre = [d["B"] >= 0, d["B"] <= 10 ** 40, d["a"] >= 0, d["a"] <= 10 ** 40, d["q"] >= 0, d["q"] <= 10 ** 40]
        for i in range(LK):
            pre += [d["p%d" % i] >= 0, d["p%d" % i] <= 1, d["k%d" % i] >= 0, d["k%d" % i] <= 10 ** 40, d["c%d" % i] >= 1,
                    d["c%d" % i] <= 1000]
            for j in range(i):
                pre.append(z3.Implies(z3.And(d["p%d" % i] == 1, d["p%d" % j] == 1), d["k%d" % i] != d["k%d" % j]))
        if self.op == "lock":
            pre.append(z3.Sum([d["p%d" % i] for i in range(LK)]) < LK)
        return d, pre

    def setup_path(self, path, inp):
        d = {k: lit(v) for k, v in inp.items()}
        self._q = d["q"]
        slots = [StructV("Slot", [dec_v(d["k%d" % i]), IntV(d["c%d" % i], "usize"), _BoolV(d["p%d" % i] == 1)]) for i in range(LK)]
        path.frames["job"] = {"api": StructV("Api", []),
                              "locked": StructV("LockedFungibleResource", [StructV("SymMap<Decimal, usize>", slots)]),
                              "balance": StructV("LiquidFungibleResource", [dec_v(d["B"])])}

    def args(self, inp):
        return [dec_v(lit(inp["a"])), _RefV("&mut Y", "job", "api", ())]

    @staticmethod
    def _obs(slots_terms, q):
        """(count of q, largest locked amount) from [(present, key, count)]"""
        cnt = z3.Sum([z3.If(z3.And(p, k == q), c, 0) for p, k, c in slots_terms])
        mx = z3.IntVal(0)
        for p, k, c in slots_terms:
            mx = z3.If(z3.And(p, k > mx), k, mx)
        return cnt, mx

    def extract_outcome(self, o):
        fr = o.path.frames["job"]
        q = self._q
        slots = [(s.fields[2].term, unwrap_int(s.fields[0]), s.fields[1].term) for s in fr["locked"].fields[0].fields]
        cnt, mx = self._obs(slots, q)
        return {"ok": o.value.discr == 0, "B1": unwrap_int(fr["balance"].fields[0]), "cq": cnt, "max1": mx}

    def native(self, nat, vals):
        ents = [(int(vals["k%d" % i]), int(vals["c%d" % i])) for i in range(LK) if int(vals["p%d" % i]) == 1]
        toks = [self.op, vals["a"], vals["B"], len(ents)]
        for k, c in ents:
            toks += [k, c]
        t = nat.call("vault_lock", *toks).split()
        if t[0] == "panic":
            return {"panic": True, "msg": " ".join(t[1:])}
        n = int(t[2])
        es = [(int(t[3 + 2 * i]), int(t[4 + 2 * i])) for i in range(n)]
        q = int(vals["q"])
        return {"panic": False, "ok": t[0] == "ok", "B1": int(t[1]), "cq": sum(c for k, c in es if k == q),
                "max1": max([k for k, c in es] or [0])}

    def post(self, inp, res):
        d = {k: lit(v) for k, v in inp.items()}
        pre_slots = [(d["p%d" % i] == 1, d["k%d" % i], d["c%d" % i]) for i in range(LK)]
        cq0, max0 = self._obs(pre_slots, d["q"])
        ca0, _ = self._obs(pre_slots, d["a"])
        if res.get("panic") is not None and not isinstance(res.get("panic"), bool) and z3.is_true(z3.simplify(lit(res["panic"]))) \
                or res.get("panic") is True:
            return [("unlock panics only for an amount that is not locked", ca0 == 0)]
        r = {k: lit(v) for k, v in res.items() if not isinstance(v, str)}
        ok = r["ok"]
        if self.op == "lock":
            need = z3.If(d["a"] > max0, d["a"] - max0, 0)
            return [("succeeds exactly when the liquid balance covers what the largest lock does not", ok == (need <= d["B"])),
                    ("only the part not covered by the largest lock leaves the liquid balance", z3.Implies(ok, r["B1"] == d["B"] - need)),
                    ("the lock count of the amount grows by one, other counts are unchanged",
                     z3.Implies(ok, r["cq"] == cq0 + z3.If(d["q"] == d["a"], 1, 0))),
                    ("liquid + largest lock is conserved", z3.Implies(ok, r["B1"] + r["max1"] == d["B"] + max0)),
                    ("a failed lock changes nothing", z3.Implies(z3.Not(ok), z3.And(r["B1"] == d["B"], r["cq"] == cq0)))]
        return [("unlocking a locked amount succeeds", z3.Implies(ca0 > 0, ok)),
                ("its count drops by one, other counts are unchanged", z3.Implies(ok, r["cq"] == cq0 - z3.If(d["q"] == d["a"], 1, 0))),
                ("the liquid balance regains exactly the drop of the largest lock", z3.Implies(ok, r["B1"] == d["B"] + max0 - r["max1"])),
                ("liquid + largest lock is conserved", z3.Implies(ok, r["B1"] + r["max1"] == d["B"] + max0))]

    def covers(self, inp, res):
        d = {k: lit(v) for k, v in inp.items()}
        if "ok" not in res:
            return []
        ok = lit(res["ok"])
        if self.op == "lock":
            return [("ok", ok), ("takes from liquid", z3.And(ok, lit(res["B1"]) < d["B"])), ("err insufficient", z3.Not(ok))]
        return [("ok", ok), ("returns to liquid", z3.And(ok, lit(res["B1"]) > d["B"])),
                ("count stays positive", z3.And(ok, d["q"] == d["a"], lit(res["cq"]) > 0))]

    def vectors(self, rng):
        out = []
        for _ in range(40):
            d = {"B": rng.choice([0, 5, 10, 10 ** 20])}
            keys = rng.sample([3, 5, 8, 10 ** 19], LK)
            npres = rng.randrange(0, LK if self.op == "lock" else LK + 1)
            for i in range(LK):
                d["p%d" % i], d["k%d" % i], d["c%d" % i] = (1 if i < npres else 0), keys[i], rng.choice([1, 2, 7])
            present = keys[:npres]
            d["a"] = rng.choice(present) if (self.op == "unlock" and present) else rng.choice(present + [1, 4, 9, 12, 10 ** 20 + 7])
            if self.op == "unlock" and not present:
                continue
            d["q"] = rng.choice(present + [d["a"], 77])
            out.append(d)
        return out


JOBS["C10"] = [VaultLock("lock"), VaultLock("unlock")]


# ---------------------------------------------------------------------------------------------------------------
# C10, non-fungible vault: lock_non_fungibles / unlock_non_fungibles over a 3-id universe
class NfVaultLock(Job):
    """state per id k in {0,1,2}: liquid flag L_k and lock count C_k (never both liquid and locked); the request is an
    entry-list set of nq distinct symbolic ids. internal_take_non_fungibles / internal_put are recorded effects on L."""
    crate = "radix-engine"
    query_timeout_s = 120
    max_unroll = 30
    fresh_capacity = 3
    case_keys = ("nq",)

    def __init__(self, op):
        self.op = op
        self.name = "c10m::non_fungible_vault_%s_non_fungibles" % op
        self.what = {
            "lock": "NonFungibleVaultBlueprint::lock_non_fungibles from an arbitrary vault state over 3 ids (each liquid, locked "
                    "with any count, or absent) for every request of <= 2 ids: it succeeds exactly when every requested id that "
                    "is not locked yet is liquid; then exactly those ids leave the liquid set, every requested id's lock count "
                    "grows by one (overlapping proofs share the lock) and no other id changes; a failed lock writes nothing",
            "unlock": "NonFungibleVaultBlueprint::unlock_non_fungibles of locked ids: each count drops by one and exactly the ids "
                      "whose last lock is released return to the liquid set; other ids are unchanged; unlocking an id that is "
                      "not locked panics",
        }[op]
        self.cover_labels = ["ok", "id moves between liquid and locked", "count changes without a move"] + \
            (["rejected: id neither liquid nor locked"] if op == "lock" else [])
        if op == "unlock":
            self.allow_panic = r"not locked|expect failed"

    def cases(self, tier):
        return [{"nq": n} for n in (0, 1, 2)]

    def locate(self, prog):
        return find_function(prog, "non_fungible/non_fungible_vault.rs", self.op + "_non_fungibles", nparams=2)

    def inputs(self):
        d = {}
        pre = []
        for k in range(3):
            d["L%d" % k], d["C%d" % k] = z3.Int("L%d" % k), z3.Int("C%d" % k)
            pre += [d["L%d" % k] >= 0, d["L%d" % k] <= 1, d["C%d" % k] >= 0, d["C%d" % k] <= 1000,
                    z3.Or(d["L%d" % k] == 0, d["C%d" % k] == 0)]
        for j in range(self.case["nq"]):
            d["q%d" % j] = z3.Int("q%d" % j)
            pre += [d["q%d" % j] >= 0, d["q%d" % j] <= 2]
            for j2 in range(j):
                pre.append(d["q%d" % j] != d["q%d" % j2])
        return d, pre

    @staticmethod
    def _nfid(t):
        return StructV("NonFungibleLocalId", [IntV(t, "u64")])

    @property
    def env_overrides(self):
        R = _re.compile

        def ok(ret_ty, v):
            return _EnumV(ret_ty, 0, {0: [v]})

        def members(v):
            """[(id term, membership Bool)] of an entry-list set or a slot-array set"""
            if v.kind == "struct" and v.ty.startswith("SymMap"):
                return [(s_.fields[0].fields[0].term, s_.fields[2].term) for s_ in v.fields if not z3.is_false(s_.fields[2].term)]
            return [(e.fields[0].term, z3.BoolVal(True)) for e in v.fields]

        def m_take(interp, path, args, ret_ty, callee):
            job = path.frames["job"]
            ms = members(_models.deref(interp, path, args[0]))
            # every taken id must be liquid (else MissingId)
            missing = z3.Or([z3.And(m, z3.Or([z3.And(t == k, job["L%d" % k].term == 0) for k in range(3)])) for t, m in ms]) \
                if ms else z3.BoolVal(False)
            outs = []
            for p, tag in interp.fork(path, [(z3.Not(missing), "ok"), (missing, "err")]):
                if tag == "err":
                    outs.append(_models.Outcome(p, "ret", _EnumV(ret_ty, 1, {1: [_EnumV("RuntimeError", 0, {0: [UndefV()]})]})))
                    continue
                pj = p.frames["job"]
                for k in range(3):
                    taken = z3.Or([z3.And(m, t == k) for t, m in ms]) if ms else z3.BoolVal(False)
                    pj["L%d" % k] = IntV(z3.If(taken, 0, pj["L%d" % k].term), "u8")
                pj["takes"] = IntV(pj["takes"].term + 1, "u32")
                outs.append(_models.Outcome(p, "ret", ok(ret_ty, StructV("LiquidNonFungibleResource", [_models.deref(interp, p, args[0])]))))
            return outs

        def m_put(interp, path, args, ret_ty, callee):
            job = path.frames["job"]
            res = args[0]
            ms = members(res.fields[0])
            for k in range(3):
                back = z3.Or([z3.And(m, t == k) for t, m in ms]) if ms else z3.BoolVal(False)
                job["L%d" % k] = IntV(z3.If(back, 1, job["L%d" % k].term), "u8")
            job["puts"] = IntV(job["puts"].term + 1, "u32")
            return ok(ret_ty, _UnitV())
        return [(R(r"NonFungibleVaultBlueprint::internal_take_non_fungibles::<"), m_take),
                (R(r"NonFungibleVaultBlueprint::internal_put::<"), m_put),
                (R(r"LiquidNonFungibleResource::new$"), lambda i, p, a_, r, c: StructV("LiquidNonFungibleResource", [a_[0]])),
                (R(r"^<NonFungibleLocalId as Clone>::clone$"), _models.m_clone)] + \
            field_store_overrides(self, {"LockedResourceFieldPayload": "locked"})

    def setup_path(self, path, inp):
        d = self._d = {k: lit(v) for k, v in inp.items()}
        slots = [StructV("Slot", [self._nfid(k), IntV(d["C%d" % k], "usize"), _BoolV(d["C%d" % k] > 0)]) for k in range(3)]
        job = {"api": StructV("Api", []), "takes": IntV(0, "u32"), "puts": IntV(0, "u32"),
               "locked": StructV("LockedNonFungibleResource", [StructV("SymMap<NonFungibleLocalId, usize>", slots)])}
        for k in range(3):
            job["L%d" % k] = IntV(d["L%d" % k], "u8")
        path.frames["job"] = job

    def args(self, inp):
        d = {k: lit(v) for k, v in inp.items()}
        ids = StructV("IndexSet<NonFungibleLocalId>", [self._nfid(d["q%d" % j]) for j in range(self.case["nq"])])
        api = _RefV("&mut Y", "job", "api", ())
        if self.op == "lock":
            from mir_jobs import const_ref
            return [const_ref("&IndexSet<NonFungibleLocalId>", ids), api]
        return [ids, api]

    def extract_outcome(self, o):
        job = o.path.frames["job"]
        m = job["locked"].fields[0]
        res = {"ok": o.value.discr == 0}
        for k in range(3):
            cnt = z3.IntVal(0)
            for s_ in m.fields:
                if z3.is_false(s_.fields[2].term) or s_.fields[0].kind != "struct":
                    continue
                cnt = cnt + z3.If(z3.And(s_.fields[2].term, s_.fields[0].fields[0].term == k), s_.fields[1].term, 0)
            res["C%d" % k] = cnt
            res["L%d" % k] = job["L%d" % k].term
        return res

    def native(self, nat, vals):
        toks = [self.op]
        for k in range(3):
            toks += [vals["L%d" % k], vals["C%d" % k]]
        Q = [vals["q%d" % j] for j in range(self.case["nq"])]
        t = nat.call("nf_vault_lock", *(toks + [len(Q)] + Q)).split()
        if t[0] == "panic":
            return {"panic": True, "msg": " ".join(t[1:])}
        res = {"panic": False, "ok": t[0] == "ok"}
        for k in range(3):
            res["L%d" % k], res["C%d" % k] = int(t[1 + 2 * k]), int(t[2 + 2 * k])
        return res

    def post(self, inp, res):
        if "L0" not in res:
            return []           # an allowed panic (unlocking an id that is not locked) has no post-state
        d = {k: lit(v) for k, v in inp.items()}
        r = {k: lit(v) for k, v in res.items() if not isinstance(v, str)}
        Q = [d["q%d" % j] for j in range(self.case["nq"])]
        asked = lambda k: z3.Or([q == k for q in Q]) if Q else z3.BoolVal(False)
        same = z3.And([z3.And(r["L%d" % k] == d["L%d" % k], r["C%d" % k] == d["C%d" % k]) for k in range(3)])
        if self.op == "lock":
            possible = z3.And([z3.Implies(asked(k), z3.Or(d["C%d" % k] > 0, d["L%d" % k] == 1)) for k in range(3)])
            step = z3.And([z3.If(asked(k), z3.And(r["C%d" % k] == d["C%d" % k] + 1, r["L%d" % k] == 0),
                                 z3.And(r["C%d" % k] == d["C%d" % k], r["L%d" % k] == d["L%d" % k])) for k in range(3)])
            return [("succeeds exactly when every requested id is liquid or already locked", r["ok"] == possible),
                    ("requested ids leave the liquid set, their count grows by one, nothing else changes", z3.Implies(r["ok"], step)),
                    ("a failed lock leaves the lock table as it was", z3.Implies(z3.Not(r["ok"]),
                                                                                 z3.And([r["C%d" % k] == d["C%d" % k] for k in range(3)])))]
        step = z3.And([z3.If(asked(k), z3.And(r["C%d" % k] == d["C%d" % k] - 1,
                                              r["L%d" % k] == z3.If(d["C%d" % k] == 1, 1, d["L%d" % k])),
                             z3.And(r["C%d" % k] == d["C%d" % k], r["L%d" % k] == d["L%d" % k])) for k in range(3)])
        return [("unlocking locked ids always succeeds", r["ok"]),
                ("each count drops by one; exactly the ids released for the last time return to the liquid set", step)]

    def covers(self, inp, res):
        if "L0" not in res:
            return []
        d = {k: lit(v) for k, v in inp.items()}
        ok = lit(res["ok"])
        moved = z3.Or([lit(res["L%d" % k]) != d["L%d" % k] for k in range(3)])
        counted = z3.Or([z3.And(lit(res["C%d" % k]) != d["C%d" % k], lit(res["L%d" % k]) == d["L%d" % k]) for k in range(3)])
        out = [("ok", ok), ("id moves between liquid and locked", z3.And(ok, moved)), ("count changes without a move", z3.And(ok, counted))]
        if self.op == "lock":
            out.append(("rejected: id neither liquid nor locked", z3.Not(ok)))
        return out

    def vectors(self, rng):
        out = []
        for _ in range(40):
            nq = rng.randrange(3)
            d = {"nq": nq}
            for k in range(3):
                kind = rng.randrange(3)
                d["L%d" % k] = 1 if kind == 0 else 0
                d["C%d" % k] = rng.choice([1, 2, 5]) if kind == 1 else 0
            qs = rng.sample(range(3), nq)
            if self.op == "unlock":
                locked = [k for k in range(3) if d["C%d" % k] > 0]
                if len(locked) < nq:
                    for k in qs:
                        d["L%d" % k], d["C%d" % k] = 0, rng.choice([1, 2])
                else:
                    qs = rng.sample(locked, nq)
            for j, q in enumerate(qs):
                d["q%d" % j] = q
            out.append(d)
        return out


JOBS["C10"] += [NfVaultLock("lock"), NfVaultLock("unlock")]
