"""setup: pre-build the Kani dependency graph, the native replay binary and the MIR dump (offline)."""
import os
import sys
import time

sys.path.insert(0, os.path.dirname(os.path.abspath(__file__)))
import kani_engine  # noqa: E402
import mir_engine  # noqa: E402


def main():
    t0 = time.time()
    ok, out, dt = kani_engine.prebuild("c13::c13_lock_state_step")
    print("kani harness crate + /repo crates compiled: %s (%.0fs)" % (ok, dt))
    if not ok:
        print(out[-4000:])
        return 1
    b = mir_engine.build_replay("radix-common")
    print("native replay binary: %s (%.0fs)" % (b, time.time() - t0))
    p, dt = mir_engine.dump_mir("radix-common")
    print("MIR dump: %s (%.0fs)" % (p, dt))
    b = mir_engine.build_replay("radix-engine")
    print("native replay binary (radix-engine): %s (%.0fs)" % (b, time.time() - t0))
    b = mir_engine.build_replay("radix-substate-store-impls")
    print("native replay binary (substate store): %s (%.0fs)" % (b, time.time() - t0))
    for crate in ("radix-transactions", "radix-engine-interface", "radix-substate-store-impls", "radix-engine"):
        p, dt = mir_engine.dump_mir(crate)
        print("MIR dump: %s (%.0fs)" % (p, dt))
    print("setup done in %.0fs" % (time.time() - t0))
    return 0


if __name__ == "__main__":
    sys.exit(main())
