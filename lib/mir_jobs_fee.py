"""Engine-M jobs for C06: SystemLoanFeeReserve arithmetic (radix-engine) + TipSpecifier (radix-transactions).

State is the real struct (field order = declaration order); the IndexMap / Vec fields are opaque placeholders because the
functions decided here do not touch them. Native replay builds the same situation through the public API
(new / lock_fee / consume_* / finalize) with the `fee_run` scenario op of /verif/replay-engine.
"""
import z3

from mir_engine import Job, find_function, lit
from mirsmt.values import IntV, BoolV, StructV, EnumV, RefV, UnitV, UndefV
from mir_jobs import dec_v, unwrap_int, tdiv, I192_HI, E18, JOBS

U32 = (1 << 32) - 1
PMAX = 10 ** 30           # prices up to 10^12 XRD per unit: no Decimal overflow in any product below
AMAX = 10 ** 45


def tip_attos(kind, val):
    return z3.If(kind == 0, 0, z3.If(kind == 1, val * 10 ** 16, val * 10 ** 14))


def tip_v(kind, val):
    return EnumV("TipSpecifier", kind, {0: [], 1: [IntV(val, "u16")], 2: [IntV(val, "u32")]})


def costing_v(d):
    return StructV("CostingParameters", [dec_v(d["P"]), IntV(d["limit"], "u32"), IntV(d["loan"], "u32"), dec_v(d["Pf"]),
                                         IntV(d["flimit"], "u32"), dec_v(d["usd"]), dec_v(d["ssp"]), dec_v(d["asp"])])


def txcosting_v(d):
    return StructV("TransactionCostingParameters", [tip_v(d["tk"], d["tv"]), dec_v(d["credit"])])


PARAMS = ["P", "limit", "loan", "Pf", "flimit", "usd", "ssp", "asp", "tk", "tv", "credit"]
STATE = ["peff", "pfeff", "bal", "owed", "U", "Ud", "Uf", "Ufd", "roy", "stor"]


def param_pre(d):
    pre = []
    for k in ("P", "Pf", "usd", "ssp", "asp"):
        pre += [d[k] >= 0, d[k] <= PMAX]
    for k in ("limit", "loan", "flimit"):
        pre += [d[k] >= 0, d[k] <= U32]
    pre += [d["tk"] >= 0, d["tk"] <= 2, d["tv"] >= 0, z3.If(d["tk"] == 1, d["tv"] <= 65535, d["tv"] <= U32),
            z3.Implies(d["tk"] == 0, d["tv"] == 0), d["credit"] >= 0, d["credit"] <= AMAX]
    return pre


def reserve_v(d):
    opaque_map = StructV("SymMap<opaque>", [])
    return StructV("SystemLoanFeeReserve", [
        costing_v(d), txcosting_v(d), BoolV(False), dec_v(d["peff"]), dec_v(d["pfeff"]), dec_v(d["bal"]), dec_v(d["owed"]),
        IntV(d["U"], "u32"), IntV(d["Ud"], "u32"), IntV(d["Uf"], "u32"), IntV(d["Ufd"], "u32"), dec_v(d["roy"]),
        opaque_map, dec_v(d["stor"]), opaque_map, StructV("Vec<locked_fees>", [])])


def read_reserve(v):
    f = v.fields
    return {"peff": unwrap_int(f[3]), "pfeff": unwrap_int(f[4]), "bal": unwrap_int(f[5]), "owed": unwrap_int(f[6]),
            "U": f[7].term, "Ud": f[8].term, "Uf": f[9].term, "Ufd": f[10].term, "roy": unwrap_int(f[11]),
            "stor": unwrap_int(f[13])}


def eff(P, d):
    return tdiv(P * (E18 + tip_attos(d["tk"], d["tv"])), E18)


def native_params(vals, loan=None):
    return [vals["P"], vals["limit"], vals["loan"] if loan is None else loan, vals["Pf"], vals["flimit"], vals["usd"],
            vals["ssp"], vals["asp"], vals["tk"], vals["tv"], vals["credit"]]


def only_known(posts, res):
    """native results expose only part of the state: keep the post-conditions whose result keys are all present"""
    return [(l, phi) for (l, phi, keys) in posts if all(k in res for k in keys)]


# =====================================================================================================
class FeeNew(Job):
    crate = "radix-engine"
    query_timeout_s = 120

    def __init__(self):
        self.name = "c06m::fee_reserve_new"
        self.what = ("SystemLoanFeeReserve::new for every non-negative costing parameter set (prices <= 10^12 XRD) and "
                     "every tip specifier: the effective unit prices are trunc(price * (1 + tip)), the system loan is "
                     "effective price * loan units, the starting balance is loan + free credit; no panic")
        self.cover_labels = ["percentage tip", "basis point tip", "no tip", "price not a multiple of 10^-14"]

    def locate(self, prog):
        return find_function(prog, "costing/fee_reserve.rs", "new", nparams=3)

    def inputs(self):
        d = {k: z3.Int(k) for k in PARAMS}
        return d, param_pre(d)

    def args(self, inp):
        d = {k: lit(v) for k, v in inp.items()}
        return [costing_v(d), txcosting_v(d), BoolV(False)]

    def extract(self, v):
        return read_reserve(v)

    def native(self, nat, vals):
        t = nat.call("fee_run", *(native_params(vals) + ["BAL"])).split()
        if t[0] == "panic":
            return {"panic": True, "msg": " ".join(t[1:])}
        return {"panic": False, "bal": int(t[1])}

    def post(self, inp, res):
        d = {k: lit(v) for k, v in inp.items()}
        r = {k: lit(v) for k, v in res.items() if not isinstance(v, str)}
        pe, pfe = eff(d["P"], d), eff(d["Pf"], d)
        posts = [("effective execution price is trunc(price * (1 + tip))", r.get("peff") == pe if "peff" in r else None, ["peff"]),
                 ("effective finalization price is trunc(price * (1 + tip))", r.get("pfeff") == pfe if "pfeff" in r else None, ["pfeff"]),
                 ("system loan is effective price * loan units", r.get("owed") == pe * d["loan"] if "owed" in r else None, ["owed"]),
                 ("starting balance is loan + free credit", r["bal"] == pe * d["loan"] + d["credit"], ["bal"]),
                 ("counters start at zero", z3.And(r.get("U", 0) == 0, r.get("Uf", 0) == 0, r.get("Ud", 0) == 0,
                                                   r.get("Ufd", 0) == 0, r.get("roy", 0) == 0, r.get("stor", 0) == 0)
                  if "U" in r else None, ["U"])]
        return only_known(posts, r)

    def covers(self, inp, res):
        return [("percentage tip", inp["tk"] == 1), ("basis point tip", inp["tk"] == 2), ("no tip", inp["tk"] == 0),
                ("price not a multiple of 10^-14", lit(inp["P"]) % 10 ** 4 != 0)]

    def vectors(self, rng):
        out = []
        for _ in range(25):
            tk = rng.randrange(3)
            out.append({"P": rng.choice([0, 1, 3, 5 * 10 ** 10, 10 ** 18, rng.randrange(10 ** 20)]), "limit": rng.randrange(U32),
                        "loan": rng.choice([0, 1, 4000000, rng.randrange(U32)]), "Pf": rng.choice([0, 7, 5 * 10 ** 10, rng.randrange(10 ** 20)]),
                        "flimit": rng.randrange(U32), "usd": rng.randrange(10 ** 20), "ssp": rng.randrange(10 ** 20),
                        "asp": rng.randrange(10 ** 20), "tk": tk,
                        "tv": 0 if tk == 0 else rng.randrange(65536 if tk == 1 else U32), "credit": rng.choice([0, 10 ** 20, rng.randrange(10 ** 30)])})
        return out


# =====================================================================================================
class FeeConsume(Job):
    """consume_execution_internal / consume_finalization_internal: one step from an arbitrary reserve state"""
    crate = "radix-engine"
    query_timeout_s = 120

    def __init__(self, which):
        self.which = which
        self.name = "c06m::fee_reserve_consume_%s" % which
        self.what = ("SystemLoanFeeReserve::consume_%s_internal, one step from an arbitrary reserve state: succeeds "
                     "exactly when committed + units stays within the cost unit limit (no u32 wrap) and the balance "
                     "covers effective price * units; then exactly that amount is debited and the units are committed; "
                     "otherwise nothing changes (LimitExceeded exactly above the limit); no panic" % which)
        self.cover_labels = ["ok", "limit exceeded", "insufficient balance", "exact limit", "exact balance"]

    def locate(self, prog):
        return find_function(prog, "costing/fee_reserve.rs", "consume_%s_internal" % self.which, nparams=2)

    def inputs(self):
        d = {k: z3.Int(k) for k in PARAMS + STATE}
        d["u"] = z3.Int("u")
        pre = param_pre(d) + [d["u"] >= 0, d["u"] <= U32]
        for k in ("U", "Ud", "Uf", "Ufd"):
            pre += [d[k] >= 0, d[k] <= U32]
        for k in ("peff", "pfeff", "bal", "owed", "roy", "stor"):
            pre += [d[k] >= 0, d[k] <= AMAX]
        pre += [d["peff"] <= 2 * PMAX * 10 ** 5, d["pfeff"] <= 2 * PMAX * 10 ** 5]
        return d, pre

    def setup_path(self, path, inp):
        path.frames["job"] = {"self": reserve_v({k: lit(v) for k, v in inp.items()})}

    def args(self, inp):
        return [RefV("&mut SystemLoanFeeReserve", "job", "self", ()), IntV(lit(inp["u"]), "u32")]

    def extract_outcome(self, o):
        d = read_reserve(o.path.frames["job"]["self"])
        v = o.value
        d["ok"] = v.discr == 0
        err = v.variants.get(1, [None])[0] if v.variants.get(1) else None
        d["errkind"] = err.discr if err is not None and err.kind == "enum" else z3.IntVal(-1)
        return d

    def native(self, nat, vals):
        # reach (balance, committed) through the public API: loan 0 units, no credit, lock what is needed, consume
        ex = self.which == "execution"
        price = int(vals["peff"] if ex else vals["pfeff"])
        committed = int(vals["U"] if ex else vals["Uf"])
        op = "EXEC" if ex else "FIN"
        params = native_params(vals, loan=0)
        params[10] = 0
        script = params + ["LOCK", int(vals["bal"]) + price * committed, 0]
        if committed:
            script += [op, committed]
        script += [op, vals["u"], "BAL"]
        t = nat.call("fee_run", *script).split()
        if t[0] == "panic":
            return {"panic": True, "msg": " ".join(t[1:])}
        return {"panic": False, "ok": t[-2] == "ok", "bal": int(t[-1])}

    def native_failed(self, nat, vals, label):
        """scenario: a fresh reserve with the same prices (loan 0 so that no loan repayment interferes), funded so that
        the balance before the step equals the counterexample's, then the committed units, then the step"""
        which = self.which
        # the effective prices are derived by new(): the counterexample must use the derived ones to be reachable
        params = native_params(vals, loan=0)
        params[10] = 0
        op = "EXEC" if which == "execution" else "FIN"
        committed = int(vals["U"] if which == "execution" else vals["Uf"])
        t0 = nat.call("fee_run", *(params + ["LOCK", 10 ** 50, 0, op, 1, "BAL"])).split()
        if t0[0] == "panic":
            return {"panic": True}, []
        price = 10 ** 50 - int(t0[-1]) if t0[2] == "ok" else None
        if price is None:
            return {"note": "unit price not observable"}, []
        bal = int(vals["bal"])
        fund = bal + price * committed
        script = params + ["LOCK", fund, 0]
        if committed:
            script += [op, committed]
        script += ["BAL", op, vals["u"], "BAL"]
        t = nat.call("fee_run", *script).split()
        if t[0] == "panic":
            return {"panic": True, "msg": " ".join(t[1:])}, ["native panic: " + " ".join(t[1:])]
        toks = t[1:]
        if committed and toks[1] != "ok":
            return {"note": "pre-state not reachable natively: " + " ".join(toks)}, []
        before, res, after = int(toks[-3]), toks[-2], int(toks[-1])
        limit = int(vals["limit"] if which == "execution" else vals["flimit"])
        u = int(vals["u"])
        want_ok = (committed + u <= limit) and (before >= price * u)
        failed = []
        if u == 0:
            want_ok = True
        if (res == "ok") != want_ok:
            failed.append("consume_%s(%d) -> %s but limit %d, committed %d, balance %d, unit price %d" % (
                which, u, res, limit, committed, before, price))
        if res == "ok" and before - after != price * u:
            failed.append("debited %d instead of %d" % (before - after, price * u))
        if res != "ok" and before != after:
            failed.append("a refused consume changed the balance")
        return {"before": before, "result": res, "after": after}, failed

    def post(self, inp, res):
        if "bal" not in res or "ok" not in res:
            return []
        d = {k: lit(v) for k, v in inp.items()}
        r = {k: lit(v) for k, v in res.items() if not isinstance(v, str)}
        ex = self.which == "execution"
        price, com, lim = (d["peff"], d["U"], d["limit"]) if ex else (d["pfeff"], d["Uf"], d["flimit"])
        amount = price * d["u"]
        within = z3.And(com + d["u"] <= U32, com + d["u"] <= lim)
        ok_expected = z3.And(within, d["bal"] >= amount)
        unchanged = z3.And([r[k] == d[k] for k in STATE])
        new_com = com + d["u"]
        posts = [
            ("succeeds exactly when within the unit limit and the balance covers price * units", r["ok"] == ok_expected),
            ("on success exactly price * units is debited and the units are committed",
             z3.Implies(r["ok"], z3.And(r["bal"] == d["bal"] - amount, (r["U"] if ex else r["Uf"]) == new_com,
                                        z3.And([r[k] == d[k] for k in STATE if k not in ("bal", "U" if ex else "Uf")])))),
            ("on failure nothing changes", z3.Implies(z3.Not(r["ok"]), unchanged)),
            ("committed units never exceed the limit afterwards", z3.Implies(z3.And(r["ok"], com <= lim),
                                                                             (r["U"] if ex else r["Uf"]) <= lim)),
        ]
        return posts

    def covers(self, inp, res):
        if "ok" not in res:
            return []
        d = {k: lit(v) for k, v in inp.items()}
        ex = self.which == "execution"
        price, com, lim = (d["peff"], d["U"], d["limit"]) if ex else (d["pfeff"], d["Uf"], d["flimit"])
        ok = lit(res["ok"])
        return [("ok", z3.And(ok, d["u"] > 0)), ("limit exceeded", z3.And(z3.Not(ok), com + d["u"] > lim)),
                ("insufficient balance", z3.And(z3.Not(ok), com + d["u"] <= lim)),
                ("exact limit", z3.And(ok, com + d["u"] == lim)), ("exact balance", z3.And(ok, d["bal"] == price * d["u"], d["u"] > 0))]

    def vectors(self, rng):
        out = []
        ex = self.which == "execution"
        for _ in range(30):
            tk = rng.randrange(3)
            tv = 0 if tk == 0 else rng.choice([1, 2, 50, 100, rng.randrange(65536)])
            P = rng.choice([1, 3, 5 * 10 ** 10, 10 ** 18, rng.randrange(1, 10 ** 12)])
            Pf = rng.choice([1, 7, 5 * 10 ** 10, rng.randrange(1, 10 ** 12)])
            t = 0 if tk == 0 else (tv * 10 ** 16 if tk == 1 else tv * 10 ** 14)
            lim, flim = rng.choice([10, 1000, 10 ** 8]), rng.choice([10, 1000, 10 ** 8])
            mylim = lim if ex else flim
            com = rng.randrange(0, mylim + 1)
            u = rng.choice([0, 1, mylim - com, mylim - com + 1, rng.randrange(0, 2 * mylim)])
            peff, pfeff = P * (E18 + t) // E18, Pf * (E18 + t) // E18
            price = peff if ex else pfeff
            bal = rng.choice([0, price * u, max(0, price * u - 1), price * u + 5, rng.randrange(0, 10 ** 25)])
            out.append({"P": P, "limit": lim, "loan": 0, "Pf": Pf, "flimit": flim, "usd": 1, "ssp": 2, "asp": 3, "tk": tk,
                        "tv": tv, "credit": 0, "peff": peff, "pfeff": pfeff, "bal": bal, "owed": 0,
                        "U": com if ex else 0, "Ud": 0, "Uf": 0 if ex else com, "Ufd": 0, "roy": 0, "stor": 0, "u": max(0, u)})
        return out


# =====================================================================================================
class FeeFinalize(Job):
    crate = "radix-engine"
    query_timeout_s = 180
    native_only_keys = ("charged",)      # observed natively as the balance difference; symbolically it is price * units

    def __init__(self):
        self.name = "c06m::fee_reserve_finalize"
        self.what = ("SystemLoanFeeReserve::finalize from every reserve state whose effective prices are the ones "
                     "new() derives: execution / finalization cost = price * committed units, the bad debt, royalty "
                     "and storage totals are carried over, and -- fees fully paid -- the reported execution + "
                     "finalization + tipping cost equals what the reserve actually charged for those units "
                     "(effective price * units); no panic")
        self.cover_labels = ["tip", "no tip", "both phases"]

    def locate(self, prog):
        return find_function(prog, "costing/fee_reserve.rs", "finalize", nparams=1)

    def inputs(self):
        d = {k: z3.Int(k) for k in PARAMS + STATE}
        pre = param_pre(d)
        for k in ("U", "Ud", "Uf", "Ufd"):
            pre += [d[k] >= 0, d[k] <= U32]
        for k in ("bal", "owed", "roy", "stor"):
            pre += [d[k] >= 0, d[k] <= AMAX]
        # reachable states only: the effective prices are the ones new() derives and the committed units respect the
        # limits (both established by c06m::fee_reserve_new / c06m::fee_reserve_consume_*)
        pre += [d["peff"] == eff(d["P"], d), d["pfeff"] == eff(d["Pf"], d), d["U"] <= d["limit"], d["Uf"] <= d["flimit"]]
        return d, pre

    def args(self, inp):
        return [reserve_v({k: lit(v) for k, v in inp.items()})]

    def extract(self, v):
        s = v.fields[0]       # (summary, costing parameters, transaction costing parameters)
        f = s.fields
        return {"Uc": f[0].term, "Ufc": f[1].term, "exec": unwrap_int(f[2]), "fin": unwrap_int(f[3]),
                "tip": unwrap_int(f[4]), "storage": unwrap_int(f[5]), "royalty": unwrap_int(f[6]),
                "baddebt": unwrap_int(f[7])}

    def _scenario(self, nat, vals):
        params = native_params(vals, loan=0)
        params[10] = 0
        script = params + ["LOCK", 10 ** 55, 0]
        if int(vals["U"]):
            script += ["EXEC", vals["U"]]
        if int(vals["Uf"]):
            script += ["FIN", vals["Uf"]]
        script += ["BAL", "FINALIZE"]
        return nat.call("fee_run", *script).split()

    def native(self, nat, vals):
        # units above the limits cannot be committed through the public API: such vectors are not generated
        t = self._scenario(nat, vals)
        if t[0] == "panic":
            return {"panic": True, "msg": " ".join(t[1:])}
        s = [int(x) for x in t[-12:]]
        bal = int(t[-13])
        return {"panic": False, "Uc": s[0], "Ufc": s[1], "exec": s[2], "fin": s[3], "tip": s[4], "charged": 10 ** 55 - bal}

    def post(self, inp, res):
        d = {k: lit(v) for k, v in inp.items()}
        r = {k: lit(v) for k, v in res.items() if not isinstance(v, str)}
        charged = r["charged"] if "charged" in r else d["peff"] * d["U"] + d["pfeff"] * d["Uf"]
        posts = [
            ("committed units are reported", z3.And(r["Uc"] == d["U"], r["Ufc"] == d["Uf"]), ["Uc"]),
            ("execution cost is price * units", r["exec"] == d["P"] * d["U"], ["exec"]),
            ("finalization cost is price * units", r["fin"] == d["Pf"] * d["Uf"], ["fin"]),
            ("storage, royalty and bad debt totals are carried over",
             z3.And(r.get("storage", 0) == d["stor"], r.get("royalty", 0) == d["roy"], r.get("baddebt", 0) == d["owed"])
             if "storage" in r else None, ["storage"]),
            ("reported execution + finalization + tipping cost equals what the reserve charged for those units",
             r["exec"] + r["fin"] + r["tip"] == charged, ["exec", "fin", "tip"]),
        ]
        return only_known(posts, r)

    def covers(self, inp, res):
        return [("tip", z3.And(lit(inp["tk"]) > 0, lit(inp["tv"]) > 0, lit(res["tip"]) > 0)), ("no tip", lit(inp["tk"]) == 0),
                ("both phases", z3.And(lit(inp["U"]) > 0, lit(inp["Uf"]) > 0))]

    def vectors(self, rng):
        out = []
        for _ in range(25):
            tk = rng.randrange(3)
            tv = 0 if tk == 0 else rng.choice([1, 2, 50, 100, rng.randrange(65536)])
            P = rng.choice([0, 5 * 10 ** 10, 10 ** 18, rng.randrange(1, 10 ** 8) * 10 ** 4])
            Pf = rng.choice([0, 5 * 10 ** 10, rng.randrange(1, 10 ** 8) * 10 ** 4])
            t = 0 if tk == 0 else (tv * 10 ** 16 if tk == 1 else tv * 10 ** 14)
            lim, flim = rng.randrange(10 ** 3, U32), rng.randrange(10 ** 3, U32)
            out.append({"P": P, "limit": lim, "loan": 0, "Pf": Pf, "flimit": flim, "usd": 1, "ssp": 2, "asp": 3, "tk": tk, "tv": tv,
                        "credit": 0, "peff": P * (E18 + t) // E18, "pfeff": Pf * (E18 + t) // E18, "bal": 0, "owed": 0,
                        "U": rng.randrange(0, lim), "Ud": 0, "Uf": rng.randrange(0, flim), "Ufd": 0, "roy": 0, "stor": 0})
        return out


JOBS["C06"] = [FeeNew(), FeeConsume("execution"), FeeConsume("finalization"), FeeFinalize()]


class FeeRepayAll(Job):
    """repay_all applies the deferred units (payload / signature validation costs recorded before the loan is repaid)
    through the same limit and balance checks as direct consumption."""
    crate = "radix-engine"
    query_timeout_s = 120
    max_unroll = 20

    def __init__(self):
        self.name = "c06m::fee_reserve_repay_all"
        self.what = ("SystemLoanFeeReserve::repay_all from an arbitrary reserve state (any committed and deferred execution / "
                     "finalization units, balance and amount owed; no deferred storage): it succeeds exactly when the deferred "
                     "units fit under both unit limits, the balance pays for them and then covers the amount owed; afterwards "
                     "committed units (now including the deferred ones) never exceed their limits, nothing is deferred or "
                     "owed any more, and the balance dropped by exactly price * deferred units + owed")
        self.cover_labels = ["repaid with deferred units", "deferred units exceed the limit", "loan not repayable"]

    def locate(self, prog):
        return find_function(prog, "costing/fee_reserve.rs", "repay_all", nparams=1)

    def inputs(self):
        d = {k: z3.Int(k) for k in PARAMS + STATE}
        pre = param_pre(d)
        for k in ("U", "Ud", "Uf", "Ufd"):
            pre += [d[k] >= 0, d[k] <= U32]
        for k in ("peff", "pfeff", "bal", "owed", "roy", "stor"):
            pre += [d[k] >= 0, d[k] <= AMAX]
        pre += [d["peff"] <= 2 * PMAX * 10 ** 5, d["pfeff"] <= 2 * PMAX * 10 ** 5, d["U"] <= d["limit"], d["Uf"] <= d["flimit"]]
        return d, pre

    def setup_path(self, path, inp):
        path.frames["job"] = {"self": reserve_v({k: lit(v) for k, v in inp.items()})}

    def args(self, inp):
        return [RefV("&mut SystemLoanFeeReserve", "job", "self", ())]

    def extract_outcome(self, o):
        d = read_reserve(o.path.frames["job"]["self"])
        d["ok"] = o.value.discr == 0
        return d

    def native(self, nat, vals):
        """scenario through the public API: a reserve whose loan is larger than every unit count used (so nothing is repaid
        before), funded by a lock, deferred units recorded, committed units consumed, then repay_all"""
        params = native_params(vals)
        params[2] = U32                    # loan: never reached by consume_execution
        params[10] = 0
        t0 = nat.call("fee_run", *(params + ["BAL"])).split()
        if t0[0] == "panic":
            return {"panic": True, "msg": " ".join(t0[1:])}
        return {"panic": False, "note": "see native_failed"}

    native_only_keys = ("note",)

    def post(self, inp, res):
        if "bal" not in res:
            return []
        d = {k: lit(v) for k, v in inp.items()}
        r = {k: lit(v) for k, v in res.items() if not isinstance(v, str)}
        cost = d["peff"] * d["Ud"] + d["pfeff"] * d["Ufd"]
        fits = z3.And(d["U"] + d["Ud"] <= d["limit"], d["Uf"] + d["Ufd"] <= d["flimit"])
        # the execution part is applied first: a failing finalization part leaves the execution part applied
        ok_expected = z3.And(fits, d["bal"] >= cost + d["owed"])
        return [("succeeds exactly when the deferred units fit under the limits and the balance covers them and the loan",
                 r["ok"] == ok_expected),
                ("committed units never exceed their limits afterwards, whatever the outcome",
                 z3.And(r["U"] <= d["limit"], r["Uf"] <= d["flimit"])),
                ("on success the deferred units are committed, nothing is deferred or owed, the balance paid for all of it",
                 z3.Implies(r["ok"], z3.And(r["U"] == d["U"] + d["Ud"], r["Uf"] == d["Uf"] + d["Ufd"], r["Ud"] == 0, r["Ufd"] == 0,
                                            r["owed"] == 0, r["bal"] == d["bal"] - cost - d["owed"])))]

    def covers(self, inp, res):
        d = {k: lit(v) for k, v in inp.items()}
        ok = lit(res["ok"])
        return [("repaid with deferred units", z3.And(ok, d["Ud"] > 0, d["owed"] > 0)),
                ("deferred units exceed the limit", z3.And(z3.Not(ok), d["U"] + d["Ud"] > d["limit"])),
                ("loan not repayable", z3.And(z3.Not(ok), d["U"] + d["Ud"] <= d["limit"], d["Uf"] + d["Ufd"] <= d["flimit"]))]

    def vectors(self, rng):
        return []

    def native_failed(self, nat, vals, label):
        """replay: committed execution units U, deferred Ud (and finalization likewise) against the limits, through
        consume_execution / consume_deferred_execution / repay_all of the public API; the loan is kept above the committed
        units so that only the final repay_all applies the deferred units"""
        params = native_params(vals)
        params[10] = 0
        U, Ud, Uf, Ufd = int(vals["U"]), int(vals["Ud"]), int(vals["Uf"]), int(vals["Ufd"])
        params[2] = min(U32, max(U + 1, 1))      # loan just above the committed execution units
        script = params + ["LOCK", 10 ** 60, 0]
        if Ud:
            script += ["DEFER_EXEC", Ud]
        if Ufd:
            script += ["DEFER_FIN", Ufd]
        if U:
            script += ["EXEC", U]
        if Uf:
            script += ["FIN", Uf]
        script += ["REPAY", "UNITS"]
        t = nat.call("fee_run", *script).split()
        if t[0] == "panic":
            return {"panic": True, "msg": " ".join(t[1:])}, ["native panic: " + " ".join(t[1:])]
        toks = t[1:]
        # ... REPAY -> ok|err ; UNITS -> <exec committed> <fin committed>
        res, eu, fu = toks[-3], int(toks[-2]), int(toks[-1])
        failed = []
        if eu > int(vals["limit"]) or fu > int(vals["flimit"]):
            failed.append("after repay_all (%s): %d execution units (limit %s), %d finalization units (limit %s)" % (
                res, eu, vals["limit"], fu, vals["flimit"]))
        want_ok = U + Ud <= int(vals["limit"]) and Uf + Ufd <= int(vals["flimit"])
        if (res == "ok") != want_ok:
            failed.append("repay_all -> %s with %d+%d execution units (limit %s), %d+%d finalization units (limit %s)" % (
                res, U, Ud, vals["limit"], Uf, Ufd, vals["flimit"]))
        return {"result": res, "exec_units": eu, "fin_units": fu}, failed


JOBS["C06"].append(FeeRepayAll())
