"""Engine-M jobs for C41: pool contributions (radix-engine/src/blueprints/pool/v1/v1_1). The pool's state field, its
vault(s), the incoming bucket(s) and the pool-unit resource manager are environment stubs with symbolic amounts; natively
the real `contribute` runs over the MockApi."""
import re

import z3

from mir_engine import Job, find_function, lit
from mirsmt.values import IntV, BoolV, StructV, EnumV, RefV, UnitV, UndefV
from mirsmt import models as _models
from mir_jobs import JOBS, dec_v, unwrap_int
from mir_jobs_engine import field_store_overrides

MAXA = 10 ** 30          # 10^12 whole units in attos
E18 = 10 ** 18
E36 = 10 ** 36


def res_v(t):
    return StructV("ResourceAddress", [IntV(t, "u8")])


def own_v(n):
    return StructV("Own", [StructV("NodeId", [IntV(n, "u8")])])


class Pool1Contribute(Job):
    crate = "radix-engine"
    query_timeout_s = 120
    max_unroll = 20

    def __init__(self):
        self.name = "c41m::one_resource_pool_contribute"
        self.what = ("OneResourcePoolBlueprint::contribute (v1_1) for every contribution, reserve and pool-unit supply <= "
                     "10^12 units: fails for an empty bucket, a foreign resource, a pool with units but no reserves, when the "
                     "share rounds to zero units or exceeds the Decimal range; otherwise the whole bucket goes into the vault and the units minted are "
                     "the contribution (new pool), contribution + dust (dried-out pool), or never more than the pro-rata "
                     "share c*S/R and within the documented truncations of it (2 attos + S*10^-36)")
        self.cover_labels = ["new pool", "dried-out pool gets the dust", "normal operation", "rejected: units but no reserves",
                             "rejected: rounds to zero"]

    def locate(self, prog):
        cands = [f for f in prog.by_last.get("contribute", []) if f.kind == "fn" and "v1_1/one_resource_pool_blueprint.rs" in f.name
                 and len(f.params) == 2]
        if len(cands) != 1:
            raise LookupError("one_resource_pool contribute: %d candidates" % len(cands))
        return cands[0]

    def inputs(self):
        d = {k: z3.Int(k) for k in ("match", "c", "R", "S")}
        pre = [d["match"] >= 0, d["match"] <= 1]
        for k in ("c", "R", "S"):
            pre += [d[k] >= 0, d[k] <= MAXA]
        return d, pre

    @property
    def env_overrides(self):
        R = re.compile
        d = lambda: self._d

        def ok(ret_ty, v):
            return EnumV(ret_ty, 0, {0: [v]})

        def node_of(interp, path, v):
            v = _models.deref(interp, path, v)
            while v.kind == "struct" and v.ty != "NodeId":
                v = v.fields[0]
            return z3.simplify(v.fields[0].term).as_long()

        def m_is_empty(interp, path, args, ret_ty, callee):
            return ok(ret_ty, BoolV(d()["c"] == 0))

        def m_bucket_res(interp, path, args, ret_ty, callee):
            return ok(ret_ty, res_v(z3.If(d()["match"] == 1, 0, 1)))

        def m_vault_res(interp, path, args, ret_ty, callee):
            return ok(ret_ty, res_v(0))

        def m_vault_amount(interp, path, args, ret_ty, callee):
            return ok(ret_ty, dec_v(d()["R"]))

        def m_bucket_amount(interp, path, args, ret_ty, callee):
            return ok(ret_ty, dec_v(d()["c"]))

        def m_supply(interp, path, args, ret_ty, callee):
            return ok(ret_ty, EnumV("Option<Decimal>", 1, {1: [dec_v(d()["S"])]}))

        def m_put(interp, path, args, ret_ty, callee):
            job = path.frames["job"]
            job["puts"] = IntV(job["puts"].term + 1, "u32")
            job["put_ok"] = BoolV(z3.And(job["put_ok"].term, z3.BoolVal(node_of(interp, path, args[0]) == 20),
                                         z3.BoolVal(node_of(interp, path, args[1]) == 21)))
            return ok(ret_ty, UnitV())

        def m_mint(interp, path, args, ret_ty, callee):
            job = path.frames["job"]
            job["mints"] = IntV(job["mints"].term + 1, "u32")
            job["minted"] = IntV(unwrap_int(args[1]), "i256")
            return ok(ret_ty, StructV("FungibleBucket", [StructV("Bucket", [own_v(22)])]))

        def m_unit_ok(interp, path, args, ret_ty, callee):
            return ok(ret_ty, UnitV())

        def m_eq(interp, path, args, ret_ty, callee):
            e = _models.val_eq(_models.deref(interp, path, args[0]), _models.deref(interp, path, args[1]))
            return BoolV(z3.Not(e) if callee.endswith("::ne") else e)
        mine = [(R(r"^<Bucket as NativeBucket>::is_empty::<"), m_is_empty),
                (R(r"^<Bucket as NativeBucket>::resource_address::<"), m_bucket_res),
                (R(r"^<Vault as NativeVault>::resource_address::<"), m_vault_res),
                (R(r"^<Vault as NativeVault>::amount::<"), m_vault_amount),
                (R(r"^<Bucket as NativeBucket>::amount::<"), m_bucket_amount),
                (R(r"ResourceManager::total_supply::<"), m_supply), (R(r"^<Vault as NativeVault>::put::<"), m_put),
                (R(r"ResourceManager::mint_fungible::<"), m_mint), (R(r"Runtime::emit_event::<"), m_unit_ok),
                (R(r"^<ResourceAddress as PartialEq>::(eq|ne)$"), m_eq),
                (R(r"^<FungibleBucket as Into<Bucket>>::into$"), lambda i, p, a, r, c: a[0].fields[0]),
                (R(r"VersionedOneResourcePoolState as Versioned>::fully_update_and_into_latest_version$"), lambda i, p, a, r, c: a[0])]
        return mine + field_store_overrides(self, {"VersionedOneResourcePoolState": "state"})

    def setup_path(self, path, inp):
        self._d = {k: lit(v) for k, v in inp.items()}
        state = StructV("OneResourcePoolSubstate", [StructV("Vault", [own_v(20)]), StructV("ResourceManager", [res_v(5)])])
        path.frames["job"] = {"api": StructV("Api", []), "state": state, "puts": IntV(0, "u32"), "mints": IntV(0, "u32"),
                              "minted": IntV(0, "i256"), "put_ok": BoolV(True)}

    def args(self, inp):
        return [StructV("Bucket", [own_v(21)]), RefV("&mut Y", "job", "api", ())]

    def extract_outcome(self, o):
        job = o.path.frames["job"]
        ok = o.value.discr == 0
        return {"ok": ok, "minted": z3.If(ok, job["minted"].term, 0),
                "put": z3.If(z3.And(ok, job["puts"].term == 1, job["mints"].term == 1, job["put_ok"].term), 1, 0)}

    def native(self, nat, vals):
        t = nat.call("pool1_contribute", vals["match"], vals["c"], vals["R"], vals["S"]).split()
        if t[0] == "panic":
            return {"panic": True, "msg": " ".join(t[1:])}
        if t[0] != "ok":
            return {"panic": False, "ok": False, "minted": 0, "put": 0}
        return {"panic": False, "ok": True, "minted": int(t[1]), "put": int(t[2])}

    def post(self, inp, res):
        d = {k: lit(v) for k, v in inp.items()}
        c, Rv, S = d["c"], d["R"], d["S"]
        ok, m = lit(res["ok"]), lit(res["minted"])
        normal = z3.And(S > 0, Rv > 0)
        share_floor = z3.And(m * Rv <= c * S, (m + 2) * Rv * E36 + S * Rv > c * S * E36)
        precond = z3.And(d["match"] == 1, c > 0, z3.Not(z3.And(S > 0, Rv == 0)))
        return [("never succeeds for an empty bucket, a foreign resource or units without reserves", z3.Implies(ok, precond)),
                ("under those preconditions it fails only when the share rounds to zero units or does not fit a Decimal",
                 z3.Implies(z3.And(precond, z3.Not(ok)), z3.And(normal, z3.Or(c * S < Rv + Rv * S / E36 + Rv,
                                                                              c * S >= (2 ** 191 - 2) * Rv)))),
                ("a new pool mints the contribution, a dried-out pool the contribution plus the dust",
                 z3.Implies(z3.And(ok, S == 0), m == c + Rv)),
                ("in normal operation the units minted never exceed the pro-rata share and stay within its truncations",
                 z3.Implies(z3.And(ok, normal), z3.And(share_floor, m > 0))),
                ("on success the whole bucket went into the pool's vault and the units were minted once", z3.Implies(ok, lit(res["put"]) == 1))]

    def covers(self, inp, res):
        d = {k: lit(v) for k, v in inp.items()}
        ok = lit(res["ok"])
        return [("new pool", z3.And(ok, d["S"] == 0, d["R"] == 0)), ("dried-out pool gets the dust", z3.And(ok, d["S"] == 0, d["R"] > 0)),
                ("normal operation", z3.And(ok, d["S"] > 0, d["R"] > 0, d["c"] > E18)),
                ("rejected: units but no reserves", z3.And(z3.Not(ok), d["S"] > 0, d["R"] == 0, d["c"] > 0, d["match"] == 1)),
                ("rejected: rounds to zero", z3.And(z3.Not(ok), d["S"] > 0, d["R"] > 0, d["c"] > 0, d["match"] == 1))]

    def vectors(self, rng):
        out = []
        for _ in range(40):
            out.append({"match": 1 if rng.random() < 0.85 else 0, "c": rng.choice([0, 1, 5, E18, 7 * E18, rng.randrange(1, MAXA)]),
                        "R": rng.choice([0, 1, 3 * E18, 10 * E18, rng.randrange(1, MAXA)]),
                        "S": rng.choice([0, 1, E18, 20 * E18, rng.randrange(1, MAXA)])})
        return out


JOBS["C41"].append(Pool1Contribute())


# ---------------------------------------------------------------------------------------------------------------
# two-resource pool: contribute over a symbolic resource ledger (amount per bucket / vault, divisibility per resource)
HI, LO = 9, 3            # the pool's two resources: the larger / smaller address (vault1 / vault2 after the blueprint's sort)
V_HI, V_LO, B_HI, B_LO, T_HI, T_LO, MINTED = 20, 21, 31, 32, 41, 42, 50


class Pool2Contribute(Job):
    crate = "radix-engine"
    query_timeout_s = 200
    max_unroll = 40
    fresh_capacity = 2
    prune_timeout_ms = 400          # feasibility pruning over non-linear path conditions: an undecided branch is kept
    case_keys = ("dhi", "dlo", "swap", "arm")
    ARMS = ("hi_empty", "lo_empty", "normal")

    def __init__(self, kind):
        """kind: 'conservation' | 'fairness18' (both resources of divisibility 18) | 'fairness_lowdiv' (a resource of lower
        divisibility: the rounding of the deposit is not reflected in the units minted -- a known finding)"""
        self.kind = kind
        self.fairness = kind != "conservation"
        self.name = "c41m::two_resource_pool_contribute_" + kind
        if kind == "conservation":
            self.tiers = ("thorough",)
        if kind == "fairness_lowdiv":
            self.query_timeout_s = 60        # the violating query is found in seconds; the others need not be waited for
        base = ("TwoResourcePoolBlueprint::contribute (v1_1) over a resource ledger (symbolic amount per bucket and vault; "
                "take_advanced rounds down to the resource's divisibility), any contributions, reserves and unit supply <= "
                "10^12 units, one run per arm with units in circulation (either reserve empty, or both non-empty; the "
                "new-pool arm is outside), divisibilities %s: " % {
                    "conservation": "(18,18), (0,18)", "fairness18": "(18,18), one-sided liquidity arms only",
                    "fairness_lowdiv": "(0,18) (thorough also (18,0)), normal arm"}[kind])
        if self.fairness:
            self.what = base + ("the units minted never exceed the pro-rata share of what was actually DEPOSITED on either "
                                "side (m/S <= deposit/reserve, one atto of slack for the 36->18 digit truncation)")
            self.cover_labels = ["one-sided liquidity"] if kind == "fairness18" else ["normal operation"]
        else:
            self.what = base + ("every contributed amount is either deposited into its vault or handed back as the change "
                                "bucket (at most one side has change, the other bucket is dropped empty), deposits go to the "
                                "matching vault, some units are minted on success, and with one-sided liquidity nothing is "
                                "taken for the empty side")
            self.cover_labels = ["normal operation with change", "one-sided liquidity"]

    def cases(self, tier):
        if self.kind == "fairness18":
            divs = [(18, 18)]
        elif self.kind == "fairness_lowdiv":
            divs = [(0, 18)] + ([(18, 0)] if tier == "thorough" else [])
        else:
            divs = [(18, 18), (0, 18)]
        swaps = (0, 1) if (tier == "thorough" and self.kind != "fairness_lowdiv") else (0,)
        if self.kind == "fairness18":
            arms = ("hi_empty", "lo_empty")     # (the normal arm at divisibility 18: the solver does not decide it -- outside)
        elif self.kind == "fairness_lowdiv":
            arms = ("normal",)          # (every undecided query of this job waits for its cap: kept to the arm that matters)
        else:
            arms = self.ARMS
        return [{"dhi": a_, "dlo": b_, "swap": s_, "arm": arm} for (a_, b_) in divs for s_ in swaps for arm in arms]

    def locate(self, prog):
        cands = [f for f in prog.by_last.get("contribute", []) if f.kind == "fn" and "v1_1/two_resource_pool_blueprint.rs" in f.name
                 and len(f.params) == 2]
        if len(cands) != 1:
            raise LookupError("two_resource_pool contribute: %d candidates" % len(cands))
        return cands[0]

    def inputs(self):
        d = {k: z3.Int(k) for k in ("chi", "clo", "Rhi", "Rlo", "S")}
        pre = []
        for k in d:
            pre += [d[k] >= 0, d[k] <= MAXA]
        # amounts respect their resource's divisibility (buckets and vaults can only hold such amounts)
        for k, dv in (("chi", self.case["dhi"]), ("Rhi", self.case["dhi"]), ("clo", self.case["dlo"]), ("Rlo", self.case["dlo"])):
            step = 10 ** (18 - dv)
            if step > 1:
                pre.append(d[k] % step == 0)
        # one run per arm of the blueprint's case analysis (units in circulation; the new-pool arm with its square roots is
        # outside this job)
        arm = self.case["arm"]
        pre += [d["S"] > 0, (d["Rhi"] == 0) if arm == "hi_empty" else (d["Rhi"] > 0),
                (d["Rlo"] == 0) if arm == "lo_empty" else (d["Rlo"] > 0)]
        return d, pre

    def _node_res(self, n):
        return HI if n in (V_HI, B_HI, T_HI) else LO

    @property
    def const_overrides(self):
        # `indexmap!{..}` expands to a capacity constant local to the closure (597 same-named constants in the dump)
        return [(re.compile(r"contribute::\{closure#0\}::CAP$"), IntV(2, "usize"))]

    @property
    def env_overrides(self):
        R = re.compile

        def ok(ret_ty, v):
            return EnumV(ret_ty, 0, {0: [v]})

        def err(ret_ty):
            return EnumV(ret_ty, 1, {1: [EnumV("RuntimeError", 0, {0: [UndefV()]})]})

        def node_of(interp, path, v):
            v = _models.deref(interp, path, v)
            while v.kind == "struct" and v.ty != "NodeId":
                v = v.fields[0]
            return z3.simplify(v.fields[0].term).as_long()

        def amt(path, n):
            return path.frames["job"]["amt%d" % n].term

        def set_amt(path, n, t):
            path.frames["job"]["amt%d" % n] = IntV(t, "i256")

        def m_res(interp, path, args, ret_ty, callee):
            return ok(ret_ty, res_v(self._node_res(node_of(interp, path, args[0]))))

        def m_amount(interp, path, args, ret_ty, callee):
            return ok(ret_ty, dec_v(amt(path, node_of(interp, path, args[0]))))

        def m_is_empty(interp, path, args, ret_ty, callee):
            return ok(ret_ty, BoolV(amt(path, node_of(interp, path, args[0])) == 0))

        def m_supply(interp, path, args, ret_ty, callee):
            return ok(ret_ty, EnumV("Option<Decimal>", 1, {1: [dec_v(self._d["S"])]}))

        def m_take_advanced(interp, path, args, ret_ty, callee):
            n = node_of(interp, path, args[0])
            q = unwrap_int(args[1])
            step = 10 ** (18 - (self.case["dhi"] if self._node_res(n) == HI else self.case["dlo"]))
            taken = q - (q % step) if step > 1 else q
            fits = z3.And(taken >= 0, taken <= amt(path, n))
            outs = []
            for p, tag in interp.fork(path, [(fits, "ok"), (z3.Not(fits), "err")]):
                if tag == "err":
                    outs.append(_models.Outcome(p, "ret", err(ret_ty)))
                    continue
                new = T_HI if n == B_HI else T_LO
                set_amt(p, n, amt(p, n) - taken)
                set_amt(p, new, taken)
                outs.append(_models.Outcome(p, "ret", ok(ret_ty, StructV("Bucket", [own_v(new)]))))
            return outs

        def m_put(interp, path, args, ret_ty, callee):
            v, b = node_of(interp, path, args[0]), node_of(interp, path, args[1])
            job = path.frames["job"]
            job["put_ok"] = BoolV(z3.And(job["put_ok"].term, z3.BoolVal(self._node_res(v) == self._node_res(b))))
            set_amt(path, v, amt(path, v) + amt(path, b))
            set_amt(path, b, z3.IntVal(0))
            return ok(ret_ty, UnitV())

        def m_mint(interp, path, args, ret_ty, callee):
            job = path.frames["job"]
            job["mints"] = IntV(job["mints"].term + 1, "u32")
            job["minted"] = IntV(unwrap_int(args[1]), "i256")
            return ok(ret_ty, StructV("FungibleBucket", [StructV("Bucket", [own_v(MINTED)])]))

        def m_drop_empty(interp, path, args, ret_ty, callee):
            n = node_of(interp, path, args[0])
            empty = amt(path, n) == 0
            outs = []
            for p, tag in interp.fork(path, [(empty, "ok"), (z3.Not(empty), "err")]):
                if tag == "ok":
                    p.frames["job"]["dropped%d" % n] = BoolV(True)
                    outs.append(_models.Outcome(p, "ret", ok(ret_ty, UnitV())))
                else:
                    outs.append(_models.Outcome(p, "ret", err(ret_ty)))
            return outs

        def m_unit_ok(interp, path, args, ret_ty, callee):
            return ok(ret_ty, UnitV())

        def m_cmp(interp, path, args, ret_ty, callee):
            a, b = _models.deref(interp, path, args[0]).fields[0].term, _models.deref(interp, path, args[1]).fields[0].term
            op = callee.rsplit("::", 1)[1]
            return BoolV({"eq": a == b, "ne": a != b, "gt": a > b, "lt": a < b, "ge": a >= b, "le": a <= b}[op])
        mine = [(R(r"^<Bucket as NativeBucket>::resource_address::<"), m_res),
                (R(r"^<(Bucket as NativeBucket|Vault as NativeVault)>::amount::<"), m_amount),
                (R(r"^<Bucket as NativeBucket>::is_empty::<"), m_is_empty),
                (R(r"^<Bucket as NativeBucket>::take_advanced::<"), m_take_advanced),
                (R(r"^<Bucket as NativeBucket>::drop_empty::<"), m_drop_empty),
                (R(r"^<Vault as NativeVault>::put::<"), m_put),
                (R(r"ResourceManager::total_supply::<"), m_supply), (R(r"ResourceManager::mint_fungible::<"), m_mint),
                (R(r"Runtime::emit_event::<"), m_unit_ok),
                (R(r"^<ResourceAddress as (PartialEq|PartialOrd)>::(eq|ne|gt|lt|ge|le)$"), m_cmp),
                (R(r"^<FungibleBucket as Into<Bucket>>::into$"), lambda i, p, a, r, c: a[0].fields[0]),
                (R(r"VersionedTwoResourcePoolState as Versioned>::fully_update_and_into_latest_version$"),
                 lambda i, p, a, r, c: a[0]),
                (R(r"^<(ResourceAddress|Bucket|Vault) as Clone>::clone$"), _models.m_clone)]
        return mine + field_store_overrides(self, {"VersionedTwoResourcePoolState": "state"})

    def setup_path(self, path, inp):
        d = self._d = {k: lit(v) for k, v in inp.items()}
        vaults = StructV("[(ResourceAddress, Vault); 2]", [
            StructV("(ResourceAddress, Vault)", [res_v(LO), StructV("Vault", [own_v(V_LO)])]),
            StructV("(ResourceAddress, Vault)", [res_v(HI), StructV("Vault", [own_v(V_HI)])])])
        state = StructV("TwoResourcePoolSubstate", [vaults, StructV("ResourceManager", [res_v(5)])])
        job = {"api": StructV("Api", []), "state": state, "mints": IntV(0, "u32"), "minted": IntV(0, "i256"), "put_ok": BoolV(True),
               "amt%d" % V_HI: IntV(d["Rhi"], "i256"), "amt%d" % V_LO: IntV(d["Rlo"], "i256"),
               "amt%d" % B_HI: IntV(d["chi"], "i256"), "amt%d" % B_LO: IntV(d["clo"], "i256"),
               "amt%d" % T_HI: IntV(0, "i256"), "amt%d" % T_LO: IntV(0, "i256")}
        for n in (B_HI, B_LO, T_HI, T_LO):
            job["dropped%d" % n] = BoolV(False)
        path.frames["job"] = job

    def args(self, inp):
        b_hi, b_lo = StructV("Bucket", [own_v(B_HI)]), StructV("Bucket", [own_v(B_LO)])
        pair = [b_lo, b_hi] if self.case["swap"] else [b_hi, b_lo]
        return [StructV("(Bucket, Bucket)", pair), RefV("&mut Y", "job", "api", ())]

    def extract_outcome(self, o):
        d = self._d
        job = o.path.frames["job"]
        ok = o.value.discr == 0
        change = z3.IntVal(0)
        if o.value.variants.get(0):
            tup = o.value.variants[0][0]
            opt = tup.fields[1]
            if opt.kind == "enum" and opt.variants.get(1):
                b = opt.variants[1][0]
                n = z3.simplify(b.fields[0].fields[0].fields[0].term).as_long()
                change = z3.If(opt.discr == 1, n, 0)
        g = lambda n: job["amt%d" % n].term
        res = {"ok": ok, "minted": z3.If(ok, job["minted"].term, 0),
               "dep_hi": z3.If(ok, g(V_HI) - d["Rhi"], 0), "dep_lo": z3.If(ok, g(V_LO) - d["Rlo"], 0),
               "left_hi": z3.If(ok, g(B_HI), 0), "left_lo": z3.If(ok, g(B_LO), 0),
               "sound": z3.If(z3.Or(z3.Not(ok), z3.And(
                   job["put_ok"].term, job["mints"].term == 1, g(T_HI) == 0, g(T_LO) == 0,
                   # an input bucket that still holds something must be the change bucket; the other one was dropped empty
                   z3.Implies(g(B_HI) > 0, change == B_HI), z3.Implies(g(B_LO) > 0, change == B_LO),
                   z3.Or(change == B_HI, job["dropped%d" % B_HI].term), z3.Or(change == B_LO, job["dropped%d" % B_LO].term))), 1, 0)}
        return res

    def native(self, nat, vals):
        c = self.case
        t = nat.call("pool2_run", c["dhi"], c["dlo"], vals["Rhi"], vals["Rlo"], vals["S"], "C", vals["chi"], vals["clo"], c["swap"]).split()
        if t[0] == "panic":
            return {"panic": True, "msg": " ".join(t[1:])}
        if t[0] != "ok":
            return {"panic": False, "ok": False, "minted": 0, "dep_hi": 0, "dep_lo": 0, "left_hi": 0, "left_lo": 0, "sound": 1}
        m, dh, dl, ch, cl = map(int, t[1:6])
        return {"panic": False, "ok": True, "minted": m, "dep_hi": dh, "dep_lo": dl, "left_hi": ch, "left_lo": cl, "sound": 1}

    def post(self, inp, res):
        d = {k: lit(v) for k, v in inp.items()}
        ok, m = lit(res["ok"]), lit(res["minted"])
        dh, dl, lh, ll = lit(res["dep_hi"]), lit(res["dep_lo"]), lit(res["left_hi"]), lit(res["left_lo"])
        S, Rh, Rl = d["S"], d["Rhi"], d["Rlo"]
        if self.fairness:
            side = lambda R_, dep: z3.Implies(R_ > 0, m * R_ <= (dep + 1) * S)
            return [("units minted never exceed the pro-rata share of what was deposited (one atto of slack)",
                     z3.Implies(ok, z3.And(side(Rh, dh), side(Rl, dl))))]
        return [("every contributed amount is deposited or handed back as change; nothing is lost or created",
                 z3.Implies(ok, z3.And(dh + lh == d["chi"], dl + ll == d["clo"], dh >= 0, dl >= 0, lit(res["sound"]) == 1))),
                ("at most one side has change", z3.Implies(ok, z3.Or(lh == 0, ll == 0))),
                ("some units are minted on success", z3.Implies(ok, m > 0)),
                ("with one-sided liquidity nothing is taken for the empty side",
                 z3.Implies(z3.And(ok, S > 0), z3.And(z3.Implies(Rh == 0, dh == 0), z3.Implies(Rl == 0, dl == 0))))]

    def covers(self, inp, res):
        d = {k: lit(v) for k, v in inp.items()}
        ok = lit(res["ok"])
        normal = z3.And(ok, d["S"] > 0, d["Rhi"] > 0, d["Rlo"] > 0)
        one = z3.And(ok, d["S"] > 0, z3.Or(d["Rhi"] == 0, d["Rlo"] == 0))
        if self.fairness:
            return [("one-sided liquidity", one)] if self.kind == "fairness18" else [("normal operation", normal)]
        return [("normal operation with change", z3.And(normal, z3.Or(lit(res["left_hi"]) > 0, lit(res["left_lo"]) > 0))),
                ("one-sided liquidity", one)]

    def vectors(self, rng):
        out = []
        cases = self.cases("thorough")
        for _ in range(30):
            c = rng.choice(cases)
            sh, sl = 10 ** (18 - c["dhi"]), 10 ** (18 - c["dlo"])
            pick = lambda step, xs: rng.choice(xs) // step * step
            d = dict(c)
            d.update({"chi": pick(sh, [0, 5 * E18, 2 * E18, 19 * E18 // 10, 7 * E18 + 3]),
                      "clo": pick(sl, [0, 19 * E18 // 10, 4 * E18, 9 * E18, 5 * E18 + 1]),
                      "Rhi": pick(sh, [0, 10 * E18, 100 * E18, 3 * E18]), "Rlo": pick(sl, [0, 10 * E18, 400 * E18, 7 * E18 + 5]),
                      "S": rng.choice([0, 10 * E18, 200 * E18, 1])})
            d["S"] = rng.choice([10 * E18, 200 * E18, 1])
            d["Rhi"] = 0 if c["arm"] == "hi_empty" else pick(sh, [10 * E18, 100 * E18, 3 * E18])
            d["Rlo"] = 0 if c["arm"] == "lo_empty" else pick(sl, [10 * E18, 400 * E18, 7 * E18 + 5]) or sl
            out.append(d)
        return out


JOBS["C41"] += [Pool2Contribute("fairness18"), Pool2Contribute("fairness_lowdiv"), Pool2Contribute("conservation")]
