"""Engine-M jobs for C41: pool contributions (radix-engine/src/blueprints/pool/v1/v1_1). The pool's state field, its
vault(s), the incoming bucket(s) and the pool-unit resource manager are environment stubs with symbolic amounts; natively
the real `contribute` runs over the MockApi."""
import re

import z3

from mir_engine import Job, find_function, lit
from mirsmt.values import IntV, BoolV, StructV, EnumV, RefV, UnitV, UndefV
from mirsmt import models as _models
from mir_jobs import JOBS, dec_v, unwrap_int
from mir_jobs_engine import field_store_overrides

MAXA = 10 ** 30          # 10^12 whole units in attos
E18 = 10 ** 18
E36 = 10 ** 36


def res_v(t):
    return StructV("ResourceAddress", [IntV(t, "u8")])


def own_v(n):
    return StructV("Own", [StructV("NodeId", [IntV(n, "u8")])])


class Pool1Contribute(Job):
    crate = "radix-engine"
    query_timeout_s = 120
    max_unroll = 20

    def __init__(self):
        self.name = "c41m::one_resource_pool_contribute"
        self.what = ("OneResourcePoolBlueprint::contribute (v1_1) for every contribution, reserve and pool-unit supply <= "
                     "10^12 units: fails for an empty bucket, a foreign resource, a pool with units but no reserves, when the "
                     "share rounds to zero units or exceeds the Decimal range; otherwise the whole bucket goes into the vault and the units minted are "
                     "the contribution (new pool), contribution + dust (dried-out pool), or never more than the pro-rata "
                     "share c*S/R and within the documented truncations of it (2 attos + S*10^-36)")
        self.cover_labels = ["new pool", "dried-out pool gets the dust", "normal operation", "rejected: units but no reserves",
                             "rejected: rounds to zero"]

    def locate(self, prog):
        cands = [f for f in prog.by_last.get("contribute", []) if f.kind == "fn" and "v1_1/one_resource_pool_blueprint.rs" in f.name
                 and len(f.params) == 2]
        if len(cands) != 1:
            raise LookupError("one_resource_pool contribute: %d candidates" % len(cands))
        return cands[0]

    def inputs(self):
        d = {k: z3.Int(k) for k in ("match", "c", "R", "S")}
        pre = [d["match"] >= 0, d["match"] <= 1]
        for k in ("c", "R", "S"):
            pre += [d[k] >= 0, d[k] <= MAXA]
        return d, pre

    @property
    def env_overrides(self):
        R = re.compile
        d = lambda: self._d

        def ok(ret_ty, v):
            return EnumV(ret_ty, 0, {0: [v]})

        def node_of(interp, path, v):
            v = _models.deref(interp, path, v)
            while v.kind == "struct" and v.ty != "NodeId":
                v = v.fields[0]
            return z3.simplify(v.fields[0].term).as_long()

        def m_is_empty(interp, path, args, ret_ty, callee):
            return ok(ret_ty, BoolV(d()["c"] == 0))

        def m_bucket_res(interp, path, args, ret_ty, callee):
            return ok(ret_ty, res_v(z3.If(d()["match"] == 1, 0, 1)))

        def m_vault_res(interp, path, args, ret_ty, callee):
            return ok(ret_ty, res_v(0))

        def m_vault_amount(interp, path, args, ret_ty, callee):
            return ok(ret_ty, dec_v(d()["R"]))

        def m_bucket_amount(interp, path, args, ret_ty, callee):
            return ok(ret_ty, dec_v(d()["c"]))

        def m_supply(interp, path, args, ret_ty, callee):
            return ok(ret_ty, EnumV("Option<Decimal>", 1, {1: [dec_v(d()["S"])]}))

        def m_put(interp, path, args, ret_ty, callee):
            job = path.frames["job"]
            job["puts"] = IntV(job["puts"].term + 1, "u32")
            job["put_ok"] = BoolV(z3.And(job["put_ok"].term, z3.BoolVal(node_of(interp, path, args[0]) == 20),
                                         z3.BoolVal(node_of(interp, path, args[1]) == 21)))
            return ok(ret_ty, UnitV())

        def m_mint(interp, path, args, ret_ty, callee):
            job = path.frames["job"]
            job["mints"] = IntV(job["mints"].term + 1, "u32")
            job["minted"] = IntV(unwrap_int(args[1]), "i256")
            return ok(ret_ty, StructV("FungibleBucket", [StructV("Bucket", [own_v(22)])]))

        def m_unit_ok(interp, path, args, ret_ty, callee):
            return ok(ret_ty, UnitV())

        def m_eq(interp, path, args, ret_ty, callee):
            e = _models.val_eq(_models.deref(interp, path, args[0]), _models.deref(interp, path, args[1]))
            return BoolV(z3.Not(e) if callee.endswith("::ne") else e)
        mine = [(R(r"^<Bucket as NativeBucket>::is_empty::<"), m_is_empty),
                (R(r"^<Bucket as NativeBucket>::resource_address::<"), m_bucket_res),
                (R(r"^<Vault as NativeVault>::resource_address::<"), m_vault_res),
                (R(r"^<Vault as NativeVault>::amount::<"), m_vault_amount),
                (R(r"^<Bucket as NativeBucket>::amount::<"), m_bucket_amount),
                (R(r"ResourceManager::total_supply::<"), m_supply), (R(r"^<Vault as NativeVault>::put::<"), m_put),
                (R(r"ResourceManager::mint_fungible::<"), m_mint), (R(r"Runtime::emit_event::<"), m_unit_ok),
                (R(r"^<ResourceAddress as PartialEq>::(eq|ne)$"), m_eq),
                (R(r"^<FungibleBucket as Into<Bucket>>::into$"), lambda i, p, a, r, c: a[0].fields[0]),
                (R(r"VersionedOneResourcePoolState as Versioned>::fully_update_and_into_latest_version$"), lambda i, p, a, r, c: a[0])]
        return mine + field_store_overrides(self, {"VersionedOneResourcePoolState": "state"})

    def setup_path(self, path, inp):
        self._d = {k: lit(v) for k, v in inp.items()}
        state = StructV("OneResourcePoolSubstate", [StructV("Vault", [own_v(20)]), StructV("ResourceManager", [res_v(5)])])
        path.frames["job"] = {"api": StructV("Api", []), "state": state, "puts": IntV(0, "u32"), "mints": IntV(0, "u32"),
                              "minted": IntV(0, "i256"), "put_ok": BoolV(True)}

    def args(self, inp):
        return [StructV("Bucket", [own_v(21)]), RefV("&mut Y", "job", "api", ())]

    def extract_outcome(self, o):
        job = o.path.frames["job"]
        ok = o.value.discr == 0
        return {"ok": ok, "minted": z3.If(ok, job["minted"].term, 0),
                "put": z3.If(z3.And(ok, job["puts"].term == 1, job["mints"].term == 1, job["put_ok"].term), 1, 0)}

    def native(self, nat, vals):
        t = nat.call("pool1_contribute", vals["match"], vals["c"], vals["R"], vals["S"]).split()
        if t[0] == "panic":
            return {"panic": True, "msg": " ".join(t[1:])}
        if t[0] != "ok":
            return {"panic": False, "ok": False, "minted": 0, "put": 0}
        return {"panic": False, "ok": True, "minted": int(t[1]), "put": int(t[2])}

    def post(self, inp, res):
        d = {k: lit(v) for k, v in inp.items()}
        c, Rv, S = d["c"], d["R"], d["S"]
        ok, m = lit(res["ok"]), lit(res["minted"])
        normal = z3.And(S > 0, Rv > 0)
        share_floor = z3.And(m * Rv <= c * S, (m + 2) * Rv * E36 + S * Rv > c * S * E36)
        precond = z3.And(d["match"] == 1, c > 0, z3.Not(z3.And(S > 0, Rv == 0)))
        return [("never succeeds for an empty bucket, a foreign resource or units without reserves", z3.Implies(ok, precond)),
                ("under those preconditions it fails only when the share rounds to zero units or does not fit a Decimal",
                 z3.Implies(z3.And(precond, z3.Not(ok)), z3.And(normal, z3.Or(c * S < Rv + Rv * S / E36 + Rv,
                                                                              c * S >= (2 ** 191 - 2) * Rv)))),
                ("a new pool mints the contribution, a dried-out pool the contribution plus the dust",
                 z3.Implies(z3.And(ok, S == 0), m == c + Rv)),
                ("in normal operation the units minted never exceed the pro-rata share and stay within its truncations",
                 z3.Implies(z3.And(ok, normal), z3.And(share_floor, m > 0))),
                ("on success the whole bucket went into the pool's vault and the units were minted once", z3.Implies(ok, lit(res["put"]) == 1))]

    def covers(self, inp, res):
        d = {k: lit(v) for k, v in inp.items()}
        ok = lit(res["ok"])
        return [("new pool", z3.And(ok, d["S"] == 0, d["R"] == 0)), ("dried-out pool gets the dust", z3.And(ok, d["S"] == 0, d["R"] > 0)),
                ("normal operation", z3.And(ok, d["S"] > 0, d["R"] > 0, d["c"] > E18)),
                ("rejected: units but no reserves", z3.And(z3.Not(ok), d["S"] > 0, d["R"] == 0, d["c"] > 0, d["match"] == 1)),
                ("rejected: rounds to zero", z3.And(z3.Not(ok), d["S"] > 0, d["R"] > 0, d["c"] > 0, d["match"] == 1))]

    def vectors(self, rng):
        out = []
        for _ in range(40):
            out.append({"match": 1 if rng.random() < 0.85 else 0, "c": rng.choice([0, 1, 5, E18, 7 * E18, rng.randrange(1, MAXA)]),
                        "R": rng.choice([0, 1, 3 * E18, 10 * E18, rng.randrange(1, MAXA)]),
                        "S": rng.choice([0, 1, E18, 20 * E18, rng.randrange(1, MAXA)])})
        return out


JOBS["C41"].append(Pool1Contribute())
