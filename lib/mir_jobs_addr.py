"""Engine-M jobs for C28 (addresses): AddressBech32Decoder::validate_and_decode and AddressBech32Encoder::encode_to_fmt
(radix-common/src/address). The bech32 crate (checksum, character set, 5-bit regrouping) is an environment stub: the
jobs decide the Radix-side rules -- Bech32m only, the entity-type byte, and the entity-type <-> HRP binding of the
network."""
import re

import z3

from mir_engine import Job, find_function, lit
from mirsmt.values import IntV, BoolV, StructV, EnumV, RefV, UnitV, UndefV, StrV
from mirsmt import models as _models
from mir_jobs import JOBS, const_ref

# entity type byte -> index of its HRP in HrpSet field order (written from the documented table, not from the code)
HRP_FIELDS = ["package", "resource", "component", "account", "identity", "consensus_manager", "validator",
              "access_controller", "pool", "locker", "transaction_tracker", "internal_vault", "internal_component",
              "internal_key_value_store"]
ENTITY_HRP = {0b00001101: 0, 0b10000110: 5, 0b10000011: 6, 0b10000010: 10, 0b11000000: 2, 0b11000001: 3, 0b11000010: 4,
              0b11000011: 7, 0b11000100: 8, 0b11000101: 8, 0b11000110: 8, 0b01101000: 9, 0b11010001: 3, 0b11010010: 4,
              0b01010001: 3, 0b01010010: 4, 0b01011101: 1, 0b01011000: 11, 0b10011010: 1, 0b10011000: 11, 0b11111000: 12,
              0b10110000: 13}


def string_v(k):
    return StructV("String", [IntV(k, "u8")])


def hrp_set_v():
    return StructV("HrpSet", [string_v(k) for k in range(21)])


def expected_hrp(eb):
    e = z3.IntVal(-1)
    for b, h in ENTITY_HRP.items():
        e = z3.If(eb == b, h, e)
    return e


STR_ENV = [
    (re.compile(r"^<String as (__)?Deref>::deref$"), lambda interp, path, args, ret_ty, callee: args[0]),
    (re.compile(r"^<String as PartialEq<&str>>::(ne|eq)$"),
     lambda interp, path, args, ret_ty, callee: BoolV(
         (lambda e: z3.Not(e) if callee.endswith("ne") else e)(
             _models.val_eq(_models.deref(interp, path, args[0]), _models.deref(interp, path, args[1]))))),
]


class AddressDecode(Job):
    crate = "radix-common"
    query_timeout_s = 60

    def __init__(self):
        self.name = "c28m::address_bech32_validate_and_decode"
        self.what = ("AddressBech32Decoder::validate_and_decode (with validate_and_decode_ignore_hrp, EntityType::from_repr, "
                     "HrpSet::get_entity_hrp) for every outcome of the bech32 layer (undecodable text; decoded with any of "
                     "the network's 14 entity HRPs, a transaction HRP, the same prefix on another network or an unrelated "
                     "HRP; Bech32 or Bech32m; payload regrouping failing or giving 0, 1 or 30 bytes with any first byte): "
                     "accepted exactly when the text is Bech32m, the payload is non-empty, its first byte is an entity "
                     "type and the HRP is the one this network assigns to that entity type; the entity type returned is "
                     "that byte")
        self.cover_labels = ["accepted", "rejected: other network", "rejected: HRP of another entity type",
                             "rejected: Bech32 (not m)", "rejected: unknown entity byte"]

    def locate(self, prog):
        prog.enums.setdefault("Variant", {"Bech32": 0, "Bech32m": 1})       # enum of the bech32 crate
        return find_function(prog, "address/decoder.rs", "validate_and_decode", nparams=2)

    def inputs(self):
        d = {k: z3.Int(k) for k in ("dec_ok", "hrp", "variant", "b32_ok", "len", "eb")}
        pre = [d["dec_ok"] >= 0, d["dec_ok"] <= 1, d["hrp"] >= 0, d["hrp"] <= 16, d["variant"] >= 0, d["variant"] <= 1,
               d["b32_ok"] >= 0, d["b32_ok"] <= 1, d["len"] >= 0, d["len"] <= 2, d["eb"] >= 0, d["eb"] <= 255]
        return d, pre

    @property
    def env_overrides(self):
        R = re.compile
        d = lambda: self._d

        def m_decode(interp, path, args, ret_ty, callee):
            tup = StructV("(String, Vec<u5>, Variant)", [string_v(d()["hrp"]), StructV("Vec<u5>", []),
                                                         EnumV("Variant", d()["variant"], {0: [], 1: []})])
            return EnumV(ret_ty, z3.If(d()["dec_ok"] == 1, 0, 1), {0: [tup], 1: [EnumV("bech32::Error", 0, {0: []})]})

        def m_from_base32(interp, path, args, ret_ty, callee):
            outs = []
            L = d()["len"]
            for p, tag in interp.fork(path, [(L == 0, 0), (L == 1, 1), (L == 2, 2)]):
                data = StructV("Vec<u8>", ([IntV(d()["eb"], "u8")] if tag >= 1 else []) + ([IntV(7, "u8")] * 29 if tag == 2 else []))
                outs.append(_models.Outcome(p, "ret", EnumV(ret_ty, z3.If(d()["b32_ok"] == 1, 0, 1),
                                                             {0: [data], 1: [EnumV("bech32::Error", 0, {0: []})]})))
            return outs
        return [(R(r"^bech32::decode$"), m_decode), (R(r"^<Vec<u8> as FromBase32>::from_base32$"), m_from_base32)] + STR_ENV

    def setup_path(self, path, inp):
        self._d = {k: lit(v) for k, v in inp.items()}

    def args(self, inp):
        return [const_ref("&AddressBech32Decoder", StructV("AddressBech32Decoder", [hrp_set_v()])),
                const_ref("&str", StrV("address text"))]

    def extract(self, v):
        ok = v.discr == 0
        ent = z3.IntVal(-1)
        if v.variants.get(0):
            e = v.variants[0][0].fields[0]
            ent = e.discr if e.kind == "enum" else z3.IntVal(-1)
        return {"ok": ok, "entity": z3.If(ok, ent, -1)}

    def native(self, nat, vals):
        t = nat.call("addr_decode", *[vals[k] for k in ("dec_ok", "hrp", "variant", "b32_ok", "len", "eb")]).split()
        if t[0] == "panic":
            return {"panic": True, "msg": " ".join(t[1:])}
        return {"panic": False, "ok": t[0] == "ok", "entity": int(t[1]) if t[0] == "ok" else -1}

    def post(self, inp, res):
        d = {k: lit(v) for k, v in inp.items()}
        spec = z3.And(d["dec_ok"] == 1, d["variant"] == 1, d["b32_ok"] == 1, d["len"] >= 1, expected_hrp(d["eb"]) >= 0,
                      d["hrp"] == expected_hrp(d["eb"]))
        ok = lit(res["ok"])
        return [("accepted exactly for Bech32m text whose HRP is the network's HRP of the payload's entity type", ok == spec),
                ("the entity type returned is the payload's first byte", z3.Implies(ok, lit(res["entity"]) == d["eb"]))]

    def covers(self, inp, res):
        d = {k: lit(v) for k, v in inp.items()}
        ok = lit(res["ok"])
        good = z3.And(d["dec_ok"] == 1, d["b32_ok"] == 1, d["len"] == 2, expected_hrp(d["eb"]) >= 0)
        return [("accepted", ok), ("rejected: other network", z3.And(z3.Not(ok), good, d["variant"] == 1, d["hrp"] == 15)),
                ("rejected: HRP of another entity type", z3.And(z3.Not(ok), good, d["variant"] == 1, d["hrp"] <= 13)),
                ("rejected: Bech32 (not m)", z3.And(z3.Not(ok), good, d["variant"] == 0, d["hrp"] == expected_hrp(d["eb"]))),
                ("rejected: unknown entity byte", z3.And(z3.Not(ok), d["dec_ok"] == 1, d["b32_ok"] == 1, d["len"] >= 1,
                                                         d["variant"] == 1, expected_hrp(d["eb"]) < 0))]

    def vectors(self, rng):
        out = []
        ents = list(ENTITY_HRP)
        for _ in range(40):
            eb = rng.choice(ents) if rng.random() < 0.8 else rng.randrange(256)
            good = rng.random() < 0.5
            out.append({"dec_ok": 1 if good else rng.randrange(2), "hrp": ENTITY_HRP.get(eb, 3) if good else rng.randrange(17),
                        "variant": 1 if good else rng.randrange(2), "b32_ok": 1 if good else rng.randrange(2),
                        "len": 2 if good else rng.randrange(3), "eb": eb})
        return out


class AddressEncode(Job):
    crate = "radix-common"
    query_timeout_s = 60

    def __init__(self):
        self.name = "c28m::address_bech32_encode_to_fmt"
        self.what = ("AddressBech32Encoder::encode_to_fmt for payloads of 0, 1 or 30 bytes with any first byte: it fails "
                     "exactly when the payload is empty or the first byte is not an entity type, and otherwise hands the "
                     "bech32 writer the network's HRP of that entity type with the Bech32m variant (the text the decoder "
                     "accepts back: checked natively by a real encode -> decode round trip)")
        self.cover_labels = ["encoded", "rejected: unknown entity byte", "rejected: empty"]

    def locate(self, prog):
        prog.enums.setdefault("Variant", {"Bech32": 0, "Bech32m": 1})       # enum of the bech32 crate
        return find_function(prog, "address/encoder.rs", "encode_to_fmt", nparams=3)

    def inputs(self):
        d = {k: z3.Int(k) for k in ("len", "eb")}
        return d, [d["len"] >= 0, d["len"] <= 2, d["eb"] >= 0, d["eb"] <= 255]

    case_keys = ("len",)

    def cases(self, tier):
        return [{"len": 0}, {"len": 1}, {"len": 2}]

    def inputs(self):     # noqa: F811
        d = {"eb": z3.Int("eb")}
        return d, [d["eb"] >= 0, d["eb"] <= 255]

    @property
    def env_overrides(self):
        R = re.compile

        def m_writer(interp, path, args, ret_ty, callee):
            job = path.frames["job"]
            hrp = _models.deref(interp, path, args[1])
            job["hrp"] = hrp.fields[0] if hrp.kind == "struct" and hrp.fields else IntV(-2, "i32")
            job["variant"] = IntV(args[3].discr, "u8") if args[3].kind == "enum" else IntV(-1, "i32")
            job["written"] = IntV(job["written"].term + 1, "u32")
            return EnumV(ret_ty, 0, {0: [EnumV("Result<(), fmt::Error>", 0, {0: [UnitV()], 1: [UnitV()]})]})

        def m_to_base32(interp, path, args, ret_ty, callee):
            return StructV("Vec<u5>", [])
        return [(R(r"^bech32_encode_to_fmt::<"), m_writer), (R(r"^<&\[u8\] as ToBase32>::to_base32$"), m_to_base32)] + STR_ENV

    def setup_path(self, path, inp):
        self._d = {k: lit(v) for k, v in inp.items()}
        path.frames["job"] = {"fmt": StructV("Fmt", []), "hrp": IntV(-1, "i32"), "variant": IntV(-1, "i32"),
                              "written": IntV(0, "u32")}

    def args(self, inp):
        d = {k: lit(v) for k, v in inp.items()}
        n = self.case["len"]
        data = StructV("[u8]", ([IntV(d["eb"], "u8")] if n >= 1 else []) + ([IntV(7, "u8")] * 29 if n == 2 else []))
        return [const_ref("&AddressBech32Encoder", StructV("AddressBech32Encoder", [hrp_set_v()])),
                RefV("&mut F", "job", "fmt", ()), const_ref("&[u8]", data)]

    def extract_outcome(self, o):
        job = o.path.frames["job"]
        ok = o.value.discr == 0
        return {"ok": ok, "hrp": z3.If(ok, job["hrp"].term, -1), "variant": z3.If(ok, job["variant"].term, -1),
                "rt": z3.If(ok, 1, 0)}

    def native(self, nat, vals):
        t = nat.call("addr_encode", self.case["len"], vals["eb"]).split()
        if t[0] == "panic":
            return {"panic": True, "msg": " ".join(t[1:])}
        if t[0] != "ok":
            return {"panic": False, "ok": False, "hrp": -1, "variant": -1, "rt": 0}
        # a text produced by the real encoder that the real decoder accepts back is Bech32m by construction
        return {"panic": False, "ok": True, "hrp": int(t[1]), "variant": 1 if t[2] == "1" else 0, "rt": int(t[2])}

    def post(self, inp, res):
        d = {k: lit(v) for k, v in inp.items()}
        n = self.case["len"]
        valid = z3.And(z3.BoolVal(n >= 1), expected_hrp(d["eb"]) >= 0)
        ok = lit(res["ok"])
        return [("fails exactly for an empty payload or an unknown entity byte", ok == valid),
                ("the HRP written is the network's HRP of the entity type, the variant is Bech32m",
                 z3.Implies(ok, z3.And(lit(res["hrp"]) == expected_hrp(d["eb"]), lit(res["variant"]) == 1)))]

    def covers(self, inp, res):
        d = {k: lit(v) for k, v in inp.items()}
        ok = lit(res["ok"])
        n = self.case["len"]
        return [("encoded", z3.And(ok, n == 2)), ("rejected: unknown entity byte", z3.And(z3.Not(ok), n >= 1)),
                ("rejected: empty", z3.And(z3.Not(ok), n == 0))]

    def vectors(self, rng):
        ents = list(ENTITY_HRP)
        return [{"len": rng.randrange(3), "eb": rng.choice(ents) if rng.random() < 0.7 else rng.randrange(256)} for _ in range(30)]


JOBS["C28"] += [AddressDecode(), AddressEncode()]
