"""Engine-M jobs for C28 (addresses): AddressBech32Decoder::validate_and_decode and AddressBech32Encoder::encode_to_fmt
(radix-common/src/address). The bech32 crate (checksum, character set, 5-bit regrouping) is an environment stub: the
jobs decide the Radix-side rules -- Bech32m only, the entity-type byte, and the entity-type <-> HRP binding of the
network."""
import re

import z3

from mir_engine import Job, find_function, lit
from mirsmt.values import IntV, BoolV, StructV, EnumV, RefV, UnitV, UndefV, StrV
from mirsmt import models as _models
from mir_jobs import JOBS, const_ref

# entity type byte -> index of its HRP in HrpSet field order (written from the documented table, not from the code)
HRP_FIELDS = ["package", "resource", "component", "account", "identity", "consensus_manager", "validator",
              "access_controller", "pool", "locker", "transaction_tracker", "internal_vault", "internal_component",
              "internal_key_value_store"]
ENTITY_HRP = {0b00001101: 0, 0b10000110: 5, 0b10000011: 6, 0b10000010: 10, 0b11000000: 2, 0b11000001: 3, 0b11000010: 4,
              0b11000011: 7, 0b11000100: 8, 0b11000101: 8, 0b11000110: 8, 0b01101000: 9, 0b11010001: 3, 0b11010010: 4,
              0b01010001: 3, 0b01010010: 4, 0b01011101: 1, 0b01011000: 11, 0b10011010: 1, 0b10011000: 11, 0b11111000: 12,
              0b10110000: 13}


def string_v(k):
    return StructV("String", [IntV(k, "u8")])


def hrp_set_v():
    return StructV("HrpSet", [string_v(k) for k in range(21)])


def expected_hrp(eb):
    e = z3.IntVal(-1)
    for b, h in ENTITY_HRP.items():
        e = z3.If(eb == b, h, e)
    return e


STR_ENV = [
    (re.compile(r"^<String as (__)?Deref>::deref$"), lambda interp, path, args, ret_ty, callee: args[0]),
    (re.compile(r"^<String as PartialEq<&str>>::(ne|eq)$"),
     lambda interp, path, args, ret_ty, callee: BoolV(
         (lambda e: z3.Not(e) if callee.endswith("ne") else e)(
             _models.val_eq(_models.deref(interp, path, args[0]), _models.deref(interp, path, args[1]))))),
]


class AddressDecode(Job):
    crate = "radix-common"
    query_timeout_s = 60

    def __init__(self):
        self.name = "c28m::address_bech32_validate_and_decode"
        self.what = ("AddressBech32Decoder::validate_and_decode (with validate_and_decode_ignore_hrp, EntityType::from_repr, "
                     "HrpSet::get_entity_hrp) for every outcome of the bech32 layer (undecodable text; decoded with any of "
                     "the network's 14 entity HRPs, a transaction HRP, the same prefix on another network or an unrelated "
                     "HRP; Bech32 or Bech32m; payload regrouping failing or giving 0, 1 or 30 bytes with any first byte): "
                     "accepted exactly when the text is Bech32m, the payload is non-empty, its first byte is an entity "
                     "type and the HRP is the one this network assigns to that entity type; the entity type returned is "
                     "that byte")
        self.cover_labels = ["accepted", "rejected: other network", "rejected: HRP of another entity type",
                             "rejected: Bech32 (not m)", "rejected: unknown entity byte"]

    def locate(self, prog):
        prog.enums.setdefault("Variant", {"Bech32": 0, "Bech32m": 1})       # enum of the bech32 crate
        return find_function(prog, "address/decoder.rs", "validate_and_decode", nparams=2)

    def inputs(self):
        d = {k: z3.Int(k) for k in ("dec_ok", "hrp", "variant", "b32_ok", "len", "eb")}
        pre = [d["dec_ok"] >= 0, d["dec_ok"] <= 1, d["hrp"] >= 0, d["hrp"] <= 16, d["variant"] >= 0, d["variant"] <= 1,
               d["b32_ok"] >= 0, d["b32_ok"] <= 1, d["len"] >= 0, d["len"] <= 2, d["eb"] >= 0, d["eb"] <= 255]
        return d, pre

    @property
    def env_overrides(self):
        R = re.compile
        d = lambda: self._d

        def m_decode(interp, path, args, ret_ty, callee):
            tup = StructV("(String, Vec<u5>, Variant)", [string_v(d()["hrp"]), StructV("Vec<u5>", []),
                                                         EnumV("Variant", d()["variant"], {0: [], 1: []})])
            return EnumV(ret_ty, z3.If(d()["dec_ok"] == 1, 0, 1), {0: [tup], 1: [EnumV("bech32::Error", 0, {0: []})]})

        def m_from_base32(interp, path, args, ret_ty, callee):
            outs = []
            L = d()["len"]
            for p, tag in interp.fork(path, [(L == 0, 0), (L == 1, 1), (L == 2, 2)]):
                data = StructV("Vec<u8>", ([IntV(d()["eb"], "u8")] if tag >= 1 else []) + ([IntV(7, "u8")] * 29 if tag == 2 else []))
                outs.append(_models.Outcome(p, "ret", EnumV(ret_ty, z3.If(d()["b32_ok"] == 1, 0, 1),
                                                             {0: [data], 1: [EnumV("bech32::Error", 0, {0: []})]})))
            return outs
        return [(R(r"^bech32::decode$"), m_decode), (R(r"^<Vec<u8> as FromBase32>::from_base32$"), m_from_base32)] + STR_ENV

    def setup_path(self, path, inp):
        self._d = {k: lit(v) for k, v in inp.items()}

    def args(self, inp):
        return [const_ref("&AddressBech32Decoder", StructV("AddressBech32Decoder", [hrp_set_v()])),
                const_ref("&str", StrV("address text"))]

    def extract(self, v):
        ok = v.discr == 0
        ent = z3.IntVal(-1)
        if v.variants.get(0):
            e = v.variants[0][0].fields[0]
            ent = e.discr if e.kind == "enum" else z3.IntVal(-1)
        return {"ok": ok, "entity": z3.If(ok, ent, -1)}

    def native(self, nat, vals):
        t = nat.call("addr_decode", *[vals[k] for k in ("dec_ok", "hrp", "variant", "b32_ok", "len", "eb")]).split()
        if t[0] == "panic":
            return {"panic": True, "msg": " ".join(t[1:])}
        return {"panic": False, "ok": t[0] == "ok", "entity": int(t[1]) if t[0] == "ok" else -1}

    def post(self, inp, res):
        d = {k: lit(v) for k, v in inp.items()}
        spec = z3.And(d["dec_ok"] == 1, d["variant"] == 1, d["b32_ok"] == 1, d["len"] >= 1, expected_hrp(d["eb"]) >= 0,
                      d["hrp"] == expected_hrp(d["eb"]))
        ok = lit(res["ok"])
        return [("accepted exactly for Bech32m text whose HRP is the network's HRP of the payload's entity type", ok == spec),
                ("the entity type returned is the payload's first byte", z3.Implies(ok, lit(res["entity"]) == d["eb"]))]

    def covers(self, inp, res):
        d = {k: lit(v) for k, v in inp.items()}
        ok = lit(res["ok"])
        good = z3.And(d["dec_ok"] == 1, d["b32_ok"] == 1, d["len"] == 2, expected_hrp(d["eb"]) >= 0)
        return [("accepted", ok), ("rejected: other network", z3.And(z3.Not(ok), good, d["variant"] == 1, d["hrp"] == 15)),
                ("rejected: HRP of another entity type", z3.And(z3.Not(ok), good, d["variant"] == 1, d["hrp"] <= 13)),
                ("rejected: Bech32 (not m)", z3.And(z3.Not(ok), good, d["variant"] == 0, d["hrp"] == expected_hrp(d["eb"]))),
                ("rejected: unknown entity byte", z3.And(z3.Not(ok), d["dec_ok"] == 1, d["b32_ok"] == 1, d["len"] >= 1,
                                                         d["variant"] == 1, expected_hrp(d["eb"]) < 0))]

    def vectors(self, rng):
        out = []
        ents = list(ENTITY_HRP)
        for _ in range(40):
            eb = rng.choice(ents) if rng.random() < 0.8 else rng.randrange(256)
            good = rng.random() < 0.5
            out.append({"dec_ok": 1 if good else rng.randrange(2), "hrp": ENTITY_HRP.get(eb, 3) if good else rng.randrange(17),
                        "variant": 1 if good else rng.randrange(2), "b32_ok": 1 if good else rng.randrange(2),
                        "len": 2 if good else rng.randrange(3), "eb": eb})
        return out


class AddressEncode(Job):
    crate = "radix-common"
    query_timeout_s = 60

    def __init__(self):
        self.name = "c28m::address_bech32_encode_to_fmt"
        self.what = ("AddressBech32Encoder::encode_to_fmt for payloads of 0, 1 or 30 bytes with any first byte: it fails "
                     "exactly when the payload is empty or the first byte is not an entity type, and otherwise hands the "
                     "bech32 writer the network's HRP of that entity type with the Bech32m variant (the text the decoder "
                     "accepts back: checked natively by a real encode -> decode round trip)")
        self.cover_labels = ["encoded", "rejected: unknown entity byte", "rejected: empty"]

    def locate(self, prog):
        prog.enums.setdefault("Variant", {"Bech32": 0, "Bech32m": 1})       # enum of the bech32 crate
        return find_function(prog, "address/encoder.rs", "encode_to_fmt", nparams=3)

    def inputs(self):
        d = {k: z3.Int(k) for k in ("len", "eb")}
        return d, [d["len"] >= 0, d["len"] <= 2, d["eb"] >= 0, d["eb"] <= 255]

    case_keys = ("len",)

    def cases(self, tier):
        return [{"len": 0}, {"len": 1}, {"len": 2}]

    def inputs(self):     # noqa: F811
        d = {"eb": z3.Int("eb")}
        return d, [d["eb"] >= 0, d["eb"] <= 255]

    @property
    def env_overrides(self):
        R = re.compile

        def m_writer(interp, path, args, ret_ty, callee):
            job = path.frames["job"]
            hrp = _models.deref(interp, path, args[1])
            job["hrp"] = hrp.fields[0] if hrp.kind == "struct" and hrp.fields else IntV(-2, "i32")
            job["variant"] = IntV(args[3].discr, "u8") if args[3].kind == "enum" else IntV(-1, "i32")
            job["written"] = IntV(job["written"].term + 1, "u32")
            return EnumV(ret_ty, 0, {0: [EnumV("Result<(), fmt::Error>", 0, {0: [UnitV()], 1: [UnitV()]})]})

        def m_to_base32(interp, path, args, ret_ty, callee):
            return StructV("Vec<u5>", [])
        return [(R(r"^bech32_encode_to_fmt::<"), m_writer), (R(r"^<&\[u8\] as ToBase32>::to_base32$"), m_to_base32)] + STR_ENV

    def setup_path(self, path, inp):
        self._d = {k: lit(v) for k, v in inp.items()}
        path.frames["job"] = {"fmt": StructV("Fmt", []), "hrp": IntV(-1, "i32"), "variant": IntV(-1, "i32"),
                              "written": IntV(0, "u32")}

    def args(self, inp):
        d = {k: lit(v) for k, v in inp.items()}
        n = self.case["len"]
        data = StructV("[u8]", ([IntV(d["eb"], "u8")] if n >= 1 else []) + ([IntV(7, "u8")] * 29 if n == 2 else []))
        return [const_ref("&AddressBech32Encoder", StructV("AddressBech32Encoder", [hrp_set_v()])),
                RefV("&mut F", "job", "fmt", ()), const_ref("&[u8]", data)]

    def extract_outcome(self, o):
        job = o.path.frames["job"]
        ok = o.value.discr == 0
        return {"ok": ok, "hrp": z3.If(ok, job["hrp"].term, -1), "variant": z3.If(ok, job["variant"].term, -1),
                "rt": z3.If(ok, 1, 0)}

    def native(self, nat, vals):
        t = nat.call("addr_encode", self.case["len"], vals["eb"]).split()
        if t[0] == "panic":
            return {"panic": True, "msg": " ".join(t[1:])}
        if t[0] != "ok":
            return {"panic": False, "ok": False, "hrp": -1, "variant": -1, "rt": 0}
        # a text produced by the real encoder that the real decoder accepts back is Bech32m by construction
        return {"panic": False, "ok": True, "hrp": int(t[1]), "variant": 1 if t[2] == "1" else 0, "rt": int(t[2])}

    def post(self, inp, res):
        d = {k: lit(v) for k, v in inp.items()}
        n = self.case["len"]
        valid = z3.And(z3.BoolVal(n >= 1), expected_hrp(d["eb"]) >= 0)
        ok = lit(res["ok"])
        return [("fails exactly for an empty payload or an unknown entity byte", ok == valid),
                ("the HRP written is the network's HRP of the entity type, the variant is Bech32m",
                 z3.Implies(ok, z3.And(lit(res["hrp"]) == expected_hrp(d["eb"]), lit(res["variant"]) == 1)))]

    def covers(self, inp, res):
        d = {k: lit(v) for k, v in inp.items()}
        ok = lit(res["ok"])
        n = self.case["len"]
        return [("encoded", z3.And(ok, n == 2)), ("rejected: unknown entity byte", z3.And(z3.Not(ok), n >= 1)),
                ("rejected: empty", z3.And(z3.Not(ok), n == 0))]

    def vectors(self, rng):
        ents = list(ENTITY_HRP)
        return [{"len": rng.randrange(3), "eb": rng.choice(ents) if rng.random() < 0.7 else rng.randrange(256)} for _ in range(30)]


JOBS["C28"] += [AddressDecode(), AddressEncode()]


# ---------------------------------------------------------------------------------------------------------------
# NonFungibleLocalId::from_str, all four text forms
from mirsmt.values import StrSymV   # noqa: E402


def _is_hex(c):
    return z3.Or(z3.And(c >= 48, c <= 57), z3.And(c >= 97, c <= 102), z3.And(c >= 65, c <= 70))


def _is_id_char(c):
    return z3.Or(z3.And(c >= 97, c <= 122), z3.And(c >= 65, c <= 90), z3.And(c >= 48, c <= 57), c == 95)


class ParseLocalIdForms(Job):
    """cases: the text length; `shape` pins the bracket pair so that each form gets its own (cheap) run"""
    crate = "radix-common"
    query_timeout_s = 90
    max_unroll = 80
    case_keys = ("len", "open")
    OPEN = {60: 62, 91: 93, 123: 125}       # '<' '>', '[' ']', '{' '}'

    def __init__(self):
        self.name = "c28m::non_fungible_local_id_from_str_string_bytes_ruid_forms"
        self.what = ("NonFungibleLocalId::from_str on every ASCII text that starts with '<', '[' or '{' (lengths 1..=8 (strings: 1..=6, longer ones with lower-case letters "
                     "except in the last two positions) and the boundary lengths 66, 67 for strings, 130, 132 for bytes, 68, 69, 70 for RUIDs): a string id is accepted "
                     "exactly when 1..=64 characters of [A-Za-z0-9_] stand between '<' and '>'; a bytes id exactly when an "
                     "even number of hex digits for 1..=64 bytes stands between '[' and ']'; a RUID exactly when 64 hex "
                     "digits in four groups of 16 separated by '-' stand between '{' and '}'; the parsed id has the "
                     "matching kind; everything else is an error and nothing panics")
        self.cover_labels = ["string id accepted", "bytes id accepted", "ruid accepted", "ruid with a fourth hyphen rejected",
                             "bad character rejected"]

    def cases(self, tier):
        out = []
        short = range(1, 9) if tier == "thorough" else (1, 2, 3, 4, 6)
        for o in (60, 91, 123):
            for n in short:
                if o == 60 and n > 6:
                    continue
                out.append({"len": n, "open": o})
        out += [{"len": 66, "open": 60}, {"len": 67, "open": 60}, {"len": 130, "open": 91}, {"len": 132, "open": 91},
                {"len": 68, "open": 123}, {"len": 69, "open": 123}, {"len": 70, "open": 123}]
        return out

    def locate(self, prog):
        return find_function(prog, "model/non_fungible_local_id.rs", "from_str", param_types=["&str"])

    def inputs(self):
        n = self.case["len"]
        inp, pre = {}, []
        for i in range(n):
            b = z3.Int("b%d" % i)
            inp["b%d" % i] = b
            pre += [b >= 0, b <= 127]
        pre.append(inp["b0"] == self.case["open"])
        if self.case["open"] == 60 and n > 5:
            # the character check of a string id takes one of four ways per character: long strings are explored with
            # lower-case letters everywhere except the last two inner positions (any byte)
            for i in range(1, n - 3):
                pre += [inp["b%d" % i] >= 97, inp["b%d" % i] <= 122]
        return inp, pre

    def _bytes(self, inp):
        return [lit(inp["b%d" % i]) for i in range(self.case["len"])]

    @property
    def env_overrides(self):
        def m_hex_decode(interp, path, args, ret_ty, callee):
            v = _models.deref(interp, path, args[0])
            if v.kind == "symstr":
                cs = v.bytes
                if len(cs) % 2:
                    return EnumV(ret_ty, 1, {1: [EnumV("FromHexError", 0, {0: []})]})
                valid = z3.And([_is_hex(c) for c in cs]) if cs else z3.BoolVal(True)
                data = StructV("Vec<u8>", [IntV(0, "u8")] * (len(cs) // 2))
                return EnumV(ret_ty, z3.If(valid, 0, 1), {0: [data], 1: [EnumV("FromHexError", 0, {0: []})]})
            if v.kind == "struct" and v.ty == "FilteredString":
                n = z3.Sum([z3.If(k.fields[1].term, 1, 0) for k in v.fields]) if v.fields else z3.IntVal(0)
                valid = z3.And([z3.Implies(k.fields[1].term, _is_hex(k.fields[0].term)) for k in v.fields] + [n % 2 == 0])
                return EnumV(ret_ty, z3.If(valid, 0, 1), {0: [StructV("SymLenVec<u8>", [IntV(n / 2, "usize")])],
                                                           1: [EnumV("FromHexError", 0, {0: []})]})
            raise _models.Refuse("hex::decode of %r" % (v,))
        def m_as_ref(interp, path, args, ret_ty, callee):
            v = _models.deref(interp, path, args[0])
            if v.kind != "symstr":
                raise _models.Refuse("as_ref of %r" % (v,))
            return v
        return [(re.compile(r"^hex::decode::<"), m_hex_decode), (re.compile(r"^<[ST] as AsRef<str>>::as_ref$"), m_as_ref),
                (re.compile(r"^<T as Into<Vec<u8>>>::into$"), lambda interp, path, args, ret_ty, callee: args[0]),
                (re.compile(r"^<String as (__)?Deref>::deref$"), lambda interp, path, args, ret_ty, callee: args[0])]

    def args(self, inp):
        return [StrSymV(self._bytes(inp))]

    def extract(self, v):
        ok = v.discr == 0
        kind = z3.IntVal(-1)
        if v.variants.get(0) and v.variants[0][0].kind == "enum":
            kind = v.variants[0][0].discr
        return {"ok": ok, "kind": z3.If(ok, kind, -1)}

    def native(self, nat, vals):
        hx = "".join("%02x" % int(vals["b%d" % i]) for i in range(self.case["len"]))
        t = nat.call("nfid_kind", hx).split()
        if t[0] == "panic":
            return {"panic": True, "msg": " ".join(t[1:])}
        return {"panic": False, "ok": t[0] == "ok", "kind": int(t[1]) if t[0] == "ok" else -1}

    def _spec(self, bs):
        n = len(bs)
        o = self.case["open"]
        if n < 2:
            return z3.BoolVal(False), -1
        closed = bs[-1] == self.OPEN[o]
        inner = bs[1:-1]
        if o == 60:
            good = z3.And([z3.BoolVal(1 <= len(inner) <= 64)] + [_is_id_char(c) for c in inner])
            return z3.And(closed, good), 0
        if o == 91:
            good = z3.And([z3.BoolVal(len(inner) % 2 == 0 and 1 <= len(inner) // 2 <= 64)] + [_is_hex(c) for c in inner])
            return z3.And(closed, good), 2
        if len(inner) != 67:
            return z3.BoolVal(False), 3
        good = z3.And([inner[i] == 45 if i in (16, 33, 50) else _is_hex(inner[i]) for i in range(67)])
        return z3.And(closed, good), 3

    def post(self, inp, res):
        bs = self._bytes(inp)
        spec, kind = self._spec(bs)
        ok = lit(res["ok"])
        return [("accepted exactly when the text is a well-formed id of its bracket's form", ok == spec),
                ("the parsed id has the kind its brackets announce", z3.Implies(ok, lit(res["kind"]) == kind))]

    def covers(self, inp, res):
        bs = self._bytes(inp)
        n, o = len(bs), self.case["open"]
        ok = lit(res["ok"])
        F = z3.BoolVal(False)
        fourth = F
        if o == 123 and n == 69:
            inner = bs[1:-1]
            fourth = z3.And(z3.Not(ok), bs[-1] == 125, inner[16] == 45, inner[33] == 45, inner[50] == 45, inner[5] == 45,
                            z3.And([_is_hex(inner[i]) for i in range(67) if i not in (5, 16, 33, 50)]))
        bad = z3.And(z3.Not(ok), bs[-1] == self.OPEN[o]) if (n >= 3) else F
        return [("string id accepted", z3.And(ok, o == 60)), ("bytes id accepted", z3.And(ok, o == 91)),
                ("ruid accepted", z3.And(ok, o == 123)), ("ruid with a fourth hyphen rejected", fourth),
                ("bad character rejected", bad)]

    def vectors(self, rng):
        texts = ["<a>", "<>", "<a b>", "<abc_09Z>", "<", "[", "{", "[00]", "[0g]", "[0]", "[]", "[0aFf]", "<a", "[00", "{}", "{a}",
                 "<" + "a" * 64 + ">", "<" + "a" * 65 + ">", "[" + "ab" * 64 + "]", "[" + "ab" * 65 + "]",
                 "{1111111111111111-2222222222222222-3333333333333333-4444444444444444}",
                 "{1111111111111111-2222222222222222-3333333333333333-44444444444444--}",
                 "{1111111111111111-2222222222222222-3333333333333333-444444444444444g}",
                 "{1111111111111111-2222222222222222-3333333333333333-444444444444444}",
                 "{1111111111111111-2222222222222222-3333333333333333-44444444444444444}",
                 "{1111111111111111_2222222222222222-3333333333333333-4444444444444444}"]
        allowed = {(c["len"], c["open"]) for c in self.cases("thorough")}
        out = []
        for t in texts:
            if (len(t), ord(t[0])) not in allowed:
                continue
            d = {"len": len(t), "open": ord(t[0])}
            for i, ch in enumerate(t):
                d["b%d" % i] = ord(ch)
            out.append(d)
        return out


JOBS["C28"] += [ParseLocalIdForms()]
