"""More Engine-M jobs on radix-common (round 3): the rest of C24 (add/sub/neg/abs, conversions), C25 wrappers
(floor/ceiling), C26 (roots and small integer powers), C29 date-time arithmetic (assume-guarantee composition).

A SimpleJob is declared by: where the function is, its symbolic inputs with ranges, how MIR arguments are built, how the
result is read, which native replay op calls the real function, the post-conditions and the covers.
"""
import re

import z3

from mir_engine import Job, find_function, lit
from mirsmt.values import IntV, StructV, EnumV
from mir_jobs import (dec_v, pdec_v, unwrap_int, opt_extract, res_extract, parse_native_opt, edge_ints, tdiv, const_ref,
                      mode_v, round_spec, I192_LO, I192_HI, I256_LO, I256_HI, E18, E36, JOBS, civil_seconds,
                      valid_fields, FIELDS, FIELD_TYS, dt_extract, MIN_TS, MAX_TS)

PRIM = {"i64": (-(1 << 63), (1 << 63) - 1), "u64": (0, (1 << 64) - 1), "i128": (-(1 << 127), (1 << 127) - 1),
        "u128": (0, (1 << 128) - 1), "u8": (0, 255), "u32": (0, (1 << 32) - 1), "i32": (-(1 << 31), (1 << 31) - 1)}


def val_extract(v):
    return {"val": unwrap_int(v)}


def parse_native_val(s):
    t = s.split()
    if t[0] == "panic":
        return {"panic": True, "msg": " ".join(t[1:])}
    if t[0] != "val":
        raise RuntimeError("native output: " + s)
    return {"panic": False, "val": int(t[1])}


class SimpleJob(Job):
    def __init__(self, name, what, locate, ins, mkargs, extract, native_op, post, covers, cover_labels, pre=None,
                 cases=None, case_keys=(), native_order=None, native_parse=parse_native_opt, extra_vectors=(),
                 crate="radix-common", tiers=("quick", "thorough"), max_unroll=40, query_timeout_s=60,
                 overrides=None, quick_cases=None, allow_panic=None, vector_gen=None):
        self.vector_gen = vector_gen
        self.name, self.what, self._locate, self.ins, self.mkargs = name, what, locate, ins, mkargs
        self._extract, self.native_op, self._post, self._covers = extract, native_op, post, covers
        self.cover_labels, self._pre, self._cases, self.case_keys = cover_labels, pre, cases, case_keys
        self.native_order = native_order or [i[0] for i in ins]
        self.native_parse, self.extra_vectors = native_parse, list(extra_vectors)
        self.crate, self.tiers, self.max_unroll, self.query_timeout_s = crate, tiers, max_unroll, query_timeout_s
        self.overrides, self._quick_cases, self.allow_panic = overrides, quick_cases, allow_panic
        self.case = None

    def cases(self, tier):
        if self._cases is None:
            return [None]
        if tier == "quick" and self._quick_cases is not None:
            return list(self._quick_cases)
        return list(self._cases)

    def locate(self, prog):
        return self._locate(prog)

    def inputs(self):
        inp, pre = {}, []
        for name, lo, hi in self.ins:
            v = z3.Int(name)
            inp[name] = v
            pre += [v >= lo, v <= hi]
        if self._pre:
            pre += list(self._pre(inp, self.case))
        return inp, pre

    def args(self, inp):
        return self.mkargs(inp, self.case)

    def extract(self, v):
        return self._extract(v)

    def native(self, nat, vals):
        a = []
        for k in self.native_order:
            a.append(self.case[k] if (self.case and k in self.case) else vals[k])
        op = self.native_op(self.case) if callable(self.native_op) else self.native_op
        return self.native_parse(nat.call(op, *a))

    def post(self, inp, res):
        inp = {k: lit(v) for k, v in inp.items()}
        res = {k: (lit(v) if not isinstance(v, str) else v) for k, v in res.items()}
        return self._post(inp, res, self.case)

    def covers(self, inp, res):
        return self._covers(inp, res, self.case)

    def vectors(self, rng):
        if self.vector_gen is not None:
            return self.vector_gen(rng) + [dict(ev) for ev in self.extra_vectors]
        out = []
        pools = {}
        for name, lo, hi in self.ins:
            pools[name] = edge_ints(lo, hi, rng, extra=[x for x in (E18 * 7, -E18 * 7, 4 * E18, 9 * E18, 27 * E18, 8 * E18,
                                                                     16 * E18, 2 * E18, E36, 4 * E36, 27 * E36)
                                                         if lo <= x <= hi])
        allc = self.cases("thorough")
        for i in range(40):
            d = {name: rng.choice(pools[name]) for name, _, _ in self.ins}
            if allc[0] is not None:
                d.update(rng.choice(allc))
            out.append(d)
        for ev in self.extra_vectors:
            out.append(dict(ev))
        # keep only vectors satisfying simple range preconditions (extra pre may still exclude some: the engine
        # checks the precondition itself before using a vector as a cover witness)
        return out


def fn(file, name, **kw):
    return lambda prog: find_function(prog, file, name, **kw)


def ref_dec(inp_term):
    return const_ref("&Decimal", dec_v(inp_term))


def ref_pdec(inp_term):
    return const_ref("&PreciseDecimal", pdec_v(inp_term))


DEC, PDEC = "math/decimal.rs", "math/precise_decimal.rs"
D_IN = lambda n: (n, I192_LO, I192_HI)      # noqa: E731
P_IN = lambda n: (n, I256_LO, I256_HI)      # noqa: E731


def in_rng(e, lo, hi):
    return z3.And(e >= lo, e <= hi)


# =====================================================================================================
# C24: add / sub / neg / abs from MIR, and the conversions
# =====================================================================================================
def addsub(precise, op):
    lo, hi = (I256_LO, I256_HI) if precise else (I192_LO, I192_HI)
    mk = pdec_v if precise else dec_v
    ty = "precise_decimal::PreciseDecimal" if precise else "decimal::Decimal"
    sign = 1 if op == "add" else -1
    pre = "pdec_" if precise else "dec_"
    return SimpleJob(
        "c24m::%s_checked_%s" % ("precise_decimal" if precise else "decimal", op),
        "%s::checked_%s is the exact %s, None iff it leaves the type's range; every pair of values" % (
            "PreciseDecimal" if precise else "Decimal", op, "sum" if op == "add" else "difference"),
        fn(PDEC if precise else DEC, "checked_" + op, param_types=[ty, ty]),
        [("a", lo, hi), ("b", lo, hi)], lambda inp, c: [mk(inp["a"]), mk(inp["b"])], opt_extract, pre + op,
        lambda inp, res, c: [("Some iff the exact result is representable",
                              res["some"] == in_rng(inp["a"] + sign * inp["b"], lo, hi)),
                             ("value is the exact result", z3.Implies(res["some"], res["val"] == inp["a"] + sign * inp["b"]))],
        lambda inp, res, c: [("some", res["some"]), ("none", z3.Not(res["some"]))], ["some", "none"],
        extra_vectors=[{"a": hi, "b": 1}, {"a": lo, "b": -1}, {"a": lo, "b": 1}, {"a": hi, "b": -1}])


def negabs(precise, op):
    lo, hi = (I256_LO, I256_HI) if precise else (I192_LO, I192_HI)
    mk = pdec_v if precise else dec_v
    refmk = ref_pdec if precise else ref_dec
    ty = "precise_decimal::PreciseDecimal" if precise else "decimal::Decimal"
    if op == "neg":
        loc = fn(PDEC if precise else DEC, "checked_neg", param_types=[ty])
        mkargs = lambda inp, c: [mk(inp["a"])]                                  # noqa: E731
        want = lambda a: -a                                                     # noqa: E731
    else:
        loc = fn(PDEC if precise else DEC, "checked_abs", nparams=1)
        mkargs = lambda inp, c: [refmk(inp["a"])]                               # noqa: E731
        want = lambda a: z3.If(a >= 0, a, -a)                                   # noqa: E731
    return SimpleJob(
        "c24m::%s_checked_%s" % ("precise_decimal" if precise else "decimal", op),
        "%s::checked_%s: exact, None only for MIN; every value" % ("PreciseDecimal" if precise else "Decimal", op),
        loc, [("a", lo, hi)], mkargs, opt_extract, ("pdec_" if precise else "dec_") + op,
        lambda inp, res, c: [("Some iff the exact result is representable (i.e. not MIN)", res["some"] == (inp["a"] != lo)),
                             ("value is exact", z3.Implies(res["some"], res["val"] == want(inp["a"])))],
        lambda inp, res, c: [("some", res["some"]), ("none", z3.Not(res["some"])),
                             ("negative input", z3.And(res["some"], inp["a"] < 0))], ["some", "none", "negative input"],
        extra_vectors=[{"a": lo}, {"a": lo + 1}, {"a": hi}])


def from_prim(target_precise, prim):
    lo, hi = PRIM[prim]
    scale = E36 if target_precise else E18
    return SimpleJob(
        "c24m::%s_from_%s" % ("precise_decimal" if target_precise else "decimal", prim),
        "%s::from(%s) is exactly n * 10^%d and never panics; every %s" % (
            "PreciseDecimal" if target_precise else "Decimal", prim, 36 if target_precise else 18, prim),
        fn(PDEC if target_precise else DEC, "from", param_types=[prim],
           ret_contains="PreciseDecimal" if target_precise else "Decimal"),
        [("n", lo, hi)], lambda inp, c: [IntV(inp["n"], prim)], val_extract,
        ("pdec_from_" if target_precise else "dec_from_") + prim,
        lambda inp, res, c: [("value is n scaled by ONE", res["val"] == inp["n"] * scale)],
        lambda inp, res, c: [("max", inp["n"] == hi), ("min", inp["n"] == lo)], ["max", "min"],
        native_parse=parse_native_val, extra_vectors=[{"n": lo}, {"n": hi}, {"n": 0}, {"n": 1}])


def to_prim(prim):
    lo, hi = PRIM[prim]
    return SimpleJob(
        "c24m::%s_try_from_decimal" % prim,
        "%s::try_from(Decimal): Ok(n) iff the value is the integer n and n fits %s; never panics; every Decimal" % (
            prim, prim),
        fn(DEC, "try_from", param_types=["decimal::Decimal"], ret_contains="Result<%s," % prim),
        [D_IN("a")], lambda inp, c: [dec_v(inp["a"])], res_extract, "dec_to_" + prim,
        lambda inp, res, c: [("Ok iff integral and in range", res["some"] == z3.And(
            inp["a"] % E18 == 0, in_rng(tdiv(inp["a"], E18), lo, hi))),
            ("value is the integer", z3.Implies(res["some"], res["val"] * E18 == inp["a"]))],
        lambda inp, res, c: [("ok", res["some"]), ("fractional", z3.And(z3.Not(res["some"]), inp["a"] % E18 != 0)),
                             ("out of range", z3.And(z3.Not(res["some"]), inp["a"] % E18 == 0))],
        ["ok", "fractional", "out of range"],
        extra_vectors=[{"a": hi * E18}, {"a": (hi + 1) * E18}, {"a": lo * E18}, {"a": (lo - 1) * E18}, {"a": E18 + 1},
                       {"a": 5 * E18}])


def pdec_from_dec():
    return SimpleJob(
        "c24m::precise_decimal_from_decimal", "PreciseDecimal::from(Decimal) is exactly a * 10^18 and never panics",
        fn(PDEC, "from", param_types=["decimal::Decimal"], ret_contains="PreciseDecimal"),
        [D_IN("a")], lambda inp, c: [dec_v(inp["a"])], val_extract, "pdec_from_dec",
        lambda inp, res, c: [("value is a * 10^18", res["val"] == inp["a"] * E18)],
        lambda inp, res, c: [("max", inp["a"] == I192_HI), ("min", inp["a"] == I192_LO)], ["max", "min"],
        native_parse=parse_native_val, extra_vectors=[{"a": I192_HI}, {"a": I192_LO}])


def dec_try_from_pdec():
    return SimpleJob(
        "c24m::decimal_try_from_precise_decimal",
        "Decimal::try_from(PreciseDecimal) truncates toward zero to 18 places; Err iff the truncated value leaves I192",
        fn(DEC, "try_from", param_types=["precise_decimal::PreciseDecimal"], ret_contains="Result<Decimal"),
        [P_IN("p")], lambda inp, c: [pdec_v(inp["p"])], res_extract, "dec_try_from_pdec",
        lambda inp, res, c: [("Ok iff trunc(p / 10^18) fits I192", res["some"] == in_rng(tdiv(inp["p"], E18), I192_LO, I192_HI)),
                             ("value is trunc(p / 10^18)", z3.Implies(res["some"], res["val"] == tdiv(inp["p"], E18)))],
        lambda inp, res, c: [("ok", res["some"]), ("err", z3.Not(res["some"])),
                             ("negative inexact", z3.And(res["some"], inp["p"] < 0, inp["p"] % E18 != 0))],
        ["ok", "err", "negative inexact"],
        extra_vectors=[{"p": I192_HI * E18 + E18 - 1}, {"p": (I192_HI + 1) * E18}, {"p": I192_LO * E18 - E18 + 1},
                       {"p": I192_LO * E18 - E18}, {"p": -1}, {"p": -E18 - 1}])


def pdec_truncate():
    return SimpleJob(
        "c24m::precise_decimal_checked_truncate",
        "PreciseDecimal::checked_truncate(mode) rounds to 18 places with the mode and narrows: Some iff that value "
        "fits I192; every 256-bit value, all 7 modes",
        fn(PDEC, "checked_truncate", nparams=2), [P_IN("p"), ("mode", 0, 6)],
        lambda inp, c: [pdec_v(inp["p"]), mode_v(inp["mode"])], opt_extract, "pdec_truncate",
        lambda inp, res, c: [
            ("Some iff the rounded quotient fits I192 (and the intermediate rounding fits I256)",
             res["some"] == z3.And(in_rng(round_spec(inp["p"], E18, inp["mode"]), I256_LO, I256_HI),
                                   in_rng(round_spec(inp["p"], E18, inp["mode"]) / E18, I192_LO, I192_HI))),
            ("value is the mode's multiple of 10^-18", z3.Implies(res["some"], res["val"] * E18 == round_spec(
                inp["p"], E18, inp["mode"])))],
        lambda inp, res, c: [("some", res["some"]), ("none", z3.Not(res["some"])),
                             ("rounded up", z3.And(res["some"], res["val"] * E18 > inp["p"]))],
        ["some", "none", "rounded up"])


JOBS["C24"] += [addsub(False, "add"), addsub(False, "sub"), addsub(True, "add"), addsub(True, "sub"),
                negabs(False, "neg"), negabs(False, "abs"), negabs(True, "neg"), negabs(True, "abs"),
                pdec_from_dec(), dec_try_from_pdec(), pdec_truncate(),
                from_prim(False, "i64"), from_prim(False, "u64"), from_prim(False, "i128"), from_prim(False, "u128"),
                from_prim(True, "i128"), from_prim(True, "u128"),
                to_prim("i64"), to_prim("u64"), to_prim("i128"), to_prim("u8")]


# =====================================================================================================
# C25: floor / ceiling wrappers
# =====================================================================================================
def floorceil(precise, which):
    lo, hi = (I256_LO, I256_HI) if precise else (I192_LO, I192_HI)
    one = E36 if precise else E18
    refmk = ref_pdec if precise else ref_dec
    want = (lambda a: (a / one) * one) if which == "floor" else (lambda a: z3.If(a % one == 0, a, (a / one) * one + one))
    return SimpleJob(
        "c25m::%s_checked_%s" % ("precise_decimal" if precise else "decimal", which),
        "%s::checked_%s: the %s integer, None iff it is not representable; every value" % (
            "PreciseDecimal" if precise else "Decimal", which,
            "largest not above" if which == "floor" else "smallest not below"),
        fn(PDEC if precise else DEC, "checked_" + which, nparams=1), [("a", lo, hi)],
        lambda inp, c: [refmk(inp["a"])], opt_extract, ("pdec_" if precise else "dec_") + which,
        lambda inp, res, c: [("Some iff representable", res["some"] == in_rng(want(inp["a"]), lo, hi)),
                             ("value", z3.Implies(res["some"], res["val"] == want(inp["a"])))],
        lambda inp, res, c: [("some", res["some"]), ("none", z3.Not(res["some"])),
                             ("changed", z3.And(res["some"], res["val"] != inp["a"]))], ["some", "none", "changed"],
        max_unroll=60, extra_vectors=[{"a": lo}, {"a": hi}, {"a": -1}, {"a": 1}, {"a": one}, {"a": -one}])


JOBS["C25"] += [floorceil(False, "floor"), floorceil(False, "ceiling"), floorceil(True, "floor"),
                floorceil(True, "ceiling")]


# =====================================================================================================
# C26: roots and small integer powers
# =====================================================================================================
def ipow(t, k):
    o = t
    for _ in range(k - 1):
        o = o * t
    return o


def root_job(precise, n, via_nth):
    lo, hi = (I256_LO, I256_HI) if precise else (I192_LO, I192_HI)
    one = E36 if precise else E18
    refmk = ref_pdec if precise else ref_dec
    tname = "precise_decimal" if precise else "decimal"
    fname = "checked_nth_root" if via_nth else {2: "checked_sqrt", 3: "checked_cbrt"}[n]
    scale = one ** (n - 1)

    def post(inp, res, c):
        a, ok, v = inp["a"], res["some"], res["val"]
        neg_ok = (n % 2 == 1)
        posts = [("Some iff the root is defined (odd degree or non-negative value)",
                  ok == (z3.BoolVal(True) if neg_ok else a >= 0))]
        posts.append(("non-negative value: v^n <= a * ONE^(n-1) < (v+1)^n (root truncated toward zero)",
                      z3.Implies(z3.And(ok, a >= 0), z3.And(v >= 0, ipow(v, n) <= a * scale, a * scale < ipow(v + 1, n)))))
        if neg_ok:
            posts.append(("negative value: (-v)^n <= -a * ONE^(n-1) < (-v+1)^n (root truncated toward zero)",
                          z3.Implies(z3.And(ok, a < 0), z3.And(v <= 0, ipow(-v, n) <= -a * scale,
                                                               -a * scale < ipow(-v + 1, n)))))
        return posts
    mkargs = (lambda inp, c: [refmk(inp["a"]), IntV(n, "u32")]) if via_nth else (lambda inp, c: [refmk(inp["a"])])
    op = ("pdec_" if precise else "dec_") + ("nth_root" if via_nth else {2: "sqrt", 3: "cbrt"}[n])
    j = SimpleJob(
        "c26m::%s_%s%s" % (tname, fname, "_%d" % n if via_nth else ""),
        "%s::%s%s returns the root truncated toward zero to the type's precision; fails only for an even root of a "
        "negative value; never panics; every value" % ("PreciseDecimal" if precise else "Decimal", fname,
                                                       "(%d)" % n if via_nth else ""),
        fn(PDEC if precise else DEC, fname, nparams=2 if via_nth else 1), [("a", lo, hi)], mkargs, opt_extract, op,
        post,
        lambda inp, res, c: [("some", res["some"]), ("inexact", z3.And(res["some"], inp["a"] > 0,
                                                                      ipow(res["val"], n) < inp["a"] * scale)),
                             ("exact", z3.And(res["some"], inp["a"] > one, ipow(res["val"], n) == inp["a"] * scale))],
        ["some", "inexact", "exact"], query_timeout_s=120,
        native_order=["a", "n"] if via_nth else ["a"], cases=[{"n": n}] if via_nth else None,
        case_keys=("n",) if via_nth else (),
        extra_vectors=[dict({"a": x}, **({"n": n} if via_nth else {})) for x in
                       (0, 1, -1, one, 4 * one, 8 * one, 9 * one, 27 * one, 16 * one, 2 * one, hi, lo, -8 * one, -one)])
    return j


def nth_root_zero_degree(precise):
    lo, hi = (I256_LO, I256_HI) if precise else (I192_LO, I192_HI)
    refmk = ref_pdec if precise else ref_dec
    return SimpleJob(
        "c26m::%s_checked_nth_root_degree_0_1" % ("precise_decimal" if precise else "decimal"),
        "checked_nth_root(0) is None and checked_nth_root(1) is the value itself, for every value",
        fn(PDEC if precise else DEC, "checked_nth_root", nparams=2), [("a", lo, hi), ("n", 0, 1)],
        lambda inp, c: [refmk(inp["a"]), IntV(inp["n"], "u32")], opt_extract, ("pdec_" if precise else "dec_") + "nth_root",
        lambda inp, res, c: [("degree 0 fails, degree 1 is the identity",
                              z3.If(inp["n"] == 0, z3.Not(res["some"]), z3.And(res["some"], res["val"] == inp["a"])))],
        lambda inp, res, c: [("zero", z3.Not(res["some"])), ("one", res["some"])], ["zero", "one"],
        native_order=["a", "n"])


def powi_job(precise, exp):
    lo, hi = (I256_LO, I256_HI) if precise else (I192_LO, I192_HI)
    one = E36 if precise else E18
    refmk = ref_pdec if precise else ref_dec

    def post(inp, res, c):
        a, ok, v = inp["a"], res["some"], res["val"]
        e = exp
        if e == 0:
            return [("x^0 = 1", z3.And(ok, v == one))]
        if e == 1:
            return [("x^1 = x", z3.And(ok, v == a))]
        if e > 1:
            exact_num = ipow(a, e)              # exact value = a^e / one^(e-1)  (in subunits)
            den = one ** (e - 1)
            posts = [
                ("never exceeds the exact power in magnitude, with its sign",
                 z3.Implies(ok, z3.If(exact_num >= 0, z3.And(v >= 0, v * den <= exact_num),
                                      z3.And(v <= 0, v * den >= exact_num)))),
            ]
            if e <= 3:      # for e >= 4 z3 does not decide the degree-4 equality inside the cap: stated in the bounds
                posts.append(("exact whenever the exact power is representable and a is a whole number of units",
                              z3.Implies(z3.And(a % one == 0, in_rng(tdiv(exact_num, den), lo, hi)),
                                         z3.And(ok, v * den == exact_num))))
            return posts
        # negative exponent: 1 / a^|e| ; a = 0 fails; the result never exceeds the exact quotient in magnitude
        m = -e
        am = ipow(a, m)
        sign_ok = (v >= 0) if m % 2 == 0 else z3.If(a > 0, v >= 0, v <= 0)
        return [("zero base fails for a negative exponent", z3.Implies(a == 0, z3.Not(ok))),
                ("never exceeds the exact reciprocal power in magnitude, with its sign",
                 z3.Implies(z3.And(ok, a != 0), z3.And(sign_ok, v * am <= one ** (m + 1))))]
    return SimpleJob(
        "c26m::%s_checked_powi_%s" % ("precise_decimal" if precise else "decimal", str(exp).replace("-", "m")),
        "%s::checked_powi(%d): never exceeds the exact power in magnitude (sign preserved)%s, None instead of a panic "
        "on overflow; every value" % ("PreciseDecimal" if precise else "Decimal", exp,
                                      ", exact for whole-unit bases whenever representable" if 2 <= exp <= 3 else ""),
        fn(PDEC if precise else DEC, "checked_powi", nparams=2), [("a", lo, hi)],
        lambda inp, c: [refmk(inp["a"]), IntV(exp, "i64")], opt_extract, ("pdec_" if precise else "dec_") + "powi",
        post, lambda inp, res, c: [("some", res["some"])] + ([("none", z3.Not(res["some"]))] if exp not in (0, 1) else []),
        ["some"] + (["none"] if exp not in (0, 1) else []), query_timeout_s=120, max_unroll=80,
        native_order=["a", "e"], cases=[{"e": exp}], case_keys=("e",),
        extra_vectors=[{"a": x, "e": exp} for x in (0, 1, -1, one, -one, 2 * one, -2 * one, 3 * one, one + 1, hi, lo,
                                                     one // 2, 10 * one, -10 * one)])


JOBS["C26"] = [root_job(False, 2, False), root_job(False, 3, False), root_job(True, 2, False), root_job(True, 3, False),
               root_job(False, 2, True), root_job(False, 3, True), root_job(False, 4, True),
               nth_root_zero_degree(False), nth_root_zero_degree(True)]
JOBS["C26"] += [powi_job(False, e) for e in (0, 1, 2, 3, 4, 5, -1, -2, -3)]
JOBS["C26"] += [powi_job(True, e) for e in (2, 3, -1)]


# =====================================================================================================
# C29: Instant::add_* and UtcDateTime::add_* (assume-guarantee: to_instant / from_instant replaced by the
# specification that c29m::utc_to_instant / c29m::utc_from_instant decide on the same run)
# =====================================================================================================
UNITS = {"days": 86400, "hours": 3600, "minutes": 60, "seconds": 1}
I64 = (-(1 << 63), (1 << 63) - 1)


def instant_add(unit):
    u = UNITS[unit]
    return SimpleJob(
        "c29m::instant_add_" + unit,
        "Instant::add_%s(k) = Some(t + k*%d) iff neither the product nor the sum overflows i64; every t, k" % (unit, u),
        fn("time/instant.rs", "add_" + unit, nparams=2), [("t",) + I64, ("k",) + I64],
        lambda inp, c: [const_ref("&Instant", StructV("Instant", [IntV(inp["t"], "i64")])), IntV(inp["k"], "i64")],
        opt_extract, "instant_add",
        lambda inp, res, c: [("Some iff no i64 overflow", res["some"] == z3.And(in_rng(inp["k"] * u, *I64),
                                                                               in_rng(inp["t"] + inp["k"] * u, *I64))),
                             ("value", z3.Implies(res["some"], res["val"] == inp["t"] + inp["k"] * u))],
        lambda inp, res, c: [("some", res["some"]), ("none", z3.Not(res["some"])), ("backwards", z3.And(res["some"], inp["k"] < 0))],
        ["some", "none", "backwards"], native_order=["unit", "t", "k"], cases=[{"unit": unit}], case_keys=("unit",),
        extra_vectors=[{"t": 0, "k": 1, "unit": unit}, {"t": I64[1], "k": 1, "unit": unit},
                       {"t": 5, "k": I64[1] // u, "unit": unit}, {"t": -5, "k": I64[0] // u, "unit": unit}])


def _spec_to_instant(interp, path, args, ret_ty, callee):
    from mirsmt.models import deref
    d = deref(interp, path, args[0])
    f = {k: x.term for k, x in zip(FIELDS, d.fields)}
    return StructV("Instant", [IntV(civil_seconds(f), "i64")])


def _spec_from_instant(interp, path, args, ret_ty, callee):
    """Ok(fields) with valid fields denoting exactly t when MIN_TS <= t <= MAX_TS, else Err (the verified contract)."""
    from mirsmt.models import deref, Outcome
    inst = deref(interp, path, args[0])
    t = inst.fields[0].term
    interp.fresh = getattr(interp, "fresh", 0) + 1
    fs = {k: z3.Int("fi%d_%s" % (interp.fresh, k)) for k in FIELDS}
    outs = []
    for p, tag in interp.fork(path, [(z3.And(t >= MIN_TS, t <= MAX_TS), "ok"), (z3.Or(t < MIN_TS, t > MAX_TS), "err")]):
        if tag == "ok":
            interp.assume(p, z3.And(valid_fields(fs), civil_seconds(fs) == t))
            dt = StructV("UtcDateTime", [IntV(fs[k], ty) for k, ty in zip(FIELDS, FIELD_TYS)])
            outs.append(Outcome(p, "ret", EnumV(ret_ty, 0, {0: [dt]})))
        else:
            outs.append(Outcome(p, "ret", EnumV(ret_ty, 1, {1: [EnumV("DateTimeError", 0, {0: []})]})))
    return outs


def _dt_vectors(rng):
    out = []
    for _ in range(30):
        y = rng.choice([rng.randrange(1, 3000), rng.randrange(1, 4294967296)])
        m = rng.randrange(1, 13)
        leap = y % 4 == 0 and (y % 100 != 0 or y % 400 == 0)
        dim = [31, 29 if leap else 28, 31, 30, 31, 30, 31, 31, 30, 31, 30, 31][m - 1]
        k = rng.choice([rng.randrange(-10 ** 6, 10 ** 6), rng.randrange(-10 ** 12, 10 ** 12), rng.randrange(*I64)])
        out.append(dict(zip(FIELDS + ["k"], (y, m, rng.randrange(1, dim + 1), rng.randrange(24), rng.randrange(60),
                                            rng.randrange(60), k))))
    return out


def utc_add(unit):
    u = UNITS[unit]

    def extract(v):
        d = {"some": v.discr == 1}
        if 1 in v.variants and v.variants[1] and v.variants[1][0].kind == "struct":
            d.update(dt_extract(v.variants[1][0]))
        else:
            d.update({k: z3.IntVal(0) for k in FIELDS})
        return d

    def parse(s):
        t = s.split()
        if t[0] == "panic":
            return {"panic": True, "msg": " ".join(t[1:])}
        if t[0] == "none":
            return dict({"panic": False, "some": False}, **{k: 0 for k in FIELDS})
        return dict({"panic": False, "some": True}, **{k: int(x) for k, x in zip(FIELDS, t[1:])})

    def post(inp, res, c):
        t0 = civil_seconds(inp)
        t1 = t0 + inp["k"] * u
        ok_expected = z3.And(in_rng(inp["k"] * u, *I64), in_rng(t1, *I64), t1 >= MIN_TS, t1 <= MAX_TS)
        r = {k: res[k] for k in FIELDS}
        return [("Some iff the shifted instant exists and is in the supported range", res["some"] == ok_expected),
                ("the result is a valid date-time denoting exactly the shifted instant",
                 z3.Implies(res["some"], z3.And(valid_fields(r), civil_seconds(r) == t1)))]
    return SimpleJob(
        "c29m::utc_add_" + unit,
        "UtcDateTime::add_%s(k) agrees with instant arithmetic: Some(d') iff to_instant(d) + k*%d is a supported "
        "instant, and then d' denotes exactly that instant (composition checked from MIR with to_instant / from_instant "
        "replaced by the contract decided by c29m::utc_to_instant / c29m::utc_from_instant); every valid date-time "
        "(any u32 year >= 1), every i64 k" % (unit, u),
        fn("time/utc_date_time.rs", "add_" + unit, nparams=2),
        [(k, 0, 4294967295) for k in FIELDS] + [("k",) + I64],
        lambda inp, c: [const_ref("&UtcDateTime", StructV("UtcDateTime", [IntV(inp[k], ty) for k, ty in
                                                                           zip(FIELDS, FIELD_TYS)])), IntV(inp["k"], "i64")],
        extract, "utc_add_" + unit, post,
        lambda inp, res, c: [("some", res["some"]), ("none", z3.Not(res["some"])),
                             ("crosses a year", z3.And(res["some"], res["year"] != inp["year"]))],
        ["some", "none", "crosses a year"], pre=lambda inp, c: [valid_fields(inp)],
        native_order=["k"] + FIELDS, native_parse=parse, query_timeout_s=300, vector_gen=_dt_vectors,
        tiers=("thorough",),       # measured: ~18 min per unit (z3 on the Gregorian-reference terms)
        overrides=[(re.compile(r"UtcDateTime::to_instant$|<impl .*>::to_instant$|^to_instant$|::to_instant$"), _spec_to_instant),
                   (re.compile(r"::from_instant$"), _spec_from_instant)],
        extra_vectors=[dict(zip(FIELDS + ["k"], v)) for v in [
            (1970, 1, 1, 0, 0, 0, 1), (1999, 12, 31, 23, 59, 59, 1), (2000, 2, 28, 12, 0, 0, 1 if unit == "days" else 86400 // u),
            (2024, 3, 1, 0, 0, 0, -1), (1, 1, 1, 0, 0, 0, -1), (4294967295, 12, 31, 23, 59, 59, 1),
            (2023, 6, 15, 8, 30, 0, I64[1]), (2023, 6, 15, 8, 30, 0, I64[0]), (1600, 2, 29, 0, 0, 0, 86400 // u)]])


JOBS["C29"] += [instant_add(u) for u in ("days", "hours", "minutes", "seconds")]
JOBS["C29"] += [utc_add(u) for u in ("days", "hours", "minutes", "seconds")]


# =====================================================================================================
# C27: Decimal / PreciseDecimal text parsing (string model: concrete length, symbolic ASCII bytes)
# =====================================================================================================
from mirsmt.values import StrSymV  # noqa: E402


def _numeral_shapes(bs, scale):
    """All ways a byte string of this length can be `[+-]? digits+ ( '.' digits{1,scale} )?`:
    -> [(condition, exact value in subunits)]"""
    n = len(bs)
    shapes = []

    def dig(b):
        return z3.And(b >= 48, b <= 57)

    def val(ds):
        t = z3.IntVal(0)
        for d in ds:
            t = t * 10 + (d - 48)
        return t
    for has_sign in (0, 1):
        if has_sign and n == 0:
            continue
        body = bs[has_sign:]
        m = len(body)
        for dot in [None] + list(range(m)):
            if dot is None:
                ip, fp = body, []
                if not ip:
                    continue
                cond = [dig(b) for b in ip]
            else:
                ip, fp = body[:dot], body[dot + 1:]
                if not ip or not fp or len(fp) > scale:
                    continue
                cond = [dig(b) for b in ip] + [body[dot] == 46] + [dig(b) for b in fp]
            mag = val(ip) * 10 ** scale + (val(fp) * 10 ** (scale - len(fp)) if fp else 0)
            if has_sign:
                shapes.append((z3.And(cond + [bs[0] == 43]), mag))
                shapes.append((z3.And(cond + [bs[0] == 45]), -mag))
            else:
                shapes.append((z3.And(cond), mag))
    return shapes


class ParseDecimal(Job):
    case_keys = ("len",)
    crate = "radix-common"
    query_timeout_s = 120

    def __init__(self, precise, lens_quick, lens_thorough):
        self.precise = precise
        self.scale = 36 if precise else 18
        self.name = "c27m::%s_from_str" % ("precise_decimal" if precise else "decimal")
        self.what = ("%s::from_str on every ASCII string of the enumerated lengths: accepted exactly when the text is "
                     "an optionally signed decimal numeral `[+-]?digits+(.digits+)?` with at most %d fractional digits, "
                     "and then the value is the exact one; never panics" % (
                         "PreciseDecimal" if precise else "Decimal", self.scale))
        self.lens_quick, self.lens_thorough = lens_quick, lens_thorough
        self.cover_labels = ["accepted", "rejected", "negative with fraction", "explicit plus"]
        self.max_unroll = 80

    def cases(self, tier):
        return [{"len": n} for n in (self.lens_thorough if tier == "thorough" else self.lens_quick)]

    def locate(self, prog):
        return find_function(prog, PDEC if self.precise else DEC, "from_str", param_types=["&str"])

    def inputs(self):
        n = self.case["len"]
        inp, pre = {}, []
        for i in range(n):
            b = z3.Int("b%d" % i)
            inp["b%d" % i] = b
            pre += [b >= 0, b <= 127]
        return inp, pre

    def _bytes(self, inp):
        return [lit(inp["b%d" % i]) for i in range(self.case["len"])]

    def args(self, inp):
        return [StrSymV(self._bytes(inp))]

    def extract(self, v):
        return res_extract(v)

    def native(self, nat, vals):
        hx = "".join("%02x" % int(vals["b%d" % i]) for i in range(self.case["len"]))
        t = nat.call("pdec_from_str" if self.precise else "dec_from_str", hx).split()
        if t[0] == "panic":
            return {"panic": True, "msg": " ".join(t[1:])}
        if t[0] == "err":
            return {"panic": False, "some": False, "val": 0}
        return {"panic": False, "some": True, "val": int(t[1])}

    def post(self, inp, res):
        bs = self._bytes(inp)
        shapes = _numeral_shapes(bs, self.scale)
        ok, v = lit(res["some"]), lit(res["val"])
        is_numeral = z3.Or([c for c, _ in shapes]) if shapes else z3.BoolVal(False)
        posts = [("accepted exactly when the text is an optionally signed decimal numeral", ok == is_numeral)]
        if shapes:
            posts.append(("the value is the exact value of the numeral",
                          z3.Implies(ok, z3.And([z3.Implies(c, v == m) for c, m in shapes]))))
        return posts

    def covers(self, inp, res):
        bs = self._bytes(inp)
        return [("accepted", res["some"]), ("rejected", z3.Not(res["some"])),
                ("negative with fraction", z3.And(res["some"], res["val"] < 0, res["val"] % (10 ** self.scale) != 0)),
                ("explicit plus", z3.And(res["some"], bs[0] == 43) if bs else z3.BoolVal(False))]

    def vectors(self, rng):
        texts = ["", "0", "7", "-", "+", ".", "12", "-5", "+5", "1.5", "-0.5", "+0.25", "1.", ".5", "1.-5", "1.+5", "-1.-5",
                 "1..2", "1.2.3", "a", "1a", "0x1", " 1", "1 ", "-0", "-0.0", "00.10", "1e3", "1_0", "12.34", "-12.34",
                 "9.999", "--1", "+-1", "1.5-", "123456", "-.5", "+.5", "0.000001", "1,5", "\x001", "1.\x7f"]
        out = []
        for t in texts:
            d = {"len": len(t)}
            for i, ch in enumerate(t):
                d["b%d" % i] = ord(ch)
            out.append(d)
        for _ in range(20):
            n = rng.randrange(1, 8)
            d = {"len": n}
            for i in range(n):
                d["b%d" % i] = rng.choice([43, 45, 46, 48, 49, 53, 57, 48 + rng.randrange(10), rng.randrange(128)])
            out.append(d)
        return out


JOBS["C27"] = [ParseDecimal(False, (0, 1, 2, 3, 4, 5), (0, 1, 2, 3, 4, 5, 6, 7)),
               ParseDecimal(True, (0, 1, 2, 3, 4, 5), (0, 1, 2, 3, 4, 5, 6, 7))]


# =====================================================================================================
# C28: integer non-fungible local ids are accepted only in canonical decimal form (string model)
# =====================================================================================================
class ParseIntegerLocalId(Job):
    case_keys = ("len",)
    crate = "radix-common"
    query_timeout_s = 60
    max_unroll = 40

    def __init__(self):
        self.name = "c28m::non_fungible_local_id_from_str_integer_form"
        self.what = ("NonFungibleLocalId::from_str on every ASCII string of length 0..=6 (quick) / 0..=8 (thorough) that "
                     "does not start with '<', '[' or '{' (those forms are outside this job): accepted exactly when the "
                     "text is '#' + a canonical decimal integer ('0', or a non-zero digit followed by digits) + '#', and "
                     "then the id is that integer; everything else is an error; never panics")
        self.cover_labels = ["accepted", "leading zero rejected", "unknown type", "zero accepted"]

    def cases(self, tier):
        return [{"len": n} for n in (range(9) if tier == "thorough" else range(7))]

    def locate(self, prog):
        return find_function(prog, "model/non_fungible_local_id.rs", "from_str", param_types=["&str"])

    def inputs(self):
        n = self.case["len"]
        inp, pre = {}, []
        for i in range(n):
            b = z3.Int("b%d" % i)
            inp["b%d" % i] = b
            pre += [b >= 0, b <= 127]
        if n:
            pre += [inp["b0"] != 60, inp["b0"] != 91, inp["b0"] != 123]
        return inp, pre

    def _bytes(self, inp):
        return [lit(inp["b%d" % i]) for i in range(self.case["len"])]

    def args(self, inp):
        return [StrSymV(self._bytes(inp))]

    def extract(self, v):
        ok = v.discr == 0
        val = z3.IntVal(0)
        if v.variants.get(0) and v.variants[0][0].kind == "enum":
            idv = v.variants[0][0]
            # NonFungibleLocalId::Integer(IntegerNonFungibleLocalId(u64)) is variant 1
            p = idv.variants.get(1)
            if p and p[0].kind == "struct":
                val = p[0].fields[0].term
            ok = z3.And(ok, idv.discr == 1)
        return {"some": ok, "val": z3.If(ok, val, 0)}

    def native(self, nat, vals):
        hx = "".join("%02x" % int(vals["b%d" % i]) for i in range(self.case["len"]))
        t = nat.call("nfid_from_str", hx).split()
        if t[0] == "panic":
            return {"panic": True, "msg": " ".join(t[1:])}
        if t[0] == "ok":
            return {"panic": False, "some": True, "val": int(t[1])}
        return {"panic": False, "some": False, "val": 0}

    def post(self, inp, res):
        bs = self._bytes(inp)
        n = len(bs)
        ok, v = lit(res["some"]), lit(res["val"])
        if n < 3:
            return [("too short to be an integer id: rejected", z3.Not(ok))]
        ds = bs[1:-1]
        dig = [z3.And(d >= 48, d <= 57) for d in ds]
        canon = z3.And(bs[0] == 35, bs[-1] == 35, z3.And(dig),
                       z3.Or(z3.And(len(ds) == 1, ds[0] == 48), ds[0] != 48))
        val = z3.IntVal(0)
        for d in ds:
            val = val * 10 + (d - 48)
        return [("accepted exactly when the text is # canonical-integer #", ok == canon),
                ("the id is exactly that integer", z3.Implies(ok, v == val))]

    def covers(self, inp, res):
        bs = self._bytes(inp)
        ok = lit(res["some"])
        if len(bs) < 3:
            return []
        return [("accepted", z3.And(ok, lit(res["val"]) > 9)), ("leading zero rejected", z3.And(z3.Not(ok), bs[0] == 35, bs[-1] == 35, bs[1] == 48,
                                                                                         z3.And([z3.And(d >= 48, d <= 57) for d in bs[1:-1]]))),
                ("unknown type", z3.And(z3.Not(ok), bs[0] != 35)), ("zero accepted", z3.And(ok, lit(res["val"]) == 0))]

    def vectors(self, rng):
        texts = ["", "#", "##", "#0#", "#1#", "#01#", "#10#", "#00#", "#+1#", "#-1#", "#1 #", "# 1#", "#12345#", "#1a#", "abc", "1",
                 "#1", "1#", "#9#", "#007#", "#1_0#", "#١#"[:3], "##1#", "#1##"]
        out = []
        for t in texts:
            t = t.encode("ascii", "ignore").decode()
            if len(t) > 8 or (t and t[0] in "<[{"):
                continue
            d = {"len": len(t)}
            for i, ch in enumerate(t):
                d["b%d" % i] = ord(ch)
            out.append(d)
        for _ in range(15):
            n = rng.randrange(3, 8)
            d = {"len": n, "b0": 35}
            for i in range(1, n - 1):
                d["b%d" % i] = rng.choice([48, 49, 53, 57, 43, 45, 32, 97])
            d["b%d" % (n - 1)] = rng.choice([35, 35, 48])
            out.append(d)
        return out


JOBS["C28"] = [ParseIntegerLocalId()]
