"""Regenerates /verif/MANIFEST.json from lib/specs.py (claimed properties) + the not-applicable table."""
import json
import os
import sys

sys.path.insert(0, os.path.dirname(os.path.abspath(__file__)))
import specs  # noqa: E402

VERIF = os.path.dirname(os.path.dirname(os.path.abspath(__file__)))

NA = {
    "C01": "determinism of whole executions across processes/threads/caches: no finite symbolic encoding of executor + VM + hash-map seeding",
    "C02": "quantifies over fault-injection points in whole transaction executions (kernel+system+VM+database)",
    "C04": "whole-database invariant after arbitrary committed histories (DB scans, kernel+system)",
    "C05": "whole-database invariant after arbitrary committed histories (DB scans, kernel+system)",
    "C06": "fee reserve arithmetic would be an Engine-M target (Decimal kernels it rests on are decided under C24/C25), but the reserve's state machine was not encoded in the time available; declined rather than approximated",
    "C08": "rule evaluation needs the auth-zone stack through KernelSubstateApi + SBOR; the stubbed-leaf harness took 522 s for one requirement form in the probe and was not calibrated",
    "C10": "lock accounting lives in IndexMap<Decimal,usize> behind SBOR field I/O; the MockApi vault probe did not finish in 25 min under CBMC",
    "C11": "no-panic for any payload in any native blueprint = whole engine; panic-freedom is asserted only inside the kernels claimed elsewhere",
    "C15": "RocksDB behind FFI / process crash points: not encodable",
    "C16": "SpreadPrefixKeyMapper harnesses exist (kani/src/c16.rs, hash stubbed) but the sorted-key harnesses needed > 15 min and 7 GB each under CBMC on this tree; not claimed until they are re-bounded",
    "C17": "the property is the Blake2b composition over a heap-allocated 3-tier Merkle tree; bit-blasting the hash is out of reach and stubbing it makes the claim vacuous",
    "C18": "same as C17 (state-tree hashing over heap structures)",
    "C19": "RocksDB via FFI / process crash",
    "C21": "decoder/traverser over arbitrary bytes: 6 symbolic bytes at depth 1 did not finish under CBMC; read_size totality is folded into C20",
    "C22": "schema graphs over heap structures built by derive macros",
    "C23": "payload validators over schema graphs on the heap",
    "C26": "roots/powers: bnum sqrt/cbrt/nth_root and the recursive checked_powi were not encoded in the time available (library models for floor roots exist, the nonlinear obligations were not calibrated)",
    "C27": "Decimal::from_str / Display over symbolic text: arbitrary strings of 4 bytes exhaust 26 GB under CBMC, and the one-byte window harness (kani/src/c27.rs) needs unwind 21 for bnum's radix_base loop and exceeded 14 GB / 10 min; Engine M has no string model. The sign-in-fraction defect seen natively is described in DESIGN 0.4 but is not decided by a registered check",
    "C28": "string parsing (CBMC out of memory at 5 symbolic bytes) and Bech32m polymod over ~60 symbolic characters",
    "C30": "lexer->parser->generator pipeline over strings and boxed ASTs",
    "C31": "manifest compiler/decompiler over strings, boxed ASTs and maps",
    "C32": "substance is hash computation (Blake2b) over prepared payloads",
    "C33": "substance is signature verification (secp256k1, ed25519, BLS via C/asm)",
    "C34": "header/aggregation validators need prepared transaction structures (hash-bearing); not calibrated in the time available",
    "C36": "static manifest interpreter over instruction vectors, boxed ASTs and maps",
    "C37": "constraint validators are comparison-only Decimal code over IndexSet-backed id sets; the fungible side would fit Engine M but was not built in the time available",
    "C38": "movement visitor over boxed ASTs and maps",
    "C40": "state-machine transitions are private generic impls over SystemApi; hooks + MockApi were designed (DESIGN 2.1) but not built in the time available",
    "C41": "pool helper arithmetic is an Engine-M target in radix-engine (MIR dump of radix-engine + replay binary not built in the time available)",
    "C42": "validator helper arithmetic is an Engine-M target in radix-engine (not built in the time available)",
    "C43": "enforced by SystemService over kernel call frames and substate locks across transactions",
    "C44": "consensus-manager timestamp checks go through SystemApi field I/O (MockApi not built in the time available)",
    "C45": "wasmparser / wasm-instrument over whole modules",
    "C46": "wasm-instrument / wasmi over whole modules",
    "C47": "read_memory/write_memory are generic over wasmi's store / Memory types; a slice model with symbolic length for Engine M was not built in the time available",
    "C48": "substance is hash / signature computation",
    "C49": "LimitsModule accounting needs ModuleApi plumbing; not built in the time available",
    "C50": "enforced by SystemService over kernel call frames across transactions",
    "C51": "enforced by SystemService over kernel call frames across transactions",
}

LEVEL_TEXT = {
    "kani": "Bounded symbolic model checking (Kani 0.68 / CBMC 6.11, SAT) of the real functions compiled from /repo: "
            "every value of the symbolic inputs inside the stated bound is covered by one solver verdict per harness; "
            "unwinding assertions on; every harness carries reachability witnesses; counterexamples are replayed "
            "natively before being reported.",
    "mir": "Symbolic execution of the rustc MIR of the real functions (regenerated from /repo on every run) into "
           "integer SMT queries decided by z3: unsat for every path x post-condition = holds for every value of the "
           "argument types; counterexamples are replayed against the natively compiled function; a concrete-mode "
           "self-test validates the translator against the native function on every run.",
}


def main():
    props = [json.loads(l) for l in open(os.path.join(VERIF, "properties.jsonl"))]
    ids = [p["id"] for p in props]
    checks = []
    for pid in ids:
        if pid not in specs.PROPS:
            continue
        sp = specs.PROPS[pid]
        engines = []
        if sp.get("kani"):
            engines.append("kani")
        if sp.get("mir"):
            engines.append("mir")
        text = " ".join(LEVEL_TEXT[e] for e in engines)
        text += " Scope of this claim: " + "; ".join(sp["functions"]) + ". Bounds: " + sp["bounds"] + \
                ". Outside the claim: " + sp["outside"] + "."
        checks.append({
            "property_id": pid,
            "quick_cmd": "./check %s --tier quick" % pid,
            "thorough_cmd": "./check %s --tier thorough" % pid,
            "evidence_file": "/verif/evidence/%s.json" % pid,
            "replay_cmd_template": "./check %s --replay {path}" % pid,
            "engine": "+".join({"kani": "engine-K (Kani/CBMC)", "mir": "engine-M (MIR->SMT, z3)"}[e] for e in engines),
            "level_claimed": {"category": "other", "text": text, "design_ref": "DESIGN.md section 5 (%s)" % pid},
            "level_note": "Trusted base: " + "; ".join(sp.get("trusted_base", [])) + ". Assumptions: " +
                          ("; ".join(sp.get("assumptions", [])) or "none") + ".",
            "technique": "bounded solver-based checking of the real code (" + ", ".join(engines) + ")",
        })
    na = [{"property_id": pid, "reason": NA[pid]} for pid in ids if pid not in specs.PROPS]
    missing = [pid for pid in ids if pid not in specs.PROPS and pid not in NA]
    assert not missing, missing
    man = {
        "version": 1,
        "setup_cmd": "./setup.sh",
        "hooks": {
            "guard": "radixdlt_radixdlt_scrypto_verif",
            "enable": "cargo feature radixdlt_radixdlt_scrypto_verif on radix-engine (enabled by the harness crate "
                      "/verif/kani/Cargo.toml); forwarding shims only",
            "baseline_off_cmd": "cd /repo && cargo nextest run --workspace --no-fail-fast --tool-config-file "
                                "pb:/w/lib/nextest.toml --profile pb --test-threads 8 --offline",
            "source_commits": ["95d4ee54fd", "729da7e7a6", "ea684ee7c2", "e7036e008b", "fee16cad28", "4da43f6286", "3e6517f3b9", "e08dbe61d0", "50d3ffd37e", "f9220a7d82", "a992cced73", "a921dc90a4"],
            "add_only": True,
        },
        "engines": [
            {"name": "engine-K", "path": "/verif/kani + /verif/lib/kani_engine.py",
             "serves_properties": [c["property_id"] for c in checks if "engine-K" in c["engine"]],
             "kind_free_text": "Kani 0.68 proof harnesses (CBMC 6.11, cadical) over the real crates as path "
                               "dependencies; native concrete playback of counterexamples"},
            {"name": "engine-M", "path": "/verif/lib/mir_engine.py + /verif/lib/mirsmt + /verif/lib/mir_jobs.py + "
                                         "/verif/replay-common",
             "serves_properties": [c["property_id"] for c in checks if "engine-M" in c["engine"]],
             "kind_free_text": "symbolic executor over rustc's textual MIR (--emit=mir of /repo's crates radix-common "
                               "and radix-engine, nightly) "
                               "producing integer SMT queries for z3; native replay binary for counterexamples and "
                               "translator self-test"},
        ],
        "checks": checks,
        "not_applicable": na,
        "notes": "exit codes of ./check: 0 held within bounds (KNOWN-FINDING lines possible), 1 violation replayed "
                 "natively (VIOLATION line), 2 check broken or not decided (timeout, OOM, vacuity, unknown, "
                 "non-reproducing counterexample). Known findings: /verif/known_findings.txt. See DESIGN.md.",
    }
    with open(os.path.join(VERIF, "MANIFEST.json"), "w") as f:
        json.dump(man, f, indent=1)
    print("claimed:", [c["property_id"] for c in checks])
    print("n/a:", len(na))


if __name__ == "__main__":
    main()
