"""Engine K: run Kani proof harnesses of /verif/kani against /repo's current tree, classify, replay."""
import json
import os
import re
import resource
import shutil
import subprocess
import tempfile
import time
from concurrent.futures import ThreadPoolExecutor

from common import (VERIF, REPO, REPLAY_DIR, Obligation, HELD, VIOLATED, INCONCLUSIVE, VACUOUS, BROKEN,
                    sha256_file)

KANI_DIR = os.path.join(VERIF, "kani")
PLAYBACK_TARGET = os.path.join(VERIF, "target-playback")
MEM_LIMIT_BYTES = int(os.environ.get("VERIF_KANI_MEM_GB", "24")) << 30


def _env():
    e = dict(os.environ)
    e["CARGO_NET_OFFLINE"] = "true"
    e.pop("RUSTUP_TOOLCHAIN", None)
    e.pop("CARGO_TARGET_DIR", None)
    return e


def sync_lock(crate_dir=KANI_DIR):
    """Harness crate resolves against /repo's lock file (offline: nothing else is resolvable)."""
    src = os.path.join(REPO, "Cargo.lock")
    dst = os.path.join(crate_dir, "Cargo.lock")
    stamp = os.path.join(crate_dir, ".lockhash")
    h = sha256_file(src)
    old = open(stamp).read().strip() if os.path.exists(stamp) else ""
    if old != h or not os.path.exists(dst):
        shutil.copyfile(src, dst)
        with open(stamp, "w") as f:
            f.write(h)


def _limits():
    resource.setrlimit(resource.RLIMIT_AS, (MEM_LIMIT_BYTES, MEM_LIMIT_BYTES))
    os.setsid()


def _run(cmd, cwd, timeout, limit_mem=True, env=None):
    t0 = time.time()
    p = subprocess.Popen(cmd, cwd=cwd, stdout=subprocess.PIPE, stderr=subprocess.STDOUT, text=True,
                         env=env or _env(), preexec_fn=_limits if limit_mem else os.setsid)
    try:
        out, _ = p.communicate(timeout=timeout)
        return p.returncode, out, time.time() - t0, False
    except subprocess.TimeoutExpired:
        try:
            os.killpg(p.pid, 9)
        except Exception:
            pass
        out, _ = p.communicate()
        return -9, out or "", time.time() - t0, True


def prebuild(first_harness, extra_args=(), timeout=3600):
    """Compile the dependency graph (the real crates) once, before harness timeouts start counting."""
    sync_lock()
    cmd = ["cargo", "kani", "--only-codegen", "--harness", first_harness, "--exact"] + list(extra_args)
    rc, out, dt, to = _run(cmd, KANI_DIR, timeout, limit_mem=False)
    return rc == 0 and not to, out, dt


FAILED_RE = re.compile(r'Failed Checks: (.*)\n\s*File: "([^"]*)", line (\d+), in (\S+)')


def parse_kani(out):
    r = {"result": None, "failed": None, "total": None, "covers": (0, 0), "time": 0.0, "failed_checks": []}
    m = re.search(r"VERIFICATION:- (SUCCESSFUL|FAILED)", out)
    if m:
        r["result"] = m.group(1)
    m = re.search(r"\*\* (\d+) of (\d+) failed", out)
    if m:
        r["failed"], r["total"] = int(m.group(1)), int(m.group(2))
    m = re.search(r"\*\* (\d+) of (\d+) cover properties satisfied", out)
    if m:
        r["covers"] = (int(m.group(1)), int(m.group(2)))
    m = re.search(r"Verification Time: ([0-9.]+)s", out)
    if m:
        r["time"] = float(m.group(1))
    for m in FAILED_RE.finditer(out):
        r["failed_checks"].append({"desc": m.group(1).strip(), "file": m.group(2), "line": int(m.group(3)),
                                   "fn": m.group(4)})
    # failed checks without a File line (e.g. unwinding assertions in some versions)
    for m in re.finditer(r"Failed Checks: (.*)", out):
        d = m.group(1).strip()
        if not any(fc["desc"] == d for fc in r["failed_checks"]):
            r["failed_checks"].append({"desc": d, "file": "", "line": 0, "fn": ""})
    return r


def _harness_args(h):
    args = []
    if h.get("stubbing"):
        args += ["-Z", "stubbing"]
    args += h.get("args", [])
    return args


def run_harness(h, tier):
    """h: dict(name=..., what=..., timeout=..., stubbing=bool, args=[...])."""
    ob = Obligation("kani", h["name"], h.get("what", ""))
    timeout = h.get("timeout", 900) * (3 if tier == "thorough" else 1)
    cmd = ["cargo", "kani", "--harness", h["name"], "--exact", "--output-format", "terse"] + _harness_args(h)
    rc, out, dt, to = _run(cmd, KANI_DIR, timeout)
    ob.wall_s = dt
    r = parse_kani(out)
    ob.solver_s = r["time"]
    ob.checks = r["total"] or 0
    ob.covers = r["covers"]
    ob.extra["cmd"] = " ".join(cmd)
    if to:
        ob.status = INCONCLUSIVE
        ob.detail = "timeout after %ds" % timeout
        return ob
    if r["result"] == "SUCCESSFUL" and r["failed"] == 0:
        if h.get("stubbing") and h.get("expect_stub") and h["expect_stub"] not in out:
            ob.status = BROKEN
            ob.detail = "expected stub %s not applied" % h["expect_stub"]
        elif ob.covers[0] != ob.covers[1]:
            ob.status = VACUOUS
            ob.detail = "only %d of %d reachability witnesses satisfied" % ob.covers
        else:
            ob.status = HELD
        return ob
    if r["result"] == "FAILED" and r["failed_checks"]:
        descs = [fc["desc"] for fc in r["failed_checks"]]
        if all("unwinding assertion" in d for d in descs):
            ob.status = BROKEN
            ob.detail = "unwind bound too small: " + "; ".join(descs[:3])
            return ob
        real = [fc for fc in r["failed_checks"] if "unwinding assertion" not in fc["desc"]]
        ob.extra["failed_checks"] = real[:10]
        fc = real[0]
        # key: harness + failing assertion site (not the line number, which moves with edits)
        ob.key = "%s@%s:%s" % (h["name"], fc["fn"] or "?", re.sub(r"\s+", "_", fc["desc"])[:80])
        ob.status = "counterexample"   # must be replayed before it becomes VIOLATED
        ob.detail = "; ".join('%s (%s:%d in %s)' % (f["desc"], f["file"], f["line"], f["fn"]) for f in real[:5])
        return ob
    # anything else: OOM, CBMC error, build error
    ob.status = INCONCLUSIVE if ("Status: ERROR" in out or "out of memory" in out.lower() or rc < 0) else BROKEN
    ob.detail = "kani exit %s; tail: %s" % (rc, out[-1500:])
    return ob


PLAYBACK_RE = re.compile(r"```\n(.*?)```", re.S)


def extract_playback(h):
    """Ask Kani for the concrete assignment of the counterexample as a unit test."""
    cmd = ["cargo", "kani", "--harness", h["name"], "--exact", "--output-format", "terse",
           "-Z", "concrete-playback", "--concrete-playback=print"] + _harness_args(h)
    rc, out, dt, to = _run(cmd, KANI_DIR, h.get("timeout", 900) * 2)
    tests = PLAYBACK_RE.findall(out)
    return tests, out


def native_playback(module_file, test_code, test_name, release=False, timeout=3600):
    """Run the generated unit test natively (kani::any reads the recorded bytes) against the real crates."""
    scratch = tempfile.mkdtemp(prefix="verif-playback-", dir=os.environ.get("VERIF_SCRATCH", "/tmp"))
    try:
        dst = os.path.join(scratch, "kani")
        shutil.copytree(KANI_DIR, dst, ignore=shutil.ignore_patterns("target*"))
        with open(os.path.join(dst, "src", module_file), "a") as f:
            f.write("\n" + test_code + "\n")
        cfg = os.path.join(dst, ".cargo", "config.toml")
        s = open(cfg).read().replace(os.path.join(VERIF, "target-kani"), PLAYBACK_TARGET)
        open(cfg, "w").write(s)
        cmd = ["cargo", "kani", "playback", "-Z", "concrete-playback"]
        if release:
            cmd += ["--release"]
        cmd += ["--", test_name]
        rc, out, dt, to = _run(cmd, dst, timeout, limit_mem=False)
        ran = re.search(r"test result: (ok|FAILED)\. (\d+) passed; (\d+) failed", out)
        if to or not ran:
            return None, out
        passed, failed = int(ran.group(2)), int(ran.group(3))
        if passed + failed == 0:
            return None, out
        return failed > 0, out   # True = the violation reproduces natively
    finally:
        shutil.rmtree(scratch, ignore_errors=True)


def replay_counterexample(pid, h, ob):
    """Turn a Kani counterexample into a native replay. Sets ob.status to VIOLATED or BROKEN."""
    os.makedirs(os.path.join(REPLAY_DIR, pid), exist_ok=True)
    tests, out = extract_playback(h)
    path = os.path.join(REPLAY_DIR, pid, h["name"].replace("::", "__") + ".json")
    module_file = h["name"].split("::")[0] + ".rs"
    if not tests:
        # No concrete test could be generated (e.g. failing check is a memory-safety / arithmetic check with
        # no symbolic input). Report as broken rather than unreplayed violation.
        ob.status = BROKEN
        ob.detail = "counterexample without concrete playback: " + ob.detail
        return ob
    results = []
    reproduced = False
    for t in tests:
        m = re.search(r"fn (kani_concrete_playback_\w+)\(", t)
        if not m:
            continue
        name = m.group(1)
        vals = re.findall(r"//\s*(.*)\n\s*vec!\[([^\]]*)\]", t)
        rep, pout = native_playback(module_file, t, name)
        results.append({"test": name, "reproduced_dev": rep, "values": [v[0] for v in vals],
                        "panic": (re.findall(r"panicked at [^\n]*\n[^\n]*", pout) or [""])[0][:400]})
        if rep:
            reproduced = True
            ob.witness = {"concrete_values": [v[0] for v in vals]}
            break
    rec = {"property": pid, "engine": "kani", "harness": h["name"], "module_file": module_file,
           "failed_checks": ob.extra.get("failed_checks"), "key": ob.key,
           "tests": tests, "native_results": results,
           "how_to_replay": "cd /verif && ./check %s --replay %s" % (pid, path)}
    with open(path, "w") as f:
        json.dump(rec, f, indent=1)
    ob.replay = path
    if reproduced:
        ob.status = VIOLATED
    else:
        ob.status = BROKEN
        ob.detail = "counterexample did not reproduce natively (encoding/stub error?): " + ob.detail
    return ob


def replay_file(path):
    rec = json.load(open(path))
    ok = False
    for t in rec["tests"]:
        m = re.search(r"fn (kani_concrete_playback_\w+)\(", t)
        rep, out = native_playback(rec["module_file"], t, m.group(1))
        print(out[-3000:])
        if rep:
            ok = True
    return ok


def run_property(pid, harnesses, tier, seed, jobs=None):
    hs = [h for h in harnesses if tier in h.get("tiers", ("quick", "thorough"))]
    if not hs:
        return []
    if seed:
        import random
        random.Random(seed).shuffle(hs)
    okb, out, dt = prebuild(hs[0]["name"], _harness_args(hs[0]))
    if not okb:
        ob = Obligation("kani", "build", "compile /repo crates + harness crate under Kani")
        ob.status = BROKEN
        ob.detail = out[-3000:]
        ob.wall_s = dt
        return [ob]
    jobs = jobs or int(os.environ.get("VERIF_JOBS", "8"))
    with ThreadPoolExecutor(max_workers=max(1, min(jobs, len(hs)))) as ex:
        obs = list(ex.map(lambda h: run_harness(h, tier), hs))
    reproduced = False
    for h, ob in zip(hs, obs):
        if ob.status == "counterexample":
            if reproduced and not os.environ.get("VERIF_REPLAY_ALL"):
                # one natively reproduced counterexample is enough to report the property as violated;
                # further counterexamples are listed but not replayed (saves ~3 min each)
                ob.status = BROKEN
                ob.detail = "counterexample (not replayed: another obligation already reproduced): " + ob.detail
                continue
            replay_counterexample(pid, h, ob)
            reproduced = reproduced or ob.status == VIOLATED
    return obs
