"""Engine-M jobs for C09 (worktop part): WorktopBlueprint::{put, take, take_all, assert_contains, assert_contains_amount,
drain} one step from an arbitrary worktop (<= 2 buckets). The field store and the bucket / resource-manager calls are
environment stubs that keep a symbolic amount per bucket; natively the same step runs over the MockApi."""
import re

import z3

from mir_engine import Job, find_function, lit
from mirsmt.values import IntV, BoolV, StructV, EnumV, RefV, UnitV, UndefV
from mirsmt import models as _models
from mir_jobs import JOBS, dec_v, const_ref
from mir_jobs_engine import field_store_overrides

OPS = ["put", "take", "take_all", "assert_contains", "assert_contains_amount", "drain"]
NODES = [80, 81, 85, 90, 91]
MAXA = 10 ** 30


def res_v(t):
    return StructV("ResourceAddress", [IntV(t, "u8")])


def own_v(n):
    return StructV("Own", [StructV("NodeId", [IntV(n, "u8")])])


def bucket_v(n):
    return StructV("Bucket", [own_v(n)])


class WorktopStep(Job):
    crate = "radix-engine"
    query_timeout_s = 60
    max_unroll = 20

    def __init__(self, op):
        self.op = op
        self.name = "c09m::worktop_" + op
        common = (" -- one step from an arbitrary worktop holding <= 2 buckets of distinct resources with any amounts; every "
                  "resource's total (worktop + returned + incoming) is conserved and no bucket is dropped unless empty")
        self.what = {
            "put": "WorktopBlueprint::put: the incoming amount is added to that resource's worktop balance (merged into the "
                   "existing bucket or stored as a new entry; an empty bucket is dropped and changes nothing)",
            "take": "WorktopBlueprint::take: succeeds exactly when the worktop holds at least the amount; the returned bucket "
                    "carries exactly the amount asked for (never more than was there) and the balance drops by it",
            "take_all": "WorktopBlueprint::take_all: returns exactly the resource's whole balance and leaves none",
            "assert_contains": "WorktopBlueprint::assert_contains: passes exactly when the balance is non-zero; changes nothing",
            "assert_contains_amount": "WorktopBlueprint::assert_contains_amount: passes exactly when the balance is at least "
                                      "the asserted amount; changes nothing",
            "drain": "WorktopBlueprint::drain: returns every bucket and leaves the worktop empty",
        }[op] + common
        self.cover_labels = {"put": ["merged into an existing bucket", "stored as a new entry", "empty bucket dropped"],
                             "take": ["whole bucket moved out", "part split off", "insufficient"],
                             "take_all": ["bucket returned", "nothing there: empty bucket"],
                             "assert_contains": ["passes", "fails"], "assert_contains_amount": ["passes", "fails"],
                             "drain": ["two buckets returned"]}[op]

    def locate(self, prog):
        return find_function(prog, "resource/worktop.rs", self.op, nparams=2)

    def inputs(self):
        names = ["r", "x", "p0", "e0", "a0", "p1", "e1", "a1"]
        d = {k: z3.Int(k) for k in names}
        pre = [d["r"] >= 0, d["r"] <= 2, d["x"] >= 0, d["x"] <= MAXA]
        for i in (0, 1):
            pre += [d["p%d" % i] >= 0, d["p%d" % i] <= 1, d["e%d" % i] >= 0, d["e%d" % i] <= 2, d["a%d" % i] >= 0,
                    d["a%d" % i] <= MAXA]
        pre.append(z3.Or(d["p0"] == 0, d["p1"] == 0, d["e0"] != d["e1"]))
        return d, pre

    @property
    def env_overrides(self):
        R = re.compile

        def ok(ret_ty, v):
            return EnumV(ret_ty, 0, {0: [v]})

        def node_of(interp, path, b):
            b = _models.deref(interp, path, b)
            own = b.fields[0] if b.ty == "Bucket" else b
            return z3.simplify(own.fields[0].fields[0].term).as_long()

        def amt(path, n):
            return path.frames["job"]["amt%d" % n]

        def set_amt(path, n, term):
            path.frames["job"]["amt%d" % n] = IntV(term, "i256")

        def m_as_typed(interp, path, args, ret_ty, callee):
            d = self._d
            inp = {"put": StructV("WorktopPutInput", [bucket_v(85)]),
                   "take": StructV("WorktopTakeInput", [dec_v(d["x"]), res_v(d["r"])]),
                   "take_all": StructV("WorktopTakeAllInput", [res_v(d["r"])]),
                   "assert_contains": StructV("WorktopAssertContainsInput", [res_v(d["r"])]),
                   "assert_contains_amount": StructV("WorktopAssertContainsAmountInput", [res_v(d["r"]), dec_v(d["x"])]),
                   "drain": StructV("WorktopDrainInput", [])}[self.op]
            return ok(ret_ty, inp)

        def m_from_typed(interp, path, args, ret_ty, callee):
            return StructV("IndexedScryptoValue", [_models.deref(interp, path, args[0])])

        def m_res(interp, path, args, ret_ty, callee):
            n = node_of(interp, path, args[0])
            d = self._d
            return ok(ret_ty, res_v({80: d["e0"], 81: d["e1"], 85: d["r"]}[n]))

        def m_amount(interp, path, args, ret_ty, callee):
            return ok(ret_ty, dec_v(amt(path, node_of(interp, path, args[0])).term))

        def m_put(interp, path, args, ret_ty, callee):
            a, b = node_of(interp, path, args[0]), node_of(interp, path, args[1])
            set_amt(path, a, amt(path, a).term + amt(path, b).term)
            set_amt(path, b, z3.IntVal(0))
            job = path.frames["job"]
            job["consumed%d" % b] = BoolV(True)
            return ok(ret_ty, UnitV())

        def m_take(interp, path, args, ret_ty, callee):
            a = node_of(interp, path, args[0])
            q = args[1].fields[0].fields[0].term if args[1].kind == "struct" else args[1].term
            q = _models_unwrap(args[1])
            enough = q <= amt(path, a).term
            outs = []
            for p, tag in interp.fork(path, [(enough, "ok"), (z3.Not(enough), "err")]):
                if tag == "err":
                    outs.append(_models.Outcome(p, "ret", EnumV(ret_ty, 1, {1: [EnumV("RuntimeError", 0, {0: [UndefV()]})]})))
                else:
                    set_amt(p, a, amt(p, a).term - q)
                    set_amt(p, 90, q)
                    outs.append(_models.Outcome(p, "ret", ok(ret_ty, bucket_v(90))))
            return outs

        def m_new_empty(interp, path, args, ret_ty, callee):
            set_amt(path, 91, z3.IntVal(0))
            return ok(ret_ty, bucket_v(91))

        def m_drop_empty(interp, path, args, ret_ty, callee):
            n = node_of(interp, path, args[0])
            job = path.frames["job"]
            empty = amt(path, n).term == 0
            outs = []
            for p, tag in interp.fork(path, [(empty, "ok"), (z3.Not(empty), "err")]):
                if tag == "ok":
                    p.frames["job"]["consumed%d" % n] = BoolV(True)
                    outs.append(_models.Outcome(p, "ret", ok(ret_ty, UnitV())))
                else:
                    outs.append(_models.Outcome(p, "ret", EnumV(ret_ty, 1, {1: [EnumV("RuntimeError", 0, {0: [UndefV()]})]})))
            return outs

        def m_eq(interp, path, args, ret_ty, callee):
            return BoolV(_models.val_eq(_models.deref(interp, path, args[0]), _models.deref(interp, path, args[1])))
        mine = [(R(r"IndexedScryptoValue::as_typed::<"), m_as_typed), (R(r"IndexedScryptoValue::from_typed::<"), m_from_typed),
                (R(r"^<Bucket as NativeBucket>::resource_address::<"), m_res),
                (R(r"^<Bucket as NativeBucket>::amount::<"), m_amount),
                (R(r"^<Bucket as NativeBucket>::put::<"), m_put), (R(r"^<Bucket as NativeBucket>::take::<"), m_take),
                (R(r"^<Bucket as NativeBucket>::drop_empty::<"), m_drop_empty),
                (R(r"ResourceManager::new_empty_bucket::<"), m_new_empty),
                (R(r"^<ResourceAddress as PartialEq>::eq$"), m_eq),
                (R(r"^<(Own|ResourceAddress|Bucket) as Clone>::clone$"), _models.m_clone)]
        return mine + field_store_overrides(self, {"WorktopSubstate": "worktop"})

    def setup_path(self, path, inp):
        d = self._d = {k: lit(v) for k, v in inp.items()}
        slots = [StructV("Slot", [res_v(d["e%d" % i]), own_v(80 + i), BoolV(d["p%d" % i] == 1)]) for i in (0, 1)]
        # a third slot is free: `put` may add an entry
        slots.append(StructV("Slot", [UndefV(), UndefV(), BoolV(False)]))
        job = {"api": StructV("Api", []), "worktop": StructV("WorktopSubstate", [StructV("SymMap<ResourceAddress, Own>", slots)]),
               "amt80": IntV(d["a0"], "i256"), "amt81": IntV(d["a1"], "i256"), "amt85": IntV(d["x"], "i256"),
               "amt90": IntV(0, "i256"), "amt91": IntV(0, "i256")}
        for n in NODES:
            job["consumed%d" % n] = BoolV(False)
        path.frames["job"] = job

    def args(self, inp):
        return [const_ref("&IndexedScryptoValue", StructV("IndexedScryptoValue", [UnitV()])), RefV("&mut Y", "job", "api", ())]

    # ---- observables: per-resource balance of the worktop after the step, amount returned, buckets lost
    def _node_res(self, d, n):
        return {80: d["e0"], 81: d["e1"], 85: d["r"], 90: d["r"], 91: d["r"]}[n]

    def extract_outcome(self, o):
        d = self._d
        job = o.path.frames["job"]
        ok = o.value.discr == 0
        m = job["worktop"].fields[0]
        bal = {r: z3.IntVal(0) for r in (0, 1, 2)}
        held = {n: z3.BoolVal(False) for n in NODES}
        for s_ in m.fields:
            pres = s_.fields[2].term
            if z3.is_false(pres):
                continue
            node = z3.simplify(s_.fields[1].fields[0].fields[0].term).as_long()
            rterm = s_.fields[0].fields[0].term
            held[node] = z3.Or(held[node], pres)
            for r in (0, 1, 2):
                bal[r] = bal[r] + z3.If(z3.And(pres, rterm == r), job["amt%d" % node].term, 0)
        ret_amt, ret_nodes = z3.IntVal(0), []
        if o.value.variants.get(0) and self.op in ("take", "take_all", "drain"):
            v = o.value.variants[0][0].fields[0]
            buckets = v.fields if self.op == "drain" else [v]
            for b in buckets:
                own = b.fields[0] if b.ty == "Bucket" else b
                node = z3.simplify(own.fields[0].fields[0].term).as_long()
                ret_nodes.append(node)
                ret_amt = ret_amt + job["amt%d" % node].term
        # a bucket that is neither on the worktop, nor returned, nor consumed (merged / dropped empty) is lost
        lost = z3.IntVal(0)
        present_before = {80: d["p0"] == 1, 81: d["p1"] == 1, 85: z3.BoolVal(self.op == "put"), 90: z3.BoolVal(False),
                          91: z3.BoolVal(False)}
        for n in (80, 81, 85):
            gone = z3.And(present_before[n], z3.Not(held[n]), z3.BoolVal(n not in ret_nodes), z3.Not(job["consumed%d" % n].term))
            lost = lost + z3.If(gone, 1, 0)
        res = {"ok": ok, "ret": z3.If(ok, ret_amt, 0), "lost": z3.If(ok, lost, 0)}
        for r in (0, 1, 2):
            res["bal%d" % r] = bal[r]
        return res

    def native(self, nat, vals):
        t = nat.call("worktop_run", self.op, vals["r"], vals["x"], vals["p0"], vals["e0"], vals["a0"], vals["p1"], vals["e1"],
                     vals["a1"]).split()
        if t[0] == "panic":
            return {"panic": True, "msg": " ".join(t[1:])}
        kv = dict(x.split("=", 1) for x in t[1:])
        lst = lambda s_: [] if s_ == "-" else s_.split(",")
        amt = {80: int(vals["a0"]), 81: int(vals["a1"]), 85: int(vals["x"]), 90: 0, 91: 0}
        consumed = set()
        for e in lst(kv["put"]):
            a, b = map(int, e.split(":"))
            amt[a] += amt[b]
            amt[b] = 0
            consumed.add(b)
        for e in lst(kv["take"]):
            a, q = map(int, e.split(":"))
            amt[a] -= q
            amt[90] = q
        for e in lst(kv["drop"]):
            consumed.add(int(e))
        bal = {0: 0, 1: 0, 2: 0}
        held = set()
        for e in lst(kv["map"]):
            r, n = map(int, e.split(":"))
            bal[r] += amt[n]
            held.add(n)
        ok = t[0] == "ok"
        rets = [int(x) for x in lst(kv["ret"])]
        before = [n for n, p in ((80, vals["p0"]), (81, vals["p1"])) if int(p) == 1] + ([85] if self.op == "put" else [])
        lost = sum(1 for n in before if n not in held and n not in rets and n not in consumed)
        return {"panic": False, "ok": ok, "ret": sum(amt[n] for n in rets) if ok else 0, "lost": lost if ok else 0,
                "bal0": bal[0], "bal1": bal[1], "bal2": bal[2]}

    def post(self, inp, res):
        d = {k: lit(v) for k, v in inp.items()}
        before = {r: z3.If(z3.And(d["p0"] == 1, d["e0"] == r), d["a0"], 0) + z3.If(z3.And(d["p1"] == 1, d["e1"] == r), d["a1"], 0)
                  for r in (0, 1, 2)}
        b_r = z3.If(d["r"] == 0, before[0], z3.If(d["r"] == 1, before[1], before[2]))
        ok, ret = lit(res["ok"]), lit(res["ret"])
        after = {r: lit(res["bal%d" % r]) for r in (0, 1, 2)}
        unchanged = z3.And([after[r] == before[r] for r in (0, 1, 2)])
        others = z3.And([z3.Or(d["r"] == r, after[r] == before[r]) for r in (0, 1, 2)])
        a_r = z3.If(d["r"] == 0, after[0], z3.If(d["r"] == 1, after[1], after[2]))
        nolost = ("no bucket is lost (each is on the worktop, returned, merged or dropped empty)", lit(res["lost"]) == 0)
        if self.op == "put":
            return [("put never fails", ok), ("the resource's balance grows by exactly the incoming amount, others unchanged",
                                             z3.And(a_r == b_r + d["x"], others)), nolost]
        if self.op == "take":
            return [("succeeds exactly when the worktop holds at least the amount", ok == (b_r >= d["x"])),
                    ("the returned bucket carries exactly the amount and the balance drops by it",
                     z3.Implies(ok, z3.And(ret == d["x"], a_r == b_r - d["x"], others))),
                    ("a failed take changes nothing", z3.Implies(z3.Not(ok), unchanged)), nolost]
        if self.op == "take_all":
            return [("take_all never fails", ok), ("returns exactly the whole balance and leaves none",
                                                  z3.And(ret == b_r, a_r == 0, others)), nolost]
        if self.op == "assert_contains":
            return [("passes exactly when the balance is non-zero", ok == (b_r > 0)), ("changes nothing", unchanged), nolost]
        if self.op == "assert_contains_amount":
            return [("passes exactly when the balance is at least the asserted amount", ok == (b_r >= d["x"])),
                    ("changes nothing", unchanged), nolost]
        total = before[0] + before[1] + before[2]
        return [("drain never fails", ok), ("returns everything and leaves the worktop empty",
                                           z3.And(ret == total, after[0] == 0, after[1] == 0, after[2] == 0)), nolost]

    def covers(self, inp, res):
        d = {k: lit(v) for k, v in inp.items()}
        ok = lit(res["ok"])
        has = z3.Or(z3.And(d["p0"] == 1, d["e0"] == d["r"]), z3.And(d["p1"] == 1, d["e1"] == d["r"]))
        bal = z3.If(z3.And(d["p0"] == 1, d["e0"] == d["r"]), d["a0"], z3.If(z3.And(d["p1"] == 1, d["e1"] == d["r"]), d["a1"], 0))
        return {"put": [("merged into an existing bucket", z3.And(ok, has, d["x"] > 0)),
                        ("stored as a new entry", z3.And(ok, z3.Not(has), d["x"] > 0)), ("empty bucket dropped", z3.And(ok, d["x"] == 0))],
                "take": [("whole bucket moved out", z3.And(ok, has, d["x"] == bal, d["x"] > 0)),
                         ("part split off", z3.And(ok, has, d["x"] < bal, d["x"] > 0)), ("insufficient", z3.Not(ok))],
                "take_all": [("bucket returned", z3.And(ok, has)), ("nothing there: empty bucket", z3.And(ok, z3.Not(has)))],
                "assert_contains": [("passes", ok), ("fails", z3.Not(ok))],
                "assert_contains_amount": [("passes", z3.And(ok, d["x"] > 0)), ("fails", z3.Not(ok))],
                "drain": [("two buckets returned", z3.And(ok, d["p0"] == 1, d["p1"] == 1))]}[self.op]

    def vectors(self, rng):
        out = []
        for _ in range(40):
            e0 = rng.randrange(3)
            e1 = rng.choice([e for e in range(3) if e != e0])
            a0, a1 = rng.choice([0, 1, 5, 10 ** 18]), rng.choice([0, 3, 7 * 10 ** 18])
            out.append({"r": rng.randrange(3), "x": rng.choice([0, 1, 5, 10 ** 18, a0, a1]), "p0": rng.randrange(2), "e0": e0, "a0": a0,
                        "p1": rng.randrange(2), "e1": e1, "a1": a1})
        return out


def _models_unwrap(v):
    from mir_jobs import unwrap_int
    return unwrap_int(v)


JOBS["C09"] = [WorktopStep(op) for op in OPS]


# ---------------------------------------------------------------------------------------------------------------
# non-fungible operations: the bucket of slot 0 holds a symbolic id set E, the operation names a set Q
def _nfid(t):
    return StructV("NonFungibleLocalId", [IntV(t, "u64")])


class WorktopNfStep(WorktopStep):
    case_keys = ("ne", "nq")

    def __init__(self, op):
        self.op = op
        self.name = "c09m::worktop_" + op
        self.what = {
            "take_non_fungibles": "WorktopBlueprint::take_non_fungibles: succeeds exactly when no id is asked for (a fresh empty "
                                  "bucket), or the worktop holds the resource and EVERY asked id is among the held ones; then the "
                                  "whole bucket is moved out only when the asked ids are all the held ids, else exactly the asked "
                                  "ids are split off; a failed take changes nothing",
            "assert_contains_non_fungibles": "WorktopBlueprint::assert_contains_non_fungibles: passes exactly when every asserted id "
                                             "is held for that resource; changes nothing",
        }[op] + " -- held sets of <= 2 and asked sets of <= 2 distinct symbolic ids"
        self.cover_labels = {"take_non_fungibles": ["whole bucket moved out", "ids split off", "same count but a foreign id: rejected"],
                             "assert_contains_non_fungibles": ["passes", "fails"]}[op]

    def cases(self, tier):
        return [{"ne": ne, "nq": nq} for ne in (0, 1, 2) for nq in (0, 1, 2)]

    def inputs(self):
        d, pre = WorktopStep.inputs(self)
        c = self.case
        for pfx, n in (("e_", c["ne"]), ("q_", c["nq"])):
            for j in range(n):
                k = "%s%d" % (pfx, j)
                d[k] = z3.Int(k)
                pre += [d[k] >= 0, d[k] <= 9]
                for j2 in range(j):
                    pre.append(d[k] != d["%s%d" % (pfx, j2)])
        return d, pre

    def _sets(self, d):
        c = self.case
        return [d["e_%d" % j] for j in range(c["ne"])], [d["q_%d" % j] for j in range(c["nq"])]

    @property
    def env_overrides(self):
        base = WorktopStep.env_overrides.fget(self)
        R = re.compile

        def ok(ret_ty, v):
            return EnumV(ret_ty, 0, {0: [v]})

        def node_of(interp, path, b):
            b = _models.deref(interp, path, b)
            while b.kind == "struct" and b.ty != "NodeId":
                b = b.fields[0]
            return z3.simplify(b.fields[0].term).as_long()

        def m_as_typed(interp, path, args, ret_ty, callee):
            d = self._d
            E, Q = self._sets(d)
            qset = StructV("IndexSet<NonFungibleLocalId>", [_nfid(q) for q in Q])
            inp = {"take_non_fungibles": StructV("WorktopTakeNonFungiblesInput", [qset, res_v(d["r"])]),
                   "assert_contains_non_fungibles": StructV("WorktopAssertContainsNonFungiblesInput", [res_v(d["r"]), qset])}[self.op]
            return ok(ret_ty, inp)

        def m_ids(interp, path, args, ret_ty, callee):
            n = node_of(interp, path, args[0])
            E, _ = self._sets(self._d)
            return ok(ret_ty, StructV("IndexSet<NonFungibleLocalId>", [_nfid(e) for e in E] if n == 80 else []))

        def m_take_nf(interp, path, args, ret_ty, callee):
            job = path.frames["job"]
            job["split"] = IntV(job["split"].term + 1, "u32")
            job["split_from"] = IntV(node_of(interp, path, args[0]), "u8")
            ids = args[1]
            _, Q = self._sets(self._d)
            same = z3.And([z3.BoolVal(len(ids.fields) == len(Q))] + [_models.val_eq(x, _nfid(q)) for x, q in zip(ids.fields, Q)])
            job["split_ok"] = BoolV(same)
            return ok(ret_ty, StructV("NonFungibleBucket", [bucket_v(92)]))

        def m_superset(interp, path, args, ret_ty, callee):
            a_, b_ = _models.deref(interp, path, args[0]), _models.deref(interp, path, args[1])
            cs = [z3.Or([_models.val_eq(x, e) for x in a_.fields]) if a_.fields else z3.BoolVal(False) for e in b_.fields]
            return BoolV(z3.And(cs) if cs else z3.BoolVal(True))
        mine = [(R(r"IndexedScryptoValue::as_typed::<"), m_as_typed),
                (R(r"^<Bucket as NativeNonFungibleBucket>::non_fungible_local_ids::<"), m_ids),
                (R(r"^<Bucket as NativeNonFungibleBucket>::take_non_fungibles::<"), m_take_nf),
                (R(r"^IndexSet::<NonFungibleLocalId>::is_superset(::<.*>)?$"), m_superset),
                (R(r"^<NonFungibleBucket as Into<Bucket>>::into$"), lambda i, p, a, r, c: a[0].fields[0]),
                (R(r"^<NonFungibleLocalId as Clone>::clone$"), _models.m_clone)]
        return mine + base

    def setup_path(self, path, inp):
        WorktopStep.setup_path(self, path, inp)
        job = path.frames["job"]
        job["split"], job["split_from"], job["split_ok"] = IntV(0, "u32"), IntV(0, "u8"), BoolV(True)
        job["amt92"] = IntV(0, "i256")

    def extract_outcome(self, o):
        d = self._d
        job = o.path.frames["job"]
        ok = o.value.discr == 0
        m = job["worktop"].fields[0]
        still = z3.BoolVal(False)          # bucket 80 still on the worktop
        for s_ in m.fields:
            pres = s_.fields[2].term
            if z3.is_false(pres) or s_.fields[1].kind != "struct":
                continue
            node = z3.simplify(s_.fields[1].fields[0].fields[0].term).as_long()
            if node == 80:
                still = z3.Or(still, pres)
        ret = z3.IntVal(0)
        if o.value.variants.get(0) and self.op == "take_non_fungibles":
            v = o.value.variants[0][0].fields[0]
            while v.kind == "struct" and v.ty != "NodeId":
                v = v.fields[0]
            ret = z3.IntVal(z3.simplify(v.fields[0].term).as_long())
        return {"ok": ok, "ret": z3.If(ok, ret, 0), "still": z3.If(still, 1, 0),
                "split_ok": z3.If(z3.And(job["split_ok"].term, z3.Or(job["split"].term == 0, job["split_from"].term == 80)), 1, 0)}

    def native(self, nat, vals):
        c = self.case
        E = [vals["e_%d" % j] for j in range(c["ne"])]
        Q = [vals["q_%d" % j] for j in range(c["nq"])]
        t = nat.call("worktop_run", self.op, vals["r"], vals["x"], vals["p0"], vals["e0"], vals["a0"], vals["p1"], vals["e1"],
                     vals["a1"], len(E), *(E + [len(Q)] + Q)).split()
        if t[0] == "panic":
            return {"panic": True, "msg": " ".join(t[1:])}
        kv = dict(x.split("=", 1) for x in t[1:])
        held = [e.split(":")[1] for e in ([] if kv["map"] == "-" else kv["map"].split(","))]
        ok = t[0] == "ok"
        return {"panic": False, "ok": ok, "ret": int(kv["ret"]) if (ok and kv["ret"] != "-") else 0, "still": 1 if "80" in held else 0,
                "split_ok": 1}

    def post(self, inp, res):
        d = {k: lit(v) for k, v in inp.items()}
        E, Q = self._sets(d)
        has = z3.And(d["p0"] == 1, d["e0"] == d["r"])           # the worktop's bucket of the asked resource is bucket 80
        other = z3.And(d["p1"] == 1, d["e1"] == d["r"])         # ... or bucket 81, which holds no ids in this job
        held = lambda q: z3.Or([q == e for e in E]) if E else z3.BoolVal(False)
        all_held = z3.And([held(q) for q in Q]) if Q else z3.BoolVal(True)
        ok = lit(res["ok"])
        before_still = d["p0"] == 1
        if self.op == "assert_contains_non_fungibles":
            spec = z3.If(has, all_held, z3.BoolVal(len(Q) == 0))
            return [("passes exactly when every asserted id is held for that resource", ok == spec),
                    ("changes nothing", lit(res["still"]) == z3.If(before_still, 1, 0))]
        nq, ne = len(Q), len(E)
        spec = z3.Or(z3.BoolVal(nq == 0), z3.And(has, all_held), z3.And(other, z3.BoolVal(False)))
        whole = z3.And(has, all_held, z3.BoolVal(nq == ne and nq > 0))
        return [("succeeds exactly when nothing is asked for or every asked id is held", ok == spec),
                ("the whole bucket leaves the worktop only when the asked ids are all the held ids; otherwise exactly the asked "
                 "ids are split off the held bucket; an empty request returns a fresh empty bucket",
                 z3.Implies(ok, z3.And(lit(res["ret"]) == z3.If(z3.BoolVal(nq == 0), 91, z3.If(whole, 80, 92)),
                                       lit(res["still"]) == z3.If(z3.And(before_still, z3.Not(whole)), 1, 0),
                                       lit(res["split_ok"]) == 1))),
                ("a failed take changes nothing", z3.Implies(z3.Not(ok), lit(res["still"]) == z3.If(before_still, 1, 0)))]

    def covers(self, inp, res):
        d = {k: lit(v) for k, v in inp.items()}
        ok = lit(res["ok"])
        c = self.case
        if self.op == "assert_contains_non_fungibles":
            return [("passes", z3.And(ok, z3.BoolVal(c["nq"] > 0))), ("fails", z3.Not(ok))]
        return [("whole bucket moved out", z3.And(ok, lit(res["ret"]) == 80)), ("ids split off", z3.And(ok, lit(res["ret"]) == 92)),
                ("same count but a foreign id: rejected", z3.And(z3.Not(ok), z3.BoolVal(c["nq"] == c["ne"] and c["nq"] > 0),
                                                                 d["p0"] == 1, d["e0"] == d["r"]))]

    def vectors(self, rng):
        out = []
        for _ in range(40):
            ne, nq = rng.randrange(3), rng.randrange(3)
            pool = rng.sample(range(1, 8), 5)
            E = pool[:ne]
            Q = (E + pool[3:])[:nq] if rng.random() < 0.6 else rng.sample(pool, nq)
            e0 = rng.choice([2, 2, 1])
            d = {"ne": ne, "nq": nq, "r": rng.choice([2, 2, 1]), "x": 0, "p0": 1 if rng.random() < 0.8 else 0, "e0": e0, "a0": 0,
                 "p1": rng.randrange(2), "e1": rng.choice([e for e in range(3) if e != e0]), "a1": 0}
            for j, e in enumerate(E):
                d["e_%d" % j] = e
            for j, q in enumerate(Q):
                d["q_%d" % j] = q
            out.append(d)
        return out


JOBS["C09"] += [WorktopNfStep("take_non_fungibles"), WorktopNfStep("assert_contains_non_fungibles")]
