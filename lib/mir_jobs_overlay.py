"""Engine-M job for C14 (read side): SubstateDatabaseOverlay::list_raw_values_from_db_key executed from its MIR over a symbolic
staged state.  The function only BUILDS an iterator (a boxed `OverlayingIterator` over the root's listing and a `BTreeMap` range
of the staged updates, or one of the two alone); the job records how it is built -- which cursor is handed to the root, which
staged entries the range selects, what the closures map them to -- and reads the listing off that structure with the
semantics of `OverlayingIterator` ("the overlay wins, a `None` hides"), which is what the Kani harnesses
c14::c14_overlaying_iterator_* establish for the real iterator.  The verdict is compared at an arbitrary sort key."""
import re as _re

import z3

from mir_engine import Job, find_function, lit
from mirsmt.values import BoolV, EnumV, IntV, RefV, StructV, UndefV
from mirsmt import models as _models
from mirsmt.models import Outcome, Refuse
from mir_jobs import JOBS

SL = 3   # staged leaf slots of the partition


def _sortkey(t):
    return StructV("DbSortKey", [IntV(t, "u8")])


def _dbupdate(kind, val):
    return EnumV("DatabaseUpdate", kind, {0: [IntV(val, "u8")], 1: []})


class OverlayList(Job):
    crate = "radix-substate-store-impls"
    query_timeout_s = 120
    max_unroll = 20

    def __init__(self):
        self.name = "c14m::overlay_list_raw_values_from_db_key"
        self.what = ("SubstateDatabaseOverlay::list_raw_values_from_db_key over an ARBITRARY staged state of one node x one "
                     "partition (absent, Delta or Reset) with <= %d staged entries (every key, kind and value symbolic), for "
                     "any requested partition and any cursor (none, or any sort key): the listing it builds -- read with the "
                     "OverlayingIterator semantics the Kani harnesses establish -- contains an arbitrary sort key q exactly "
                     "when q is not before the cursor and the database with the staged updates applied holds q, with that "
                     "value: a staged Set wins, a staged Delete or a Reset hides the root's entry, anything else falls "
                     "through to the root, which is asked for the same partition from the same cursor" % SL)
        self.cover_labels = ["delta partition listed from a cursor that is a staged key", "reset partition",
                             "no staged updates for the partition", "staged delete hides a root entry"]

    def locate(self, prog):
        return find_function(prog, "substate_database_overlay.rs", "list_raw_values_from_db_key", nparams=3)

    def _names(self):
        ns = ["np", "nk", "pp", "pk", "pr"]
        for c in range(SL):
            ns += ["l%d_%s" % (c, f) for f in ("p", "k", "d", "v")]
        ns += ["qn", "qp", "hc", "c", "q", "rh", "rv"]
        return ns

    def inputs(self):
        d = {k: z3.Int(k) for k in self._names()}
        pre = []
        for k, v in d.items():
            if k in ("np", "pp", "pr", "hc", "rh") or k.endswith("_p") or k.endswith("_d"):
                pre += [v >= 0, v <= 1]
            else:
                pre += [v >= 0, v <= 100]
        for c in range(SL):
            for c2 in range(c + 1, SL):
                pre.append(z3.Implies(z3.And(d["l%d_p" % c] == 1, d["l%d_p" % c2] == 1), d["l%d_k" % c] != d["l%d_k" % c2]))
        return d, pre

    def _self_v(self, d):
        delta, reset = [], []
        for c in range(SL):
            pres = BoolV(d["l%d_p" % c] == 1)
            k = _sortkey(d["l%d_k" % c])
            delta.append(StructV("Slot", [k, _dbupdate(d["l%d_d" % c], d["l%d_v" % c]), pres]))
            reset.append(StructV("Slot", [k, IntV(d["l%d_v" % c], "u8"), pres]))
        pv = EnumV("StagingPartitionDatabaseUpdates", d["pr"],
                   {0: [StructV("SymMap<DbSortKey, DatabaseUpdate>", delta)], 1: [StructV("SymMap<DbSortKey, Vec<u8>>", reset)]})
        parts = [StructV("Slot", [IntV(d["pk"], "u8"), pv, BoolV(d["pp"] == 1)])]
        nv = StructV("StagingNodeDatabaseUpdates", [StructV("SymMap<u8, StagingPartitionDatabaseUpdates>", parts)])
        nodes = [StructV("Slot", [IntV(d["nk"], "u8"), nv, BoolV(d["np"] == 1)])]
        staging = StructV("StagingDatabaseUpdates", [StructV("SymMap<Vec<u8>, StagingNodeDatabaseUpdates>", nodes)])
        return StructV("SubstateDatabaseOverlay", [staging, UndefV(), UndefV()])

    # ---- environment: the iterator constructors are recorded, the closures are applied to every staged slot
    @property
    def env_overrides(self):
        R = _re.compile

        def m_range(interp, path, args, ret_ty, callee):
            m = _models._symmap(interp, path, args[0])
            if len(args) < 2:                       # BTreeMap::iter: everything
                return StructV("SymRange", [m, IntV(2, "u8"), IntV(0, "u8")])
            r = args[1]
            if r.kind == "struct" and "RangeFrom" in r.ty:
                return StructV("SymRange", [m, IntV(0, "u8"), IntV(r.fields[0].fields[0].term, "u8")])
            if r.kind == "struct" and len(r.fields) == 2 and all(f.kind == "enum" for f in r.fields):
                lo, hi = r.fields

                def conc(x):
                    if isinstance(x, int):
                        return x
                    x = z3.simplify(x)
                    return x.as_long() if z3.is_int_value(x) else None
                ld, hd = conc(lo.discr), conc(hi.discr)
                if hd == 2 and ld is not None:
                    key = lo.variants[ld][0].fields[0].term if ld in (0, 1) else z3.IntVal(0)
                    return StructV("SymRange", [m, IntV(ld, "u8"), IntV(key, "u8")])
            raise Refuse("BTreeMap::range with %r" % (r,))

        def m_map(interp, path, args, ret_ty, callee):
            from mirsmt.interp import _ConstRef
            rng, clo = args[0], args[1]
            if rng.kind != "struct" or rng.ty != "SymRange":
                raise Refuse("map over %r" % (rng,))
            slots = rng.fields[0].fields
            kind, lb = rng.fields[1].term, rng.fields[2].term
            outs, work = [], [(path, 0, [])]
            while work:
                p, i, acc = work.pop()
                if i == len(slots):
                    outs.append(Outcome(p, "ret", StructV("SymMapped", acc)))
                    continue
                k, v, pres = slots[i].fields
                kt = k.fields[0].term
                sel = z3.And(pres.term, z3.Or(kind == 2, z3.And(kind == 0, kt >= lb), z3.And(kind == 1, kt > lb)))
                arg = StructV("(&DbSortKey, &V)", [_ConstRef("&DbSortKey", k), _ConstRef("&" + getattr(v, "ty", "V"), v)])
                for o in _models._apply_fn(interp, p, clo, [arg]):
                    if o.kind != "ret":
                        outs.append(o)
                        continue
                    work.append((o.path, i + 1, acc + [StructV("Entry", [BoolV(sel), o.value])]))
            return outs

        def m_root_list(interp, path, args, ret_ty, callee):
            cur = args[2]
            pkv = _models.deref(interp, path, args[1])
            if cur.kind != "enum":
                raise Refuse("root listing cursor %r" % (cur,))
            if isinstance(cur.discr, int) and cur.discr == 0:
                has, key = z3.BoolVal(False), z3.IntVal(0)
            else:
                key = _models.deref(interp, path, cur.variants[1][0]).fields[0].term
                has = (cur.discr == 1) if not isinstance(cur.discr, int) else z3.BoolVal(True)
            return StructV("RootListing", [BoolV(has), IntV(key, "u8"), pkv])
        return [(R(r"^BTreeMap::<DbSortKey, .*>::range::<"), m_range),
                (R(r"^BTreeMap::<DbSortKey, .*>::iter$"), m_range),
                (R(r"^<(btree_map::)?(Range|Iter)<.*> as Iterator>::map::<"), m_map),
                (R(r"OverlayingIterator::<.*>::new$"), lambda i, p, a, r, c: StructV("Overlaying", [a[0], a[1]])),
                (R(r"SubstateDatabaseOverlay::<S, D>::get_readable_root$"), lambda i, p, a, r, c: UndefV()),
                (R(r"^<D as SubstateDatabase>::list_raw_values_from_db_key$"), m_root_list)]

    def setup_path(self, path, inp):
        self._d = {k: lit(v) for k, v in inp.items()}
        path.frames["job"] = {"self": self._self_v(self._d)}

    def args(self, inp):
        from mir_jobs import const_ref
        d = {k: lit(v) for k, v in inp.items()}
        pkey = StructV("DbPartitionKey", [IntV(d["qn"], "u8"), IntV(d["qp"], "u8")])
        cur = EnumV("Option<&DbSortKey>", z3.If(d["hc"] == 1, 1, 0), {0: [], 1: [const_ref("&DbSortKey", _sortkey(d["c"]))]})
        return [RefV("&SubstateDatabaseOverlay", "job", "self", ()), const_ref("&DbPartitionKey", pkey), cur]

    # ---- reading the listing off the recorded structure, at key q
    def _sem(self, v, d):
        """(contains q, value at q, the root was asked for the requested partition) of the listing `v` describes"""
        q = d["q"]
        if v.kind == "struct" and v.ty == "RootListing":
            has_c, c, pkv = v.fields
            same = z3.And(pkv.fields[0].term == d["qn"], pkv.fields[1].term == d["qp"])
            return z3.And(d["rh"] == 1, z3.Or(z3.Not(has_c.term), q >= c.term)), d["rv"], same
        if v.kind == "struct" and v.ty == "SymMapped":
            has, val = z3.BoolVal(False), z3.IntVal(-1)
            for e in v.fields:
                sel, tup = e.fields
                k, mv = tup.fields
                hit = z3.And(sel.term, k.fields[0].term == q)
                if mv.kind == "enum":       # Option<Vec<u8>>: None hides
                    raise Refuse("optional entries outside an OverlayingIterator")
                has, val = z3.Or(hit, has), z3.If(hit, mv.term, val)
            return has, val, z3.BoolVal(True)
        if v.kind == "struct" and v.ty == "Overlaying":
            under, over = v.fields
            uh, uv, usame = self._sem(under, d)
            if over.kind != "struct" or over.ty != "SymMapped":
                raise Refuse("overlay part %r" % (over,))
            has, val = uh, uv
            for e in over.fields:
                sel, tup = e.fields
                k, mv = tup.fields
                hit = z3.And(sel.term, k.fields[0].term == q)
                is_some = (mv.discr == 1) if not isinstance(mv.discr, int) else z3.BoolVal(mv.discr == 1)
                sv = mv.variants[1][0].term if mv.variants.get(1) else z3.IntVal(-1)
                has, val = z3.If(hit, is_some, has), z3.If(hit, sv, val)
            return has, val, usame
        raise Refuse("listing structure %r" % (v,))

    def extract_outcome(self, o):
        has, val, same = self._sem(o.value, self._d)
        return {"has": has, "val": z3.If(has, val, -1), "root_same": same}

    native_only_keys = ()

    def native(self, nat, vals):
        toks = []
        if vals["rh"] == 1:
            toks += ["ROOT", vals["qn"], vals["qp"], vals["q"], vals["rv"]]
        if vals["np"] == 1 and vals["pp"] == 1:
            ent = [c for c in range(SL) if vals["l%d_p" % c] == 1]
            toks += ["COMMIT", "R" if vals["pr"] == 1 else "D", vals["nk"], vals["pk"], len(ent)]
            for c in ent:
                if vals["pr"] == 1:
                    toks += [vals["l%d_k" % c], vals["l%d_v" % c]]
                elif vals["l%d_d" % c] == 0:
                    toks += [vals["l%d_k" % c], "S", vals["l%d_v" % c]]
                else:
                    toks += [vals["l%d_k" % c], "X"]
            toks += ["END"]
        if vals["hc"] == 1:
            toks += ["LISTFROM", vals["qn"], vals["qp"], vals["c"]]
        else:
            toks += ["LIST", vals["qn"], vals["qp"]]
        t = nat.call("overlay_run", *toks).split()
        if t[0] != "val":
            return {"panic": True}
        items = t[-1].strip("[]")
        has, val = False, -1
        for it in (items.split(",") if items else []):
            k, v = it.split(":")
            if int(k) == vals["q"]:
                has, val = True, int(v)
        return {"panic": False, "has": has, "val": val, "root_same": True}

    def _expected(self, d):
        staged = z3.And(d["np"] == 1, d["nk"] == d["qn"], d["pp"] == 1, d["pk"] == d["qp"])
        slot_has, slot_del, slot_v = z3.BoolVal(False), z3.BoolVal(False), z3.IntVal(-1)
        for c in range(SL):
            hit = z3.And(d["l%d_p" % c] == 1, d["l%d_k" % c] == d["q"])
            slot_has = z3.Or(slot_has, hit)
            slot_del = z3.If(hit, d["l%d_d" % c] == 1, slot_del)
            slot_v = z3.If(hit, d["l%d_v" % c], slot_v)
        root_has, root_v = d["rh"] == 1, d["rv"]
        reset = d["pr"] == 1
        has = z3.If(staged, z3.If(reset, slot_has, z3.If(slot_has, z3.Not(slot_del), root_has)), root_has)
        val = z3.If(staged, z3.If(z3.Or(reset, slot_has), slot_v, root_v), root_v)
        in_range = z3.Or(d["hc"] == 0, d["q"] >= d["c"])
        return z3.And(in_range, has), val

    def post(self, inp, res):
        d = {k: lit(v) for k, v in inp.items()}
        r = {k: lit(v) for k, v in res.items()}
        ehas, eval_ = self._expected(d)
        return [("the listing contains a sort key exactly when it is not before the cursor and the database with the staged "
                 "updates applied holds it", r["has"] == ehas),
                ("and it carries the value of the database with the staged updates applied", z3.Implies(ehas, r["val"] == eval_)),
                ("the root is asked for the requested partition", r["root_same"])]

    def covers(self, inp, res):
        d = {k: lit(v) for k, v in inp.items()}
        staged = z3.And(d["np"] == 1, d["nk"] == d["qn"], d["pp"] == 1, d["pk"] == d["qp"])
        at_key = z3.Or([z3.And(d["l%d_p" % c] == 1, d["l%d_k" % c] == d["c"]) for c in range(SL)])
        deleted = z3.Or([z3.And(d["l%d_p" % c] == 1, d["l%d_k" % c] == d["q"], d["l%d_d" % c] == 1) for c in range(SL)])
        return [("delta partition listed from a cursor that is a staged key", z3.And(staged, d["pr"] == 0, d["hc"] == 1, at_key)),
                ("reset partition", z3.And(staged, d["pr"] == 1)),
                ("no staged updates for the partition", z3.Not(staged)),
                ("staged delete hides a root entry", z3.And(staged, d["pr"] == 0, deleted, d["rh"] == 1))]

    def vectors(self, rng):
        out = []
        for _ in range(30):
            v = {"np": rng.choice([1, 1, 0]), "nk": 7, "pp": rng.choice([1, 1, 0]), "pk": 2, "pr": rng.randrange(2),
                 "qn": rng.choice([7, 7, 8]), "qp": rng.choice([2, 2, 3]), "hc": rng.randrange(2), "c": rng.choice([1, 3, 5, 0]),
                 "q": rng.choice([1, 3, 5, 2]), "rh": rng.randrange(2), "rv": rng.randrange(50)}
            keys = rng.sample([1, 2, 3, 5, 9], SL)
            for c in range(SL):
                v.update({"l%d_p" % c: rng.randrange(2), "l%d_k" % c: keys[c], "l%d_d" % c: rng.randrange(2),
                          "l%d_v" % c: rng.randrange(50)})
            out.append(v)
        return out


JOBS.setdefault("C14", [])
JOBS["C14"].append(OverlayList())


class OverlayGet(OverlayList):
    def __init__(self):
        self.name = "c14m::overlay_get_raw_substate_by_db_key"
        self.what = ("SubstateDatabaseOverlay::get_raw_substate_by_db_key over the same arbitrary staged state (one node x one "
                     "partition, absent / Delta / Reset, <= %d staged entries, everything symbolic), for any requested "
                     "partition and sort key: the answer is the value of the database with the staged updates applied -- a "
                     "staged Set wins, a staged Delete or a Reset hides the root's entry, anything else is read from the root "
                     "with the same partition and sort key" % SL)
        self.cover_labels = ["staged set", "staged delete hides a root entry", "reset partition hides a root entry",
                             "falls through to the root"]

    def locate(self, prog):
        return find_function(prog, "substate_database_overlay.rs", "get_raw_substate_by_db_key", nparams=3)

    def inputs(self):
        d, pre = super().inputs()
        return d, pre + [d["hc"] == 0, d["c"] == 0]

    @property
    def env_overrides(self):
        R = _re.compile

        def m_root_get(interp, path, args, ret_ty, callee):
            d = self._d
            pkv = _models.deref(interp, path, args[1])
            skv = _models.deref(interp, path, args[2])
            same = z3.And(pkv.fields[0].term == d["qn"], pkv.fields[1].term == d["qp"], skv.fields[0].term == d["q"])
            path.frames["job"]["root_same"] = BoolV(same)
            return EnumV(ret_ty, z3.If(d["rh"] == 1, 1, 0), {0: [], 1: [IntV(d["rv"], "u8")]})
        return [(R(r"SubstateDatabaseOverlay::<S, D>::get_readable_root$"), lambda i, p, a, r, c: UndefV()),
                (R(r"^<D as SubstateDatabase>::get_raw_substate_by_db_key$"), m_root_get),
                (R(r"^<Vec<u8> as Clone>::clone$"), _models.m_clone)]

    def setup_path(self, path, inp):
        super().setup_path(path, inp)
        path.frames["job"]["root_same"] = BoolV(True)

    def args(self, inp):
        from mir_jobs import const_ref
        d = {k: lit(v) for k, v in inp.items()}
        pkey = StructV("DbPartitionKey", [IntV(d["qn"], "u8"), IntV(d["qp"], "u8")])
        return [RefV("&SubstateDatabaseOverlay", "job", "self", ()), const_ref("&DbPartitionKey", pkey),
                const_ref("&DbSortKey", _sortkey(d["q"]))]

    def extract_outcome(self, o):
        v = o.value
        has = (v.discr == 1) if not isinstance(v.discr, int) else z3.BoolVal(v.discr == 1)
        val = v.variants[1][0].term if v.variants.get(1) else z3.IntVal(-1)
        return {"has": has, "val": z3.If(has, val, -1), "root_same": o.path.frames["job"]["root_same"].term}

    def native(self, nat, vals):
        toks = []
        if vals["rh"] == 1:
            toks += ["ROOT", vals["qn"], vals["qp"], vals["q"], vals["rv"]]
        if vals["np"] == 1 and vals["pp"] == 1:
            ent = [c for c in range(SL) if vals["l%d_p" % c] == 1]
            toks += ["COMMIT", "R" if vals["pr"] == 1 else "D", vals["nk"], vals["pk"], len(ent)]
            for c in ent:
                if vals["pr"] == 1:
                    toks += [vals["l%d_k" % c], vals["l%d_v" % c]]
                elif vals["l%d_d" % c] == 0:
                    toks += [vals["l%d_k" % c], "S", vals["l%d_v" % c]]
                else:
                    toks += [vals["l%d_k" % c], "X"]
            toks += ["END"]
        toks += ["GET", vals["qn"], vals["qp"], vals["q"]]
        t = nat.call("overlay_run", *toks).split()
        if t[0] != "val":
            return {"panic": True}
        r = t[-1]
        return {"panic": False, "has": r != "none", "val": -1 if r == "none" else int(r), "root_same": True}

    def post(self, inp, res):
        d = {k: lit(v) for k, v in inp.items()}
        r = {k: lit(v) for k, v in res.items()}
        ehas, eval_ = self._expected(d)
        return [("a value is returned exactly when the database with the staged updates applied holds the key", r["has"] == ehas),
                ("and it is the value of the database with the staged updates applied", z3.Implies(ehas, r["val"] == eval_)),
                ("the root is asked for the same partition and sort key", r["root_same"])]

    def covers(self, inp, res):
        d = {k: lit(v) for k, v in inp.items()}
        staged = z3.And(d["np"] == 1, d["nk"] == d["qn"], d["pp"] == 1, d["pk"] == d["qp"])
        hit = lambda dl: z3.Or([z3.And(d["l%d_p" % c] == 1, d["l%d_k" % c] == d["q"], d["l%d_d" % c] == dl) for c in range(SL)])  # noqa: E731
        anyhit = z3.Or([z3.And(d["l%d_p" % c] == 1, d["l%d_k" % c] == d["q"]) for c in range(SL)])
        return [("staged set", z3.And(staged, d["pr"] == 0, hit(0))),
                ("staged delete hides a root entry", z3.And(staged, d["pr"] == 0, hit(1), d["rh"] == 1)),
                ("reset partition hides a root entry", z3.And(staged, d["pr"] == 1, z3.Not(anyhit), d["rh"] == 1)),
                ("falls through to the root", z3.And(z3.Not(staged), d["rh"] == 1))]

    def vectors(self, rng):
        out = super().vectors(rng)
        for v in out:
            v["hc"], v["c"] = 0, 0
        return out


JOBS["C14"].append(OverlayGet())
