//! Kani proof harnesses over the real radixdlt-scrypto crates (path dependencies on /repo).
//! One module per property. Every harness states its bound next to `#[kani::unwind]`.
#![allow(unused_imports, dead_code, clippy::all)]

#[cfg(kani)]
mod c07;
