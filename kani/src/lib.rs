//! Kani proof harnesses over the real radixdlt-scrypto crates (path dependencies on /repo).
//! One module per property. Every harness states its bound next to `#[kani::unwind]`.
#![allow(unused_imports, dead_code, clippy::all)]

#[cfg(kani)]
mod c07;
#[cfg(kani)]
mod c16;
#[cfg(kani)]
mod dec;
#[cfg(kani)]
mod c03;
#[cfg(kani)]
mod c24;
#[cfg(kani)]
mod c14;
#[cfg(kani)]
mod c13;
#[cfg(kani)]
mod c20;
#[cfg(kani)]
mod c27;
#[cfg(kani)]
mod c29;
