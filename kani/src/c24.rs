//! C24 (Engine K part) — Decimal add/sub/neg/abs/ordering agree with a limb-level reference for every
//! pair of 192-bit values.
use crate::dec::*;
use radix_common::math::*;

#[kani::proof]
fn c24_decimal_checked_add_sub_full_width() {
    let a = any_decimal();
    let b = any_decimal();
    let (la, lb) = (L3::of(a), L3::of(b));
    match (a.checked_add(b), la.checked_add(lb)) {
        (Some(r), Some(e)) => assert!(same_dec(r, e)),
        (None, None) => {}
        _ => assert!(false),
    }
    match (a.checked_sub(b), la.checked_sub(lb)) {
        (Some(r), Some(e)) => assert!(same_dec(r, e)),
        (None, None) => {}
        _ => assert!(false),
    }
    kani::cover!(la.checked_add(lb).is_none(), "add overflow reachable");
    kani::cover!(la.checked_sub(lb).is_none(), "sub overflow reachable");
    kani::cover!(la.checked_add(lb).is_some() && la.neg_sign() != lb.neg_sign(), "mixed sign add reachable");
}

#[kani::proof]
fn c24_decimal_neg_abs_cmp_full_width() {
    let a = any_decimal();
    let b = any_decimal();
    let (la, lb) = (L3::of(a), L3::of(b));
    match (a.checked_neg(), la.checked_neg()) {
        (Some(r), Some(e)) => assert!(same_dec(r, e)),
        (None, None) => {}
        _ => assert!(false),
    }
    match a.checked_abs() {
        Some(r) => {
            assert!(!la.is_min());
            let e = if la.neg_sign() { la.checked_neg().unwrap() } else { la };
            assert!(same_dec(r, e));
        }
        None => assert!(la.is_min()),
    }
    let c = la.cmp(lb);
    assert!((a < b) == (c < 0));
    assert!((a == b) == (c == 0));
    assert!((a > b) == (c > 0));
    assert!((a <= b) == (c <= 0));
    assert!(a.is_zero() == la.is_zero());
    assert!(a.is_negative() == la.neg_sign());
    assert!(a.is_positive() == (!la.neg_sign() && !la.is_zero()));
    kani::cover!(la.is_min(), "MIN reachable");
    kani::cover!(c == 0, "equal reachable");
}
