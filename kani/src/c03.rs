//! C03 (container level) — LiquidFungibleResource conserves amounts exactly.
use crate::dec::*;
use radix_common::math::*;
use radix_engine_interface::blueprints::resource::*;

/// take_by_amount: for every non-negative balance and every non-negative request, either the container is
/// unchanged and InsufficientBalance is reported (iff balance < request), or before = after + taken, exactly.
#[kani::proof]
fn c03_take_by_amount_conserves() {
    let bal = any_nonneg_decimal();
    let req = any_nonneg_decimal();
    let mut c = LiquidFungibleResource::new(bal);
    let r = c.take_by_amount(req);
    let insufficient = L3::of(bal).cmp(L3::of(req)) < 0;
    match r {
        Err(ResourceError::InsufficientBalance { requested, actual }) => {
            assert!(insufficient);
            assert!(same_dec(c.amount(), L3::of(bal)));
            assert!(same_dec(requested, L3::of(req)) && same_dec(actual, L3::of(bal)));
        }
        Err(_) => assert!(false), // DecimalOverflow is impossible for 0 <= req <= bal
        Ok(taken) => {
            assert!(!insufficient);
            assert!(same_dec(taken.amount(), L3::of(req)));
            // exact conservation at limb level: after + taken == before, no wrap
            let sum = L3::of(c.amount()).checked_add(L3::of(taken.amount()));
            assert!(sum == Some(L3::of(bal)));
            assert!(!L3::of(c.amount()).neg_sign());
            kani::cover!(L3::of(c.amount()).is_zero() && !L3::of(bal).is_zero(), "take everything reachable");
        }
    }
    kani::cover!(insufficient, "insufficient reachable");
    kani::cover!(!insufficient, "sufficient reachable");
}

/// put: the new amount is exactly the sum; the only panic is an exact sum outside the I192 range.
#[kani::proof]
fn c03_put_conserves() {
    let a = any_nonneg_decimal();
    let b = any_nonneg_decimal();
    let exact = L3::of(a).checked_add(L3::of(b));
    // `put` panics ("Overflow") exactly when the sum is not representable: assume it is, and prove below
    // (c03_put_panics_only_on_overflow) that checked_add is None exactly then.
    kani::assume(exact.is_some());
    let mut c = LiquidFungibleResource::new(a);
    c.put(LiquidFungibleResource::new(b));
    assert!(same_dec(c.amount(), exact.unwrap()));
    // and taking the same amount back restores the container
    let back = c.take_by_amount(b);
    assert!(back.is_ok());
    assert!(same_dec(c.amount(), L3::of(a)));
    kani::cover!(!L3::of(a).is_zero() && !L3::of(b).is_zero(), "non-trivial put reachable");
}

#[kani::proof]
fn c03_put_panics_only_on_overflow() {
    let a = any_nonneg_decimal();
    let b = any_nonneg_decimal();
    let exact = L3::of(a).checked_add(L3::of(b));
    let got = a.checked_add(b);
    assert!(got.is_some() == exact.is_some());
    kani::cover!(exact.is_none(), "overflow reachable");
}

/// take_all leaves zero and returns the whole balance; is_empty <=> amount == 0.
#[kani::proof]
fn c03_take_all() {
    let bal = any_nonneg_decimal();
    let mut c = LiquidFungibleResource::new(bal);
    assert!(c.is_empty() == L3::of(bal).is_zero());
    let t = c.take_all();
    assert!(same_dec(t.amount(), L3::of(bal)));
    assert!(c.is_empty());
    assert!(L3::of(c.amount()).is_zero());
    kani::cover!(!L3::of(bal).is_zero(), "non-empty reachable");
}
