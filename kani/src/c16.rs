//! C16 — SpreadPrefixKeyMapper: decode∘encode = id (hence injectivity) and sorted-key order.
//! `radix_common::crypto::hash::hash` is stubbed by an arbitrary 32-byte value on every call, so every
//! verdict holds for every hash function (even a non-deterministic one).
use radix_common::prelude::*;
use radix_substate_store_interface::db_key_mapper::*;
use radix_substate_store_interface::interface::*;

pub fn nondet_hash<T: AsRef<[u8]>>(_data: T) -> Hash {
    Hash(kani::any())
}

const MAXK: usize = 4; // stated bound on map / sorted key payload length

fn same(a: &[u8], b: &[u8]) -> bool {
    if a.len() != b.len() {
        return false;
    }
    let mut i = 0;
    while i < a.len() {
        if a[i] != b[i] {
            return false;
        }
        i += 1;
    }
    true
}

/// node id (30 symbolic bytes) + partition number round trip.
/// unwind 31: the fieldwise comparison loop over 30 bytes (+1); concat() iterates over 2 slices.
#[kani::proof]
#[kani::stub(radix_common::crypto::hash::hash, nondet_hash)]
#[kani::unwind(32)]
fn c16_partition_key_roundtrip() {
    let node = NodeId(kani::any());
    let pn = PartitionNumber(kani::any());
    let k = SpreadPrefixKeyMapper::to_db_partition_key(&node, pn);
    assert!(k.node_key.len() == 50);
    let (n2, p2) = SpreadPrefixKeyMapper::from_db_partition_key(&k);
    assert!(same(&n2.0, &node.0));
    assert!(p2.0 == pn.0);
    // the plain id is a suffix of the db key => two distinct node ids never share a db key
    assert!(same(&k.node_key[20..], &node.0));
    assert!(k.partition_num == pn.0);
    kani::cover!(true, "end reached");
    core::mem::forget(k);
}

/// field keys: one byte, identity, via the SubstateKey-level entry points too.
#[kani::proof]
#[kani::stub(radix_common::crypto::hash::hash, nondet_hash)]
#[kani::unwind(4)]
fn c16_field_key_roundtrip() {
    let f: u8 = kani::any();
    let k = SpreadPrefixKeyMapper::to_db_sort_key(&SubstateKey::Field(f));
    assert!(k.0.len() == 1 && k.0[0] == f);
    let back = SpreadPrefixKeyMapper::from_db_sort_key::<FieldKey>(&k);
    match back {
        SubstateKey::Field(g) => assert!(g == f),
        _ => assert!(false),
    }
    kani::cover!(true, "end reached");
}

/// map keys: every content for each concrete length 0..=MAXK (one harness per length: a symbolic-length
/// Vec allocation exhausts memory under CBMC, so lengths are enumerated and contents are symbolic).
fn map_key_roundtrip<const N: usize>() {
    let raw: [u8; N] = kani::any();
    let key = raw.to_vec();
    let k = SpreadPrefixKeyMapper::to_db_sort_key(&SubstateKey::Map(raw.to_vec()));
    assert!(k.0.len() == 20 + N);
    assert!(same(&k.0[20..], &key));
    let back = SpreadPrefixKeyMapper::map_from_db_sort_key(&k);
    assert!(same(&back, &key));
    kani::cover!(true, "end reached");
    core::mem::forget((k, back, key));
}

macro_rules! map_harness {
    ($name:ident, $n:expr) => {
        #[kani::proof]
        #[kani::stub(radix_common::crypto::hash::hash, nondet_hash)]
        #[kani::unwind(7)]
        fn $name() {
            map_key_roundtrip::<$n>();
        }
    };
}
map_harness!(c16_map_key_roundtrip_len0, 0);
map_harness!(c16_map_key_roundtrip_len1, 1);
map_harness!(c16_map_key_roundtrip_len2, 2);
map_harness!(c16_map_key_roundtrip_len4, 4);

/// sorted keys: round trip, and db order of two keys with different 2-byte prefixes is the prefix order
/// whatever the hash and the payloads are. Payload lengths N1, N2 concrete, contents symbolic.
fn sorted_key_roundtrip_and_order<const N1: usize, const N2: usize>() {
    let p1: [u8; 2] = kani::any();
    let p2: [u8; 2] = kani::any();
    let r1: [u8; N1] = kani::any();
    let r2: [u8; N2] = kani::any();
    let b1 = r1.to_vec();
    let k1 = SpreadPrefixKeyMapper::to_db_sort_key(&SubstateKey::Sorted((p1, r1.to_vec())));
    let k2 = SpreadPrefixKeyMapper::sorted_to_db_sort_key(&(p2, r2.to_vec()));
    assert!(k1.0.len() == 22 + N1);
    let (q1, c1) = SpreadPrefixKeyMapper::sorted_from_db_sort_key(&k1);
    assert!(q1[0] == p1[0] && q1[1] == p1[1]);
    assert!(same(&c1, &b1));
    assert!(k1.0[0] == p1[0] && k1.0[1] == p1[1]);
    assert!(same(&k1.0[22..], &b1));
    let pref_lt = p1[0] < p2[0] || (p1[0] == p2[0] && p1[1] < p2[1]);
    // byte-lexicographic comparison of the two db keys is decided on the first two bytes when they differ
    let db_lt = k1.0[0] < k2.0[0] || (k1.0[0] == k2.0[0] && k1.0[1] < k2.0[1]);
    let db_first2_eq = k1.0[0] == k2.0[0] && k1.0[1] == k2.0[1];
    if p1 != p2 {
        assert!(!db_first2_eq);
        assert!(db_lt == pref_lt);
    }
    kani::cover!(p1 != p2 && pref_lt, "ordered pair reachable");
    kani::cover!(p1 == p2, "equal prefixes reachable");
    core::mem::forget((k1, k2, c1, b1));
}

macro_rules! sorted_harness {
    ($name:ident, $n1:expr, $n2:expr) => {
        #[kani::proof]
        #[kani::stub(radix_common::crypto::hash::hash, nondet_hash)]
        #[kani::unwind(7)]
        fn $name() {
            sorted_key_roundtrip_and_order::<$n1, $n2>();
        }
    };
}
sorted_harness!(c16_sorted_key_len0_len3, 0, 3);
sorted_harness!(c16_sorted_key_len3_len1, 3, 1);
sorted_harness!(c16_sorted_key_len2_len2, 2, 2);
