//! C07 — replay protection ring (transaction tracker).
//! Functions under analysis (real code, compiled by Kani from /repo):
//!   TransactionTrackerSubstateV1::{partition_for_expiry_epoch, advance}
//!   System::validate_epoch_range (through the verif shim)
//!   Nullification::of_intent
//! Constants are the crate's own (PARTITION_RANGE_START/END, EPOCHS_PER_PARTITION,
//! TransactionValidationConfig::latest().max_epoch_range).
use radix_common::prelude::*;
use radix_engine::blueprints::transaction_tracker::*;
use radix_engine::system::system_callback::verif::validate_epoch_range;
use radix_engine::transaction::Nullification;
use radix_transactions::prelude::*;
use radix_transactions::validation::TransactionValidationConfig;

const N_PART: u64 = (PARTITION_RANGE_END - PARTITION_RANGE_START) as u64 + 1;
const COVER: u64 = N_PART * EPOCHS_PER_PARTITION;

/// Arbitrary reachable tracker state: any start epoch < 2^63 (so that no u64 addition
/// in the code under test can wrap: 2^63 + 191*100 < 2^64), any start partition in range.
fn any_tracker() -> TransactionTrackerSubstateV1 {
    let start_epoch: u64 = kani::any();
    let start_partition: u8 = kani::any();
    kani::assume(start_epoch < (1u64 << 63));
    kani::assume(start_partition >= PARTITION_RANGE_START);
    TransactionTrackerSubstateV1 {
        start_epoch,
        start_partition,
        partition_range_start_inclusive: PARTITION_RANGE_START,
        partition_range_end_inclusive: PARTITION_RANGE_END,
        epochs_per_partition: EPOCHS_PER_PARTITION,
    }
}

/// (a)+(b)+(c): one inductive step of the ring from an arbitrary state.
/// A record stored for expiry epoch `e` in partition `p` is, after `advance()` guarded
/// exactly like `update_transaction_tracker` guards it, either already expired
/// (`e <= next_epoch`, hence rejected by validate_epoch_range at any later epoch) or
/// still found in the same partition, which is not the partition that was deleted.
#[kani::proof]
fn c07_ring_step_preserves_live_records() {
    let mut t = any_tracker();
    let s = t.start_epoch;
    let e: u64 = kani::any();
    let next_epoch: u64 = kani::any();
    let p = t.partition_for_expiry_epoch(Epoch::of(e));
    kani::assume(p.is_some());
    let p = p.unwrap();
    assert!(p >= PARTITION_RANGE_START);
    // guard as in update_transaction_tracker
    kani::assume(next_epoch >= t.start_epoch + t.epochs_per_partition);
    let discarded = t.advance();
    assert!(t.start_epoch == s + EPOCHS_PER_PARTITION);
    assert!(t.start_partition >= PARTITION_RANGE_START);
    let after = t.partition_for_expiry_epoch(Epoch::of(e));
    if e > next_epoch {
        // still possibly valid at some later current epoch (current < e)
        assert!(after == Some(p));
        assert!(p != discarded);
    }
    if p == discarded {
        // everything that lived in the deleted partition is expired for every epoch >= next_epoch
        assert!(e < s + EPOCHS_PER_PARTITION);
        let later: u64 = kani::any();
        kani::assume(later >= next_epoch);
        let start: u64 = kani::any();
        kani::assume(start < e);
        let r = validate_epoch_range(Epoch::of(later), Epoch::of(start), Epoch::of(e));
        assert!(r.is_err());
        core::mem::forget(r);
    } else {
        assert!(after == Some(p));
    }
    kani::cover!(p == discarded, "record in discarded partition reachable");
    kani::cover!(p != discarded && e > next_epoch, "live record reachable");
    kani::cover!(after.is_none(), "record dropped out of coverage reachable");
}

/// (b'): no aliasing inside the ring: two covered epochs map to the same partition
/// iff they lie in the same 100-epoch bucket relative to start_epoch.
#[kani::proof]
fn c07_ring_no_aliasing() {
    let t = any_tracker();
    let e1: u64 = kani::any();
    let e2: u64 = kani::any();
    let p1 = t.partition_for_expiry_epoch(Epoch::of(e1));
    let p2 = t.partition_for_expiry_epoch(Epoch::of(e2));
    // coverage is exactly [start, start + 191*100)
    assert!(p1.is_some() == (e1 >= t.start_epoch && e1 < t.start_epoch + COVER));
    if let (Some(p1), Some(p2)) = (p1, p2) {
        let b1 = (e1 - t.start_epoch) / EPOCHS_PER_PARTITION;
        let b2 = (e2 - t.start_epoch) / EPOCHS_PER_PARTITION;
        assert!((p1 == p2) == (b1 == b2));
        kani::cover!(p1 == p2 && e1 != e2, "same bucket");
        kani::cover!(p1 < t.start_partition, "wrapped partition");
    }
}

/// (d): coverage — the `.expect("Transaction tracker should cover all valid epoch ranges")`
/// in validate_intent_hash_uncosted / update_transaction_tracker cannot fire for an intent
/// that passed validate_epoch_range at `current`, whose range respects max_epoch_range,
/// while the tracker lags `current` by less than COVER - max_epoch_range epochs.
#[kani::proof]
fn c07_tracker_covers_every_valid_intent() {
    let t = any_tracker();
    let cfg = TransactionValidationConfig::latest();
    let max_range = cfg.max_epoch_range;
    assert!(max_range < COVER);
    let current: u64 = kani::any();
    let start: u64 = kani::any();
    let end: u64 = kani::any();
    // static validation (validate_header_*): end > start, end - start <= max_epoch_range
    kani::assume(end > start && end - start <= max_range);
    // tracker invariant: start_epoch <= current (start only advances up to next_epoch), bounded lag
    kani::assume(t.start_epoch <= current);
    kani::assume(current - t.start_epoch < COVER - max_range);
    let r = validate_epoch_range(Epoch::of(current), Epoch::of(start), Epoch::of(end));
    let ok = r.is_ok();
    core::mem::forget(r);
    // validate_epoch_range accepts exactly start <= current < end
    assert!(ok == (start <= current && current < end));
    if ok {
        let p = t.partition_for_expiry_epoch(Epoch::of(end));
        assert!(p.is_some());
        kani::cover!(end == t.start_epoch + COVER - 1, "last covered epoch reachable");
    }
    kani::cover!(ok, "accepted intent reachable");
    kani::cover!(!ok, "rejected intent reachable");
}

/// (f): which nullifications are written: transaction intents always, subintents only on success,
/// and the recorded expiry epoch is the intent's own.
#[kani::proof]
fn c07_nullification_policy() {
    let h: [u8; 32] = kani::any();
    let e: u64 = kani::any();
    let cur: u64 = kani::any();
    let is_success: bool = kani::any();
    let sub: bool = kani::any();
    let n = if sub {
        IntentHashNullification::Subintent {
            intent_hash: SubintentHash::from_hash(Hash(h)),
            expiry_epoch: Epoch::of(e),
        }
    } else {
        IntentHashNullification::TransactionIntent {
            intent_hash: TransactionIntentHash::from_hash(Hash(h)),
            expiry_epoch: Epoch::of(e),
        }
    };
    let r = Nullification::of_intent(n, Epoch::of(cur), is_success);
    assert!(r.is_some() == (!sub || is_success));
    if let Some(n) = r {
        let (ee, hh) = n.transaction_tracker_keys();
        assert!(ee.number() == e);
        assert!(hh.0[0] == h[0] && hh.0[31] == h[31]);
    }
    kani::cover!(sub && !is_success, "failed subintent reachable");
    kani::cover!(sub && is_success, "successful subintent reachable");
}
