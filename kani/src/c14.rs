//! C14 (merge-iterator level) and C12 (OverlayingResultIterator) — the real iterator adaptors of radix-rust
//! against a reference "overlay wins, deletes hide" lookup, for every sorted underlying sequence and every
//! sorted overlay within the stated sizes.
use radix_rust::iterators::*;

pub const KEYS: u8 = 6; // key universe 0..KEYS

/// Arbitrary strictly increasing sequence of `n <= N` keys < KEYS with arbitrary payloads.
pub fn any_sorted<const N: usize, V: kani::Arbitrary + Copy>() -> ([(u8, V); N], usize) {
    let arr: [(u8, V); N] = kani::any();
    let n: usize = kani::any();
    kani::assume(n <= N);
    let mut i = 0;
    while i < N {
        kani::assume(arr[i].0 < KEYS);
        if i > 0 {
            kani::assume(arr[i - 1].0 < arr[i].0);
        }
        i += 1;
    }
    (arr, n)
}

pub fn lookup<const N: usize, V: Copy>(arr: &[(u8, V); N], n: usize, k: u8) -> Option<V> {
    let mut i = 0;
    while i < N {
        if i < n && arr[i].0 == k {
            return Some(arr[i].1);
        }
        i += 1;
    }
    None
}

/// reference semantics of a database overlay for one key
pub fn expected<const NU: usize, const NO: usize>(
    u: &[(u8, u8); NU], nu: usize, o: &[(u8, Option<u8>); NO], no: usize, k: u8,
) -> Option<u8> {
    match lookup(o, no, k) {
        Some(Some(v)) => Some(v),
        Some(None) => None,
        None => lookup(u, nu, k),
    }
}

fn overlay_iterator_matches_reference<const NU: usize, const NO: usize>() {
    let (u, nu) = any_sorted::<NU, u8>();
    let (o, no) = any_sorted::<NO, Option<u8>>();
    let mut it = OverlayingIterator::new(u.into_iter().take(nu), o.into_iter().take(no));
    // walk the key universe in order: the iterator must yield exactly the expected present keys, in order
    let mut k: u8 = 0;
    let mut yielded = 0usize;
    while k < KEYS {
        if let Some(v) = expected(&u, nu, &o, no, k) {
            let got = it.next();
            assert!(got == Some((k, v)));
            yielded += 1;
        }
        k += 1;
    }
    assert!(it.next().is_none());
    kani::cover!(yielded == 0 && nu > 0, "everything deleted reachable");
    kani::cover!(yielded == NU + NO, "disjoint upserts reachable");
    kani::cover!(nu == NU && no == NO, "full sizes reachable");
}

/// unwind: loops over KEYS (6) and over N (<=4) entries; the iterator's internal delete-skipping loop runs at
/// most NO+1 times per next(); 8 covers all.
#[kani::proof]
#[kani::unwind(8)]
fn c14_overlaying_iterator_3x3() {
    overlay_iterator_matches_reference::<3, 3>();
}

#[kani::proof]
#[kani::unwind(8)]
fn c14_overlaying_iterator_2x2() {
    overlay_iterator_matches_reference::<2, 2>();
}

#[kani::proof]
#[kani::unwind(8)]
fn c14_overlaying_iterator_3x2() {
    overlay_iterator_matches_reference::<3, 2>();
}

#[kani::proof]
#[kani::unwind(8)]
fn c14_overlaying_iterator_2x4() {
    overlay_iterator_matches_reference::<2, 4>();
}

#[kani::proof]
#[kani::unwind(8)]
fn c14_overlaying_iterator_4x2() {
    overlay_iterator_matches_reference::<4, 2>();
}

/// C12: the fallible variant. The underlying sequence carries an error at a symbolic position `e` (or none).
/// Without an error the output is the reference listing. With an error, the output is a prefix of the reference
/// listing of (underlying[..e], overlay) that contains at least every entry up to the last underlying key before
/// the error, followed by exactly that error, followed by nothing.
fn overlay_result_iterator<const NU: usize, const NO: usize>() {
    let (u, nu) = any_sorted::<NU, u8>();
    let (o, no) = any_sorted::<NO, Option<u8>>();
    let e: usize = kani::any(); // index of the failing underlying read; e >= nu means no error
    let err_code: u8 = kani::any();
    let has_err = e < nu;
    let n_ok = if has_err { e } else { nu };
    let under = u.into_iter().take(nu).enumerate().map(move |(i, kv)| {
        if i == e { Err(err_code) } else { Ok(kv) }
    });
    let mut it = OverlayingResultIterator::new(under, o.into_iter().take(no));
    let last_ok_key: Option<u8> = if n_ok > 0 { Some(u[n_ok - 1].0) } else { None };
    let mut k: u8 = 0;
    let mut done = false;
    while k < KEYS {
        if !done {
            if let Some(v) = expected(&u, n_ok, &o, no, k) {
                match it.next() {
                    Some(Ok(kv)) => assert!(kv == (k, v)),
                    Some(Err(c)) => {
                        // cut short by the error: allowed only when there is one, and only past the last good key
                        assert!(has_err && c == err_code);
                        assert!(match last_ok_key { Some(l) => k > l, None => true });
                        done = true;
                    }
                    None => assert!(false),
                }
            }
        }
        k += 1;
    }
    if !done {
        if has_err {
            assert!(it.next() == Some(Err(err_code)));
        } else {
            assert!(it.next().is_none());
        }
    }
    // nothing after the error / the end, ever
    assert!(it.next().is_none());
    assert!(it.next().is_none());
    kani::cover!(has_err && done, "error cuts overlay entries reachable");
    kani::cover!(has_err && !done, "error after full listing reachable");
    kani::cover!(!has_err && nu == NU && no == NO, "no error full sizes reachable");
}

#[kani::proof]
#[kani::unwind(8)]
fn c12_overlaying_result_iterator_2x2() {
    overlay_result_iterator::<2, 2>();
}

#[kani::proof]
#[kani::unwind(8)]
fn c12_overlaying_result_iterator_3x3() {
    overlay_result_iterator::<3, 3>();
}

#[kani::proof]
#[kani::unwind(8)]
fn c12_overlaying_result_iterator_2x4() {
    overlay_result_iterator::<2, 4>();
}
