//! C29 (parser window level) — UtcDateTime::from_str returns a date-time or an error, never panics.
use core::str::FromStr;
use radix_common::time::*;

/// 21-byte input: the well-formed template with the last seconds digit replaced by an arbitrary 2-byte UTF-8
/// scalar (U+0080..U+07FF): 20 chars, 21 bytes. Must be rejected without panicking.
#[kani::proof]
#[kani::unwind(24)]
fn c29_from_str_two_byte_char_window() {
    let mut b = *b"2023-01-27T12:17:2__Z";
    let b0: u8 = kani::any();
    let b1: u8 = kani::any();
    kani::assume(b0 >= 0xC2 && b0 <= 0xDF && b1 >= 0x80 && b1 <= 0xBF);
    b[18] = b0;
    b[19] = b1;
    let s = unsafe { core::str::from_utf8_unchecked(&b) };
    let r = UtcDateTime::from_str(s);
    assert!(r.is_err());
    kani::cover!(true, "end reachable");
    core::mem::forget(r);
}

/// 20-byte ASCII input with one arbitrary ASCII byte in the seconds field: accepted iff it is a digit
/// (seconds 20..=29 are all valid), never panics.
#[kani::proof]
#[kani::unwind(24)]
fn c29_from_str_ascii_window() {
    let mut b = *b"2023-01-27T12:17:25Z";
    let x: u8 = kani::any();
    kani::assume(x < 0x80);
    b[18] = x;
    let s = unsafe { core::str::from_utf8_unchecked(&b) };
    let r = UtcDateTime::from_str(s);
    match &r {
        Ok(d) => {
            assert!(x >= b'0' && x <= b'9');
            assert!(d.second() == 20 + (x - b'0') && d.year() == 2023 && d.month() == 1 && d.day_of_month() == 27);
        }
        Err(_) => assert!(!(x >= b'0' && x <= b'9')),
    }
    kani::cover!(r.is_ok(), "accepted reachable");
    core::mem::forget(r);
}
