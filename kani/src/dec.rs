//! Limb-level (3 x u64, two's complement) reference arithmetic for 192-bit integers, used as the oracle for
//! Decimal add/sub/neg/compare. Deliberately written without bnum.
use radix_common::math::*;

#[derive(Clone, Copy, PartialEq, Eq)]
pub struct L3(pub [u64; 3]);

impl L3 {
    pub fn of(d: Decimal) -> L3 {
        L3(*d.attos().0.to_bits().digits())
    }
    pub fn dec(self) -> Decimal {
        Decimal::from_attos(I192::from_digits(self.0))
    }
    pub fn neg_sign(self) -> bool {
        (self.0[2] >> 63) == 1
    }
    pub fn is_zero(self) -> bool {
        self.0[0] == 0 && self.0[1] == 0 && self.0[2] == 0
    }
    /// wrapping a + b + carry_in
    pub fn add_c(self, o: L3, cin: bool) -> L3 {
        let (r0, c0a) = self.0[0].overflowing_add(o.0[0]);
        let (r0, c0b) = r0.overflowing_add(cin as u64);
        let c0 = c0a | c0b;
        let (r1, c1a) = self.0[1].overflowing_add(o.0[1]);
        let (r1, c1b) = r1.overflowing_add(c0 as u64);
        let c1 = c1a | c1b;
        let r2 = self.0[2].wrapping_add(o.0[2]).wrapping_add(c1 as u64);
        L3([r0, r1, r2])
    }
    pub fn not(self) -> L3 {
        L3([!self.0[0], !self.0[1], !self.0[2]])
    }
    /// exact signed addition; None on overflow of the 192-bit signed range
    pub fn checked_add(self, o: L3) -> Option<L3> {
        let r = self.add_c(o, false);
        if self.neg_sign() == o.neg_sign() && r.neg_sign() != self.neg_sign() {
            None
        } else {
            Some(r)
        }
    }
    pub fn checked_sub(self, o: L3) -> Option<L3> {
        let r = self.add_c(o.not(), true);
        if self.neg_sign() != o.neg_sign() && r.neg_sign() != self.neg_sign() {
            None
        } else {
            Some(r)
        }
    }
    pub fn is_min(self) -> bool {
        self.0[0] == 0 && self.0[1] == 0 && self.0[2] == 1u64 << 63
    }
    pub fn checked_neg(self) -> Option<L3> {
        if self.is_min() {
            None
        } else {
            Some(L3([0, 0, 0]).add_c(self.not(), true))
        }
    }
    /// signed comparison: -1, 0, 1
    pub fn cmp(self, o: L3) -> i8 {
        let (a2, b2) = (self.0[2] as i64, o.0[2] as i64);
        if a2 != b2 {
            return if a2 < b2 { -1 } else { 1 };
        }
        if self.0[1] != o.0[1] {
            return if self.0[1] < o.0[1] { -1 } else { 1 };
        }
        if self.0[0] != o.0[0] {
            return if self.0[0] < o.0[0] { -1 } else { 1 };
        }
        0
    }
}

pub fn any_decimal() -> Decimal {
    let d: [u64; 3] = kani::any();
    Decimal::from_attos(I192::from_digits(d))
}

pub fn any_nonneg_decimal() -> Decimal {
    let d: [u64; 3] = kani::any();
    kani::assume(d[2] >> 63 == 0);
    Decimal::from_attos(I192::from_digits(d))
}

pub fn same_dec(a: Decimal, b: L3) -> bool {
    let x = L3::of(a);
    x.0[0] == b.0[0] && x.0[1] == b.0[1] && x.0[2] == b.0[2]
}
