//! C27 (window level) — Decimal::from_str accepts exactly decimal numerals: a well-formed template with ONE
//! arbitrary ASCII byte substituted at a concrete position. Arbitrary strings of even 4 bytes exhaust memory under
//! CBMC (DESIGN section 4), hence the structural bound.
use core::str::FromStr;
use radix_common::math::*;

fn is_digit(b: u8) -> bool {
    b >= b'0' && b <= b'9'
}

/// "1.?5": the first fractional digit is arbitrary. Accepted => it is a digit and the value is exact.
/// unwind 21: bnum radix_base loops 19 times for radix 10 (largest power of 10 in a u64 digit); all other loops are shorter.
#[kani::proof]
#[kani::unwind(21)]
fn c27_decimal_from_str_fraction_window() {
    let mut b = *b"1.25";
    let x: u8 = kani::any();
    kani::assume(x < 0x80 && x != b'.');
    b[2] = x;
    let s = unsafe { core::str::from_utf8_unchecked(&b) };
    let r = Decimal::from_str(s);
    match r {
        Ok(d) => {
            assert!(is_digit(x));
            let expect = 1_000_000_000_000_000_000i128 + (x - b'0') as i128 * 100_000_000_000_000_000i128
                + 50_000_000_000_000_000i128;
            assert!(d == Decimal::from_attos(I192::from(expect)));
        }
        Err(_) => assert!(!is_digit(x)),
    }
    kani::cover!(is_digit(x), "digit reachable");
    kani::cover!(x == b'-', "minus sign in fraction reachable");
    core::mem::forget(r);
}

/// "?1.5": the first byte is arbitrary: accepted iff sign or digit, with the exact value.
#[kani::proof]
#[kani::unwind(21)]
fn c27_decimal_from_str_sign_window() {
    let mut b = *b"01.5";
    let x: u8 = kani::any();
    kani::assume(x < 0x80 && x != b'.');
    b[0] = x;
    let s = unsafe { core::str::from_utf8_unchecked(&b) };
    let r = Decimal::from_str(s);
    match r {
        Ok(d) => {
            let expect: i128 = if x == b'-' {
                -1_500_000_000_000_000_000
            } else if x == b'+' {
                1_500_000_000_000_000_000
            } else {
                assert!(is_digit(x));
                (x - b'0') as i128 * 10_000_000_000_000_000_000i128 + 1_500_000_000_000_000_000
            };
            assert!(d == Decimal::from_attos(I192::from(expect)));
        }
        Err(_) => assert!(!is_digit(x) && x != b'-' && x != b'+'),
    }
    kani::cover!(x == b'-', "minus reachable");
    core::mem::forget(r);
}
