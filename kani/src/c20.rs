//! C20 (length-prefix level) — SBOR size prefix: round trip and unique encoding.
//! Real code: `Encoder::write_size` (sbor/src/encoder.rs), `Decoder::read_size` (sbor/src/decoder.rs) through the
//! real VecEncoder / VecDecoder.
use sbor::*;

type Enc<'a> = VecEncoder<'a, NoCustomValueKind>;
type Dec<'a> = VecDecoder<'a, NoCustomValueKind>;

/// every usize: write_size succeeds iff size <= 0x0FFF_FFFF, and then read_size returns it and consumes exactly the
/// bytes written (1..=4). unwind 6: at most 4 loop iterations in either direction (+ margin for Vec growth loop).
#[kani::proof]
#[kani::unwind(6)]
fn c20_size_roundtrip() {
    let size: usize = kani::any();
    let mut buf: Vec<u8> = Vec::with_capacity(8);
    let r = {
        let mut enc = Enc::new(&mut buf, 4);
        enc.write_size(size)
    };
    let ok = r.is_ok();
    core::mem::forget(r);
    assert!(ok == (size <= 0x0FFF_FFFF));
    if ok {
        let n = buf.len();
        assert!(n >= 1 && n <= 4);
        let mut dec = Dec::new(&buf, 4);
        let back = dec.read_size();
        match back {
            Ok(s) => assert!(s == size),
            Err(_) => assert!(false),
        }
        assert!(dec.get_offset() == n);
        kani::cover!(n == 4, "four byte size reachable");
        kani::cover!(n == 1, "one byte size reachable");
    }
    kani::cover!(!ok, "too large reachable");
    core::mem::forget(buf);
}

/// canonicality: every 5-byte buffer; if read_size accepts, re-encoding the value gives exactly the consumed bytes
/// (so no two byte strings decode to the same size), at most 4 bytes are consumed, and nothing panics.
#[kani::proof]
#[kani::unwind(6)]
fn c20_size_canonical() {
    let bytes: [u8; 5] = kani::any();
    let len: usize = kani::any();
    kani::assume(len <= 5);
    let mut dec = Dec::new(&bytes[..len], 4);
    let r = dec.read_size();
    if let Ok(s) = r {
        let used = dec.get_offset();
        assert!(used >= 1 && used <= 4);
        assert!(s <= 0x0FFF_FFFF);
        let mut buf: Vec<u8> = Vec::with_capacity(8);
        let w = {
            let mut enc = Enc::new(&mut buf, 4);
            enc.write_size(s)
        };
        assert!(w.is_ok());
        core::mem::forget(w);
        assert!(buf.len() == used);
        let mut i = 0;
        while i < used {
            assert!(buf[i] == bytes[i]);
            i += 1;
        }
        kani::cover!(used == 4, "four byte accepted reachable");
        core::mem::forget(buf);
    } else {
        kani::cover!(len == 5, "rejection of a full buffer reachable");
    }
    core::mem::forget(r);
}
