//! C13 — readers/writer automaton of SubstateLockState (real code through the verif shims).
use radix_engine::kernel::substate_locks::verif::*;
use radix_engine::kernel::substate_locks::SubstateLockState;

fn any_state() -> SubstateLockState {
    if kani::any() {
        SubstateLockState::Write
    } else {
        let n: usize = kani::any();
        kani::assume(n < usize::MAX); // usize::MAX simultaneous readers is not reachable (one handle each)
        SubstateLockState::Read(n)
    }
}

/// One step from an arbitrary state refines the readers/writer automaton.
#[kani::proof]
fn c13_lock_state_step() {
    let s0 = any_state();
    let mut s = s0;
    let read_only: bool = kani::any();
    let granted = lock_state_try_lock(&mut s, read_only);
    match s0 {
        SubstateLockState::Write => {
            // a writer excludes everybody
            assert!(!granted);
            assert!(s == s0);
        }
        SubstateLockState::Read(n) => {
            if read_only {
                // readers coexist
                assert!(granted);
                assert!(s == SubstateLockState::Read(n + 1));
            } else {
                // a writer is admitted only when nobody holds the substate
                assert!(granted == (n == 0));
                if granted {
                    assert!(s == SubstateLockState::Write);
                } else {
                    assert!(s == s0);
                }
            }
        }
    }
    // is_locked <=> some holder
    assert!(lock_state_is_locked(&s0) == (s0 != SubstateLockState::Read(0)));
    if granted {
        assert!(lock_state_is_locked(&s));
        // unlock is the inverse of the matching grant
        let mut t = s;
        lock_state_unlock(&mut t);
        assert!(t == s0);
    }
    assert!(!lock_state_is_locked(&lock_state_no_lock()));
    kani::cover!(granted && !read_only, "write grant reachable");
    kani::cover!(!granted && !read_only && s0 != SubstateLockState::Write, "write refused by readers reachable");
    kani::cover!(!granted && read_only, "read refused by writer reachable");
}

/// k = 6 symbolic operations from no_lock against a counter model (readers, writer).
/// unwind 7 = 6 iterations + 1.
#[kani::proof]
#[kani::unwind(7)]
fn c13_lock_state_sequences() {
    let mut s = lock_state_no_lock();
    let mut readers: u8 = 0;
    let mut writer: bool = false;
    let mut i = 0;
    while i < 6 {
        let op: u8 = kani::any();
        kani::assume(op < 3);
        if op == 0 {
            let g = lock_state_try_lock(&mut s, true);
            assert!(g == !writer);
            if g {
                readers += 1;
            }
        } else if op == 1 {
            let g = lock_state_try_lock(&mut s, false);
            assert!(g == (!writer && readers == 0));
            if g {
                writer = true;
            }
        } else {
            // unlock is only ever called with a live handle
            kani::assume(writer || readers > 0);
            lock_state_unlock(&mut s);
            if writer {
                writer = false;
            } else {
                readers -= 1;
            }
        }
        // exclusion invariant and is_locked meaning after every step
        assert!(!(writer && readers > 0));
        assert!(lock_state_is_locked(&s) == (writer || readers > 0));
        assert!(s == if writer { SubstateLockState::Write } else { SubstateLockState::Read(readers as usize) });
        i += 1;
    }
    kani::cover!(readers == 3, "three concurrent readers reachable");
    kani::cover!(writer, "writer at end reachable");
}
