//! Native replay oracle for the database-overlay jobs (C14): drives the REAL SubstateDatabaseOverlay over an
//! InMemorySubstateDatabase through its public API.
//!
//! `overlay_run <tokens...>`:
//!   ROOT <node> <part> <sort> <val>                      put a value into the root database
//!   COMMIT { D <node> <part> <n> { <sort> S <val> | <sort> X }* | R <node> <part> <n> { <sort> <val> }* }* END
//!                                                        one commit to the overlay (delta / reset partitions)
//!   GET <node> <part> <sort>                             read through the overlay -> prints the value or `none`
//!   LIST <node> <part>                                   list through the overlay -> prints `[s:v,...]`
//!   MERGE                                                commit the overlay into the root, then reads go to the root
use radix_common::prelude::*;
use radix_substate_store_impls::memory_db::InMemorySubstateDatabase;
use radix_substate_store_impls::substate_database_overlay::*;
use radix_substate_store_interface::interface::*;
use std::io::BufRead;

fn pk(n: &str, p: &str) -> DbPartitionKey {
    DbPartitionKey {
        node_key: vec![n.parse().unwrap()],
        partition_num: p.parse().unwrap(),
    }
}
fn sk(s: &str) -> DbSortKey {
    DbSortKey(vec![s.parse().unwrap()])
}
fn val(s: &str) -> Vec<u8> {
    vec![s.parse().unwrap()]
}

fn overlay_run(a: &[&str]) -> String {
    let mut root = InMemorySubstateDatabase::standard();
    let mut i = 0;
    // root entries first
    let mut root_updates = DatabaseUpdates::default();
    while i < a.len() && a[i] == "ROOT" {
        let node = root_updates.node_updates.entry(vec![a[i + 1].parse().unwrap()]).or_default();
        let part = node
            .partition_updates
            .entry(a[i + 2].parse().unwrap())
            .or_insert(PartitionDatabaseUpdates::Delta { substate_updates: indexmap!() });
        if let PartitionDatabaseUpdates::Delta { substate_updates } = part {
            substate_updates.insert(sk(a[i + 3]), DatabaseUpdate::Set(val(a[i + 4])));
        }
        i += 5;
    }
    root.commit(&root_updates);
    let mut out: Vec<String> = vec![];
    let mut overlay = SubstateDatabaseOverlay::new_unmergeable(&root);
    while i < a.len() {
        match a[i] {
            "COMMIT" => {
                i += 1;
                let mut u = DatabaseUpdates::default();
                while a[i] != "END" {
                    let kind = a[i];
                    let node = u.node_updates.entry(vec![a[i + 1].parse().unwrap()]).or_default();
                    let part: DbPartitionNum = a[i + 2].parse().unwrap();
                    let n: usize = a[i + 3].parse().unwrap();
                    i += 4;
                    if kind == "D" {
                        let mut m = indexmap!();
                        for _ in 0..n {
                            if a[i + 1] == "S" {
                                m.insert(sk(a[i]), DatabaseUpdate::Set(val(a[i + 2])));
                                i += 3;
                            } else {
                                m.insert(sk(a[i]), DatabaseUpdate::Delete);
                                i += 2;
                            }
                        }
                        node.partition_updates.insert(part, PartitionDatabaseUpdates::Delta { substate_updates: m });
                    } else {
                        let mut m = indexmap!();
                        for _ in 0..n {
                            m.insert(sk(a[i]), val(a[i + 1]));
                            i += 2;
                        }
                        node.partition_updates.insert(part, PartitionDatabaseUpdates::Reset { new_substate_values: m });
                    }
                }
                i += 1;
                overlay.commit(&u);
                out.push("ok".into());
            }
            "GET" => {
                let r = overlay.get_raw_substate_by_db_key(&pk(a[i + 1], a[i + 2]), &sk(a[i + 3]));
                out.push(match r {
                    Some(v) => format!("{}", v[0]),
                    None => "none".into(),
                });
                i += 4;
            }
            "LIST" => {
                let items: Vec<String> = overlay
                    .list_raw_values_from_db_key(&pk(a[i + 1], a[i + 2]), None)
                    .map(|(k, v)| format!("{}:{}", k.0[0], v[0]))
                    .collect();
                out.push(format!("[{}]", items.join(",")));
                i += 3;
            }
            "LISTFROM" => {
                let from = sk(a[i + 3]);
                let items: Vec<String> = overlay
                    .list_raw_values_from_db_key(&pk(a[i + 1], a[i + 2]), Some(&from))
                    .map(|(k, v)| format!("{}:{}", k.0[0], v[0]))
                    .collect();
                out.push(format!("[{}]", items.join(",")));
                i += 4;
            }
            _ => return "bad-script".into(),
        }
    }
    format!("val {}", out.join(" "))
}

/// sorted_to_db <p0> <p1> <payload bytes...>  -> `val <len> <k0> <k1> <bytes from offset 22...>`
fn sorted_to_db(a: &[&str]) -> String {
    use radix_substate_store_interface::db_key_mapper::*;
    let b: Vec<u8> = a.iter().map(|x| x.parse().unwrap()).collect();
    let k = SpreadPrefixKeyMapper::sorted_to_db_sort_key(&([b[0], b[1]], b[2..].to_vec()));
    let tail: Vec<String> = k.0.iter().skip(22).map(|x| x.to_string()).collect();
    format!("val {} {} {} {}", k.0.len(), k.0[0], k.0[1], tail.join(" "))
}

/// sorted_from_db <db key bytes...>  -> `val <q0> <q1> <payload len> <payload bytes...>`
fn sorted_from_db(a: &[&str]) -> String {
    use radix_substate_store_interface::db_key_mapper::*;
    let b: Vec<u8> = a.iter().map(|x| x.parse().unwrap()).collect();
    let (q, c) = SpreadPrefixKeyMapper::sorted_from_db_sort_key(&DbSortKey(b));
    let pay: Vec<String> = c.iter().map(|x| x.to_string()).collect();
    format!("val {} {} {} {}", q[0], q[1], c.len(), pay.join(" "))
}

fn run(a: &[&str]) -> String {
    match a[0] {
        "sorted_to_db" => sorted_to_db(&a[1..]),
        "sorted_from_db" => sorted_from_db(&a[1..]),
        "overlay_run" => overlay_run(&a[1..]),
        _ => "unknown-op".to_string(),
    }
}

fn main() {
    std::panic::set_hook(Box::new(|_| {}));
    let stdin = std::io::stdin();
    for line in stdin.lock().lines() {
        let line = line.unwrap();
        let a: Vec<&str> = line.split_whitespace().collect();
        if a.is_empty() {
            continue;
        }
        let r = std::panic::catch_unwind(|| run(&a));
        match r {
            Ok(s) => println!("{}", s),
            Err(e) => {
                let m = e
                    .downcast_ref::<String>()
                    .cloned()
                    .or_else(|| e.downcast_ref::<&str>().map(|s| s.to_string()))
                    .unwrap_or_default();
                println!("panic {}", m.replace('\n', " "))
            }
        }
    }
}
