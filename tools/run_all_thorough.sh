#!/bin/bash
# runs every claimed check's thorough command sequentially; logs under /tmp/allthorough/
mkdir -p /tmp/allthorough
cd /verif
for id in $(python3-vt -c "import json; print(' '.join(c['property_id'] for c in json.load(open('MANIFEST.json'))['checks']))"); do
  s=$(date +%s)
  ./check $id --tier thorough > /tmp/allthorough/$id.log 2>&1
  rc=$?
  echo "$id rc=$rc $(( $(date +%s) - s ))s" >> /tmp/allthorough/summary.txt
done
echo ALLDONE >> /tmp/allthorough/summary.txt
