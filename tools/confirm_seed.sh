#!/bin/bash
# usage: confirm_seed.sh <worktree> <seed-id> <crate> <demo-test-name> <demo-rel-path> [extra existing-test cmd]
# Confirms in the scratch worktree: (1) with the patch the crate's existing tests pass and the demo fails,
# (2) without the patch the demo passes. Stores patch.diff + demo under /verif/seeded/<seed-id>/.
set -u
WT=$1; SID=$2; CRATE=$3; DEMO=$4; DEMOPATH=$5; EXTRA=${6:-}
export CARGO_NET_OFFLINE=true CARGO_TARGET_DIR=$WT-target
cd $WT || exit 3
OUT=/verif/seeded/$SID; mkdir -p $OUT
LOG=$OUT/confirm.log; : > $LOG
git stash list >/dev/null
# make sure patch is applied
git apply -R --check patch.diff 2>/dev/null || git apply patch.diff
echo "== with patch: existing tests of $CRATE" | tee -a $LOG
cargo test --offline -p $CRATE --lib 2>&1 | grep -E "^test result|error(\[|:)" | tee -a $LOG
if [ -n "$EXTRA" ]; then echo "== with patch: $EXTRA" | tee -a $LOG; bash -c "$EXTRA" 2>&1 | grep -E "^test result|error(\[|:)" | tee -a $LOG; fi
echo "== with patch: demo (must fail)" | tee -a $LOG
cargo test --offline -p $CRATE --test $DEMO 2>&1 | grep -E "^test result|panicked|error(\[|:)" | head -8 | tee -a $LOG
git apply -R patch.diff
echo "== without patch: demo (must pass)" | tee -a $LOG
cargo test --offline -p $CRATE --test $DEMO 2>&1 | grep -E "^test result|panicked|error(\[|:)" | head -8 | tee -a $LOG
git apply patch.diff
cp patch.diff $OUT/patch.diff
cp $DEMOPATH $OUT/$(basename $DEMOPATH)
echo stored in $OUT
