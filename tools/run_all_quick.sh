#!/bin/bash
# runs every claimed check's quick command sequentially; logs under /tmp/allquick/
mkdir -p /tmp/allquick
cd /verif
for id in $(python3-vt -c "import json; print(' '.join(c['property_id'] for c in json.load(open('MANIFEST.json'))['checks']))"); do
  s=$(date +%s)
  ./check $id --tier quick > /tmp/allquick/$id.log 2>&1
  rc=$?
  echo "$id rc=$rc $(( $(date +%s) - s ))s" >> /tmp/allquick/summary.txt
done
echo ALLDONE >> /tmp/allquick/summary.txt
