#!/bin/bash
# usage: test_seeds.sh "<seed-dir>:<prop>[:only]" ...
cd /verif
for s in "$@"; do
  sid=$(echo $s|cut -d: -f1); pid=$(echo $s|cut -d: -f2); only=$(echo $s|cut -d: -f3)
  git -C /repo apply /verif/seeded/$sid/patch.diff || { echo "$sid APPLY-FAILED"; continue; }
  if [ -n "$only" ]; then ./check $pid --only $only > /tmp/seedrun_$sid.log 2>&1; else ./check $pid > /tmp/seedrun_$sid.log 2>&1; fi
  rc=$?
  git -C /repo checkout -- .
  echo "$sid prop=$pid rc=$rc"
  grep -E "VIOLATION|violated|NOT-DECIDED" /tmp/seedrun_$sid.log | cut -c1-260 | head -4
done
git -C /repo status --short | head -3
