//! Scripted stand-in for the system layer (native replay of API-driven blueprint code): every `call_method`
//! / `call_direct_access_method` is answered from a per-method queue of SBOR payloads prepared by the scenario and is
//! recorded; every other system call is `unimplemented!()` so that reaching it fails the replay loudly.
#![allow(unused_variables)]
use radix_common::prelude::*;
use radix_engine::errors::RuntimeError;
use radix_engine_interface::api::*;
use radix_engine_interface::api::actor_api::EventFlags;
use radix_engine_interface::api::field_api::*;
use radix_engine_interface::api::key_value_entry_api::*;
use radix_engine_interface::api::key_value_store_api::*;
use radix_engine_interface::api::object_api::*;
use radix_engine_interface::blueprints::resource::LiquidFungibleResource;
use radix_engine_interface::prelude::*;
use radix_engine_interface::types::*;
use std::collections::{BTreeMap, VecDeque};

#[derive(Default)]
pub struct MockApi {
    pub answers: BTreeMap<String, VecDeque<Vec<u8>>>,
    pub calls: Vec<(NodeId, String, Vec<u8>)>,
    /// the actor's own fields (field index -> SBOR payload); a field handle is the field index
    pub fields: BTreeMap<u8, Vec<u8>>,
    pub field_writes: Vec<(u8, Vec<u8>)>,
    /// answers that are not consumed (method name -> payload), consulted after the queues
    pub defaults: BTreeMap<String, Vec<u8>>,
    /// kernel-level substates (one per node) and the open handles
    pub substates: BTreeMap<NodeId, IndexedScryptoValue>,
    pub handles: Vec<NodeId>,
    pub outer_object: Option<GlobalAddress>,
    /// answers keyed by (receiver node, method), consulted first and not consumed
    pub per_node: BTreeMap<(NodeId, String), Vec<u8>>,
    /// handles passed to kernel_close_substate
    pub closed: Vec<u32>,
    /// outer object (resource manager) per node, consulted before `outer_object`
    pub outer_objects: BTreeMap<NodeId, GlobalAddress>,
    /// the actor's key-value collections: (collection index, encoded key) -> encoded Option<value>; absent = None
    pub kv: BTreeMap<(u8, Vec<u8>), Vec<u8>>,
    pub kv_handles: Vec<(u8, Vec<u8>)>,
    pub kv_writes: Vec<(u8, Vec<u8>, Vec<u8>)>,
    /// methods whose call fails (a RuntimeError is returned instead of an answer)
    pub fail_methods: std::collections::BTreeSet<String>,
    /// optional resource ledger: amounts per bucket / vault node, divisibility and supply per resource; when enabled the
    /// bucket / vault / resource-manager methods are answered from it instead of from scripted answers
    /// the actor's index collections: (collection index, encoded key) -> encoded value
    pub index: BTreeMap<(u8, Vec<u8>), Vec<u8>>,
    pub ledger: bool,
    pub amounts: BTreeMap<NodeId, Decimal>,
    pub divisibility: BTreeMap<GlobalAddress, u8>,
    pub supply: BTreeMap<GlobalAddress, Decimal>,
    pub next_node: u8,
}

impl MockApi {
    pub fn answer<T: ScryptoEncode>(&mut self, method: &str, value: &T) {
        self.answers.entry(method.to_string()).or_default().push_back(scrypto_encode(value).unwrap());
    }
    fn pop(&mut self, receiver: &NodeId, method: &str, args: Vec<u8>) -> Result<Vec<u8>, RuntimeError> {
        self.calls.push((*receiver, method.to_string(), args));
        if self.fail_methods.contains(method) {
            return Err(RuntimeError::SystemError(radix_engine::errors::SystemError::NotAnObject));
        }
        if self.ledger {
            if let Some(r) = self.ledger_call(receiver, method) {
                return r;
            }
        }
        if let Some(v) = self.per_node.get(&(*receiver, method.to_string())) {
            return Ok(v.clone());
        }
        if let Some(v) = self.answers.get_mut(method).and_then(|q| q.pop_front()) {
            return Ok(v);
        }
        if let Some(v) = self.defaults.get(method) {
            return Ok(v.clone());
        }
        // default answers of the vault component (an opaque bucket / proof node, a fixed amount)
        let own = |entity: EntityType| {
            let mut b = [7u8; NodeId::LENGTH];
            b[0] = entity as u8;
            Own(NodeId(b))
        };
        match method {
            "get_amount" => Ok(scrypto_encode(&Decimal::from(5u32)).unwrap()),
            "take" | "take_advanced" | "take_non_fungibles" => {
                Ok(scrypto_encode(&Bucket(own(EntityType::InternalGenericComponent))).unwrap())
            }
            "create_proof_of_amount" | "create_proof_of_non_fungibles" => {
                Ok(scrypto_encode(&Proof(own(EntityType::InternalGenericComponent))).unwrap())
            }
            "get_non_fungible_local_ids" => Ok(scrypto_encode(&IndexSet::<NonFungibleLocalId>::new()).unwrap()),
            _ => panic!("MockApi: no scripted answer for method {}", method),
        }
    }
}

impl MockApi {
    fn ledger_err() -> RuntimeError {
        RuntimeError::SystemError(radix_engine::errors::SystemError::NotAnObject)
    }
    fn fresh_node(&mut self, resource: GlobalAddress, amount: Decimal) -> NodeId {
        self.next_node += 1;
        let mut b = [self.next_node; NodeId::LENGTH];
        b[0] = EntityType::InternalGenericComponent as u8;
        b[1] = 200;
        let n = NodeId(b);
        self.amounts.insert(n, amount);
        self.outer_objects.insert(n, resource);
        n
    }
    fn round_down(amount: Decimal, divisibility: u8) -> Decimal {
        amount.checked_round(divisibility as i32, RoundingMode::ToNegativeInfinity).unwrap()
    }
    /// the resource ledger: Some(answer) when the method is one it models
    fn ledger_call(&mut self, receiver: &NodeId, method: &str) -> Option<Result<Vec<u8>, RuntimeError>> {
        use radix_engine_interface::blueprints::resource::*;
        let args = self.calls.last().unwrap().2.clone();
        let enc = |v: &dyn Fn() -> Vec<u8>| Some(Ok(v()));
        match method {
            BUCKET_GET_AMOUNT_IDENT | VAULT_GET_AMOUNT_IDENT if self.amounts.contains_key(receiver) => {
                let a = self.amounts[receiver];
                enc(&|| scrypto_encode(&a).unwrap())
            }
            BUCKET_TAKE_ADVANCED_IDENT | VAULT_TAKE_ADVANCED_IDENT | BUCKET_TAKE_IDENT | VAULT_TAKE_IDENT
                if self.amounts.contains_key(receiver) =>
            {
                let (amount, strategy) = if method == BUCKET_TAKE_ADVANCED_IDENT || method == VAULT_TAKE_ADVANCED_IDENT {
                    let i: BucketTakeAdvancedInput = scrypto_decode(&args).unwrap();
                    (i.amount, i.withdraw_strategy)
                } else {
                    let i: BucketTakeInput = scrypto_decode(&args).unwrap();
                    (i.amount, WithdrawStrategy::Exact)
                };
                let resource = self.outer_objects[receiver];
                let div = *self.divisibility.get(&resource).unwrap_or(&18);
                let rounded = Self::round_down(amount, div);
                let taken = match strategy {
                    WithdrawStrategy::Exact => {
                        if rounded != amount {
                            return Some(Err(Self::ledger_err()));
                        }
                        amount
                    }
                    WithdrawStrategy::Rounded(RoundingMode::ToNegativeInfinity) | WithdrawStrategy::Rounded(RoundingMode::ToZero) => rounded,
                    WithdrawStrategy::Rounded(_) => panic!("MockApi ledger: rounding mode not modelled"),
                };
                if taken.is_negative() || taken > self.amounts[receiver] {
                    return Some(Err(Self::ledger_err()));
                }
                let left = self.amounts[receiver].checked_sub(taken).unwrap();
                self.amounts.insert(*receiver, left);
                let n = self.fresh_node(resource, taken);
                enc(&|| scrypto_encode(&Bucket(Own(n))).unwrap())
            }
            VAULT_PUT_IDENT | BUCKET_PUT_IDENT if self.amounts.contains_key(receiver) => {
                let i: BucketPutInput = scrypto_decode(&args).unwrap();
                let src = i.bucket.0 .0;
                let a = self.amounts.remove(&src).unwrap_or(Decimal::ZERO);
                let total = self.amounts[receiver].checked_add(a).unwrap();
                self.amounts.insert(*receiver, total);
                enc(&|| scrypto_encode(&()).unwrap())
            }
            FUNGIBLE_RESOURCE_MANAGER_MINT_IDENT => {
                let i: FungibleResourceManagerMintInput = scrypto_decode(&args).unwrap();
                let resource = GlobalAddress::new_or_panic(receiver.0);
                let s0 = *self.supply.get(&resource).unwrap_or(&Decimal::ZERO);
                self.supply.insert(resource, s0.checked_add(i.amount).unwrap());
                let n = self.fresh_node(resource, i.amount);
                enc(&|| scrypto_encode(&Bucket(Own(n))).unwrap())
            }
            RESOURCE_MANAGER_BURN_IDENT => {
                let i: ResourceManagerBurnInput = scrypto_decode(&args).unwrap();
                let resource = GlobalAddress::new_or_panic(receiver.0);
                let a = self.amounts.remove(&i.bucket.0 .0).unwrap_or(Decimal::ZERO);
                let s0 = *self.supply.get(&resource).unwrap_or(&Decimal::ZERO);
                self.supply.insert(resource, s0.checked_sub(a).unwrap());
                enc(&|| scrypto_encode(&()).unwrap())
            }
            RESOURCE_MANAGER_GET_TOTAL_SUPPLY_IDENT => {
                let resource = GlobalAddress::new_or_panic(receiver.0);
                let s0 = *self.supply.get(&resource).unwrap_or(&Decimal::ZERO);
                enc(&|| scrypto_encode(&Some(s0)).unwrap())
            }
            RESOURCE_MANAGER_GET_RESOURCE_TYPE_IDENT => {
                let resource = GlobalAddress::new_or_panic(receiver.0);
                let d = *self.divisibility.get(&resource).unwrap_or(&18);
                enc(&|| scrypto_encode(&ResourceType::Fungible { divisibility: d }).unwrap())
            }
            RESOURCE_MANAGER_DROP_EMPTY_BUCKET_IDENT => {
                let i: ResourceManagerDropEmptyBucketInput = scrypto_decode(&args).unwrap();
                let a = self.amounts.remove(&i.bucket.0 .0).unwrap_or(Decimal::ZERO);
                if !a.is_zero() {
                    return Some(Err(Self::ledger_err()));
                }
                enc(&|| scrypto_encode(&()).unwrap())
            }
            _ => None,
        }
    }
}

impl SystemActorApi<RuntimeError> for MockApi {
    fn actor_get_blueprint_id(&mut self) -> Result<BlueprintId, RuntimeError> {
        unimplemented!("MockApi::actor_get_blueprint_id")
    }
    fn actor_get_node_id(&mut self, ref_handle: ActorRefHandle) -> Result<NodeId, RuntimeError> {
        // a fixed node per reference kind (self, outer, global, auth zone)
        let mut b = [0x40u8 + ref_handle as u8; NodeId::LENGTH];
        b[0] = EntityType::InternalGenericComponent as u8;
        Ok(NodeId(b))
    }
    fn actor_is_feature_enabled( &mut self, state_handle: ActorStateHandle, feature: &str, ) -> Result<bool, RuntimeError> {
        unimplemented!("MockApi::actor_is_feature_enabled")
    }
    fn actor_open_field( &mut self, state_handle: ActorStateHandle, field: FieldIndex, flags: LockFlags, ) -> Result<FieldHandle, RuntimeError> {
        Ok(field as u32)
    }
    fn actor_emit_event( &mut self, event_name: String, event_data: Vec<u8>, event_flags: EventFlags, ) -> Result<(), RuntimeError> {
        Ok(())
    }
}

impl SystemActorIndexApi<RuntimeError> for MockApi {
    fn actor_index_drain(
        &mut self,
        object_handle: ActorStateHandle,
        collection_index: CollectionIndex,
        limit: u32,
    ) -> Result<Vec<(Vec<u8>, Vec<u8>)>, RuntimeError> {
        unimplemented!("MockApi::actor_index_drain")
    }
    fn actor_index_insert( &mut self, object_handle: ActorStateHandle, collection_index: CollectionIndex, key: Vec<u8>, buffer: Vec<u8>, ) -> Result<(), RuntimeError> {
        self.index.insert((collection_index, key), buffer);
        Ok(())
    }
    fn actor_index_remove( &mut self, object_handle: ActorStateHandle, collection_index: CollectionIndex, key: Vec<u8>, ) -> Result<Option<Vec<u8>>, RuntimeError> {
        Ok(self.index.remove(&(collection_index, key)))
    }
    fn actor_index_scan_keys( &mut self, object_handle: ActorStateHandle, collection_index: CollectionIndex, limit: u32, ) -> Result<Vec<Vec<u8>>, RuntimeError> {
        unimplemented!("MockApi::actor_index_scan_keys")
    }
}

impl SystemActorKeyValueEntryApi<RuntimeError> for MockApi {
    fn actor_open_key_value_entry( &mut self, object_handle: ActorStateHandle, collection_index: CollectionIndex, key: &Vec<u8>, flags: LockFlags, ) -> Result<KeyValueEntryHandle, RuntimeError> {
        self.kv_handles.push((collection_index, key.clone()));
        Ok((self.kv_handles.len() - 1) as u32)
    }
    fn actor_remove_key_value_entry( &mut self, object_handle: ActorStateHandle, collection_index: CollectionIndex, key: &Vec<u8>, ) -> Result<Vec<u8>, RuntimeError> {
        unimplemented!("MockApi::actor_remove_key_value_entry")
    }
}

impl SystemActorSortedIndexApi<RuntimeError> for MockApi {
    fn actor_sorted_index_insert( &mut self, object_handle: ActorStateHandle, collection_index: CollectionIndex, sorted_key: SortedKey, buffer: Vec<u8>, ) -> Result<(), RuntimeError> {
        unimplemented!("MockApi::actor_sorted_index_insert")
    }
    fn actor_sorted_index_remove( &mut self, object_handle: ActorStateHandle, collection_index: CollectionIndex, sorted_key: &SortedKey, ) -> Result<Option<Vec<u8>>, RuntimeError> {
        unimplemented!("MockApi::actor_sorted_index_remove")
    }
    fn actor_sorted_index_scan( &mut self, object_handle: ActorStateHandle, collection_index: CollectionIndex, count: u32, ) -> Result<Vec<(SortedKey, Vec<u8>)>, RuntimeError> {
        unimplemented!("MockApi::actor_sorted_index_scan")
    }
}

impl SystemBlueprintApi<RuntimeError> for MockApi {
    fn call_function( &mut self, package_address: PackageAddress, blueprint_name: &str, function_name: &str, args: Vec<u8>, ) -> Result<Vec<u8>, RuntimeError> {
        unimplemented!("MockApi::call_function")
    }
    fn resolve_blueprint_type( &mut self, blueprint_type_id: &BlueprintTypeIdentifier, ) -> Result<(Rc<VersionedScryptoSchema>, ScopedTypeId), RuntimeError> {
        unimplemented!("MockApi::resolve_blueprint_type")
    }
}

impl SystemCostingApi<RuntimeError> for MockApi {
    fn start_lock_fee(&mut self, amount: Decimal, contingent: bool) -> Result<bool, RuntimeError> {
        unimplemented!("MockApi::start_lock_fee")
    }
    fn lock_fee(&mut self, locked_fee: LiquidFungibleResource, contingent: bool) {
        unimplemented!("MockApi::lock_fee")
    }
    fn consume_cost_units(&mut self, costing_entry: ClientCostingEntry) -> Result<(), RuntimeError> {
        Ok(())
    }
    fn execution_cost_unit_limit(&mut self) -> Result<u32, RuntimeError> {
        unimplemented!("MockApi::execution_cost_unit_limit")
    }
    fn execution_cost_unit_price(&mut self) -> Result<Decimal, RuntimeError> {
        unimplemented!("MockApi::execution_cost_unit_price")
    }
    fn finalization_cost_unit_limit(&mut self) -> Result<u32, RuntimeError> {
        unimplemented!("MockApi::finalization_cost_unit_limit")
    }
    fn finalization_cost_unit_price(&mut self) -> Result<Decimal, RuntimeError> {
        unimplemented!("MockApi::finalization_cost_unit_price")
    }
    fn usd_price(&mut self) -> Result<Decimal, RuntimeError> {
        unimplemented!("MockApi::usd_price")
    }
    fn max_per_function_royalty_in_xrd(&mut self) -> Result<Decimal, RuntimeError> {
        unimplemented!("MockApi::max_per_function_royalty_in_xrd")
    }
    fn tip_percentage_truncated(&mut self) -> Result<u32, RuntimeError> {
        unimplemented!("MockApi::tip_percentage_truncated")
    }
    fn fee_balance(&mut self) -> Result<Decimal, RuntimeError> {
        unimplemented!("MockApi::fee_balance")
    }
}

impl SystemExecutionTraceApi<RuntimeError> for MockApi {
    fn update_instruction_index(&mut self, new_index: usize) -> Result<(), RuntimeError> {
        Ok(())
    }
}

impl SystemFieldApi<RuntimeError> for MockApi {
    fn field_read(&mut self, handle: FieldHandle) -> Result<Vec<u8>, RuntimeError> {
        Ok(self.fields.get(&(handle as u8)).expect("MockApi: field not set").clone())
    }
    fn field_write(&mut self, handle: FieldHandle, buffer: Vec<u8>) -> Result<(), RuntimeError> {
        self.field_writes.push((handle as u8, buffer.clone()));
        self.fields.insert(handle as u8, buffer);
        Ok(())
    }
    fn field_lock(&mut self, handle: FieldHandle) -> Result<(), RuntimeError> {
        unimplemented!("MockApi::field_lock")
    }
    fn field_close(&mut self, handle: FieldHandle) -> Result<(), RuntimeError> {
        Ok(())
    }
}

impl SystemKeyValueEntryApi<RuntimeError> for MockApi {
    fn key_value_entry_get(&mut self, handle: KeyValueEntryHandle) -> Result<Vec<u8>, RuntimeError> {
        let k = self.kv_handles[handle as usize].clone();
        Ok(self.kv.get(&k).cloned().unwrap_or_else(|| scrypto_encode(&Option::<()>::None).unwrap()))
    }
    fn key_value_entry_set( &mut self, handle: KeyValueEntryHandle, buffer: Vec<u8>, ) -> Result<(), RuntimeError> {
        let k = self.kv_handles[handle as usize].clone();
        // the stored form is the encoded Option<value>: wrap the raw value bytes as Some(..)
        let value: ScryptoValue = scrypto_decode(&buffer).unwrap();
        let stored = scrypto_encode(&Some(value)).unwrap();
        self.kv_writes.push((k.0, k.1.clone(), buffer));
        self.kv.insert(k, stored);
        Ok(())
    }
    fn key_value_entry_remove(&mut self, handle: KeyValueEntryHandle) -> Result<Vec<u8>, RuntimeError> {
        unimplemented!("MockApi::key_value_entry_remove")
    }
    fn key_value_entry_lock(&mut self, handle: KeyValueEntryHandle) -> Result<(), RuntimeError> {
        unimplemented!("MockApi::key_value_entry_lock")
    }
    fn key_value_entry_close(&mut self, handle: KeyValueEntryHandle) -> Result<(), RuntimeError> {
        Ok(())
    }
}

impl SystemKeyValueStoreApi<RuntimeError> for MockApi {
    fn key_value_store_new(&mut self, data_schema: KeyValueStoreDataSchema) -> Result<NodeId, RuntimeError> {
        unimplemented!("MockApi::key_value_store_new")
    }
    fn key_value_store_open_entry( &mut self, node_id: &NodeId, key: &Vec<u8>, flags: LockFlags, ) -> Result<KeyValueEntryHandle, RuntimeError> {
        unimplemented!("MockApi::key_value_store_open_entry")
    }
    fn key_value_store_remove_entry( &mut self, node_id: &NodeId, key: &Vec<u8>, ) -> Result<Vec<u8>, RuntimeError> {
        unimplemented!("MockApi::key_value_store_remove_entry")
    }
}

impl SystemApi<RuntimeError> for MockApi {
}

impl SystemObjectApi<RuntimeError> for MockApi {
    fn globalize_with_address_and_create_inner_object_and_emit_event(
        &mut self,
        node_id: NodeId,
        modules: IndexMap<AttachedModuleId, NodeId>,
        address_reservation: GlobalAddressReservation,
        inner_object_blueprint: &str,
        inner_object_fields: IndexMap<u8, FieldValue>,
        event_name: &str,
        event_data: Vec<u8>,
    ) -> Result<(GlobalAddress, NodeId), RuntimeError> {
        unimplemented!("MockApi::globalize_with_address_and_create_inner_object_and_emit_event")
    }
    fn new_object( &mut self, blueprint_ident: &str, features: Vec<&str>, generic_args: GenericArgs, fields: IndexMap<FieldIndex, FieldValue>, kv_entries: IndexMap<CollectionIndex, IndexMap<Vec<u8>, KVEntry>>, ) -> Result<NodeId, RuntimeError> {
        unimplemented!("MockApi::new_object")
    }
    fn drop_object(&mut self, node_id: &NodeId) -> Result<Vec<Vec<u8>>, RuntimeError> {
        unimplemented!("MockApi::drop_object")
    }
    fn get_blueprint_id(&mut self, node_id: &NodeId) -> Result<BlueprintId, RuntimeError> {
        unimplemented!("MockApi::get_blueprint_id")
    }
    fn get_outer_object(&mut self, node_id: &NodeId) -> Result<GlobalAddress, RuntimeError> {
        // the outer object of a proof / bucket / vault node is its resource manager: the scenario's resource
        if let Some(a) = self.outer_objects.get(node_id) {
            return Ok(*a);
        }
        Ok(self.outer_object.unwrap_or(XRD.into()))
    }
    fn allocate_global_address( &mut self, blueprint_id: BlueprintId, ) -> Result<(GlobalAddressReservation, GlobalAddress), RuntimeError> {
        unimplemented!("MockApi::allocate_global_address")
    }
    fn allocate_virtual_global_address( &mut self, blueprint_id: BlueprintId, global_address: GlobalAddress, ) -> Result<GlobalAddressReservation, RuntimeError> {
        unimplemented!("MockApi::allocate_virtual_global_address")
    }
    fn get_reservation_address(&mut self, node_id: &NodeId) -> Result<GlobalAddress, RuntimeError> {
        unimplemented!("MockApi::get_reservation_address")
    }
    fn globalize( &mut self, node_id: NodeId, modules: IndexMap<AttachedModuleId, NodeId>, address_reservation: Option<GlobalAddressReservation>, ) -> Result<GlobalAddress, RuntimeError> {
        unimplemented!("MockApi::globalize")
    }
    fn call_method( &mut self, receiver: &NodeId, method_name: &str, args: Vec<u8>, ) -> Result<Vec<u8>, RuntimeError> {
        self.pop(receiver, method_name, args)
    }
    fn call_direct_access_method( &mut self, receiver: &NodeId, method_name: &str, args: Vec<u8>, ) -> Result<Vec<u8>, RuntimeError> {
        self.pop(receiver, method_name, args)
    }
    fn call_module_method( &mut self, receiver: &NodeId, module_id: AttachedModuleId, method_name: &str, args: Vec<u8>, ) -> Result<Vec<u8>, RuntimeError> {
        self.pop(receiver, method_name, args)
    }
}

impl SystemTransactionRuntimeApi<RuntimeError> for MockApi {
    fn bech32_encode_address(&mut self, address: GlobalAddress) -> Result<String, RuntimeError> {
        unimplemented!("MockApi::bech32_encode_address")
    }
    fn get_transaction_hash(&mut self) -> Result<Hash, RuntimeError> {
        unimplemented!("MockApi::get_transaction_hash")
    }
    fn generate_ruid(&mut self) -> Result<[u8; 32], RuntimeError> {
        unimplemented!("MockApi::generate_ruid")
    }
    fn emit_log(&mut self, level: Level, message: String) -> Result<(), RuntimeError> {
        Ok(())
    }
    fn panic(&mut self, message: String) -> Result<(), RuntimeError> {
        unimplemented!("MockApi::panic")
    }
}


impl radix_engine::kernel::kernel_api::KernelSubstateApi<()> for MockApi {
    fn kernel_mark_substate_as_transient(
        &mut self,
        node_id: NodeId,
        partition_num: PartitionNumber,
        key: SubstateKey,
    ) -> Result<(), RuntimeError> {
        unimplemented!("MockApi::kernel_mark_substate_as_transient")
    }
    fn kernel_open_substate_with_default<F: FnOnce() -> IndexedScryptoValue>(
        &mut self,
        node_id: &NodeId,
        partition_num: PartitionNumber,
        substate_key: &SubstateKey,
        flags: LockFlags,
        default: Option<F>,
        lock_data: (),
    ) -> Result<u32, RuntimeError> {
        assert!(self.substates.contains_key(node_id), "MockApi: no substate for node");
        self.handles.push(*node_id);
        Ok((self.handles.len() - 1) as u32)
    }
    fn kernel_get_lock_data(&mut self, lock_handle: u32) -> Result<(), RuntimeError> {
        Ok(())
    }
    fn kernel_close_substate(&mut self, lock_handle: u32) -> Result<(), RuntimeError> {
        self.closed.push(lock_handle);
        Ok(())
    }
    fn kernel_read_substate(&mut self, lock_handle: u32) -> Result<&IndexedScryptoValue, RuntimeError> {
        Ok(&self.substates[&self.handles[lock_handle as usize]])
    }
    fn kernel_write_substate(&mut self, lock_handle: u32, value: IndexedScryptoValue) -> Result<(), RuntimeError> {
        unimplemented!("MockApi::kernel_write_substate")
    }
    fn kernel_set_substate(
        &mut self,
        node_id: &NodeId,
        partition_num: PartitionNumber,
        substate_key: SubstateKey,
        value: IndexedScryptoValue,
    ) -> Result<(), RuntimeError> {
        unimplemented!("MockApi::kernel_set_substate")
    }
    fn kernel_remove_substate(
        &mut self,
        node_id: &NodeId,
        partition_num: PartitionNumber,
        substate_key: &SubstateKey,
    ) -> Result<Option<IndexedScryptoValue>, RuntimeError> {
        unimplemented!("MockApi::kernel_remove_substate")
    }
    fn kernel_scan_sorted_substates(
        &mut self,
        node_id: &NodeId,
        partition_num: PartitionNumber,
        count: u32,
    ) -> Result<Vec<(SortedKey, IndexedScryptoValue)>, RuntimeError> {
        unimplemented!("MockApi::kernel_scan_sorted_substates")
    }
    fn kernel_scan_keys<K: radix_substate_store_interface::db_key_mapper::SubstateKeyContent>(
        &mut self,
        node_id: &NodeId,
        partition_num: PartitionNumber,
        count: u32,
    ) -> Result<Vec<SubstateKey>, RuntimeError> {
        unimplemented!("MockApi::kernel_scan_keys")
    }
    fn kernel_drain_substates<K: radix_substate_store_interface::db_key_mapper::SubstateKeyContent>(
        &mut self,
        node_id: &NodeId,
        partition_num: PartitionNumber,
        count: u32,
    ) -> Result<Vec<(SubstateKey, IndexedScryptoValue)>, RuntimeError> {
        unimplemented!("MockApi::kernel_drain_substates")
    }
}
