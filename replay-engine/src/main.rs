//! Native replay / translator self-test oracle for Engine M jobs on radix-engine: calls the REAL functions
//! (through the add-only `verif_*` forwarding shims behind the cargo feature radixdlt_radixdlt_scrypto_verif)
//! with concrete arguments read from stdin, one request per line; prints one result line per request.
use radix_common::math::*;
use radix_engine::blueprints::consensus_manager::*;
use radix_engine::blueprints::pool::v1::v1_1::*;
use radix_engine::errors::RuntimeError;
use std::io::BufRead;
use std::str::FromStr;

fn i192(s: &str) -> I192 {
    I192::from_str(s).expect("i192")
}
fn dec(s: &str) -> Decimal {
    Decimal::from_attos(i192(s))
}
fn rd(r: Result<Decimal, RuntimeError>) -> String {
    match r {
        Ok(d) => format!("ok {}", d.attos()),
        Err(_) => "err".to_string(),
    }
}

fn run(a: &[&str]) -> String {
    match a[0] {
        "pool1_owed" => rd(verif_one_resource_pool_calculate_amount_owed(
            dec(a[1]),
            dec(a[2]),
            dec(a[3]),
            a[4].parse().unwrap(),
        )),
        "pool2_owed" => rd(verif_two_resource_pool_calculate_amount_owed(
            dec(a[1]),
            dec(a[2]),
            dec(a[3]),
            a[4].parse().unwrap(),
        )),
        "pooln_owed" => rd(verif_multi_resource_pool_calculate_amount_owed(
            dec(a[1]),
            dec(a[2]),
            dec(a[3]),
            a[4].parse().unwrap(),
        )),
        "stake_units" => rd(verif_calculate_stake_unit_amount(dec(a[1]), dec(a[2]), dec(a[3]))),
        "sort_prefix" => match verif_create_sort_prefix_from_stake(dec(a[1])) {
            Ok(b) => format!("ok {}", u16::from_be_bytes(b)),
            Err(_) => "err".to_string(),
        },
        "milli_to_minute" => match verif_milli_to_minute(a[1].parse().unwrap()) {
            Some(m) => format!("some {}", m),
            None => "none".to_string(),
        },
        _ => "unknown-op".to_string(),
    }
}

fn main() {
    std::panic::set_hook(Box::new(|_| {}));
    let stdin = std::io::stdin();
    for line in stdin.lock().lines() {
        let line = line.unwrap();
        let a: Vec<&str> = line.split_whitespace().collect();
        if a.is_empty() {
            continue;
        }
        let r = std::panic::catch_unwind(|| run(&a));
        match r {
            Ok(s) => println!("{}", s),
            Err(e) => {
                let m = e
                    .downcast_ref::<String>()
                    .cloned()
                    .or_else(|| e.downcast_ref::<&str>().map(|s| s.to_string()))
                    .unwrap_or_default();
                println!("panic {}", m.replace('\n', " "))
            }
        }
    }
}
