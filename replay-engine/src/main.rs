//! Native replay / translator self-test oracle for Engine M jobs on radix-engine: calls the REAL functions
//! (through the add-only `verif_*` forwarding shims behind the cargo feature radixdlt_radixdlt_scrypto_verif)
//! with concrete arguments read from stdin, one request per line; prints one result line per request.
mod mock_api;
use radix_common::math::*;
use radix_engine::blueprints::consensus_manager::*;
use radix_engine::blueprints::pool::v1::v1_1::*;
use radix_engine::errors::RuntimeError;
use radix_common::types::{NodeId, PartitionNumber, SubstateKey};
use radix_engine::kernel::substate_locks::SubstateLocks;
use radix_engine::system::system_modules::costing::*;
use radix_engine::transaction::CostingParameters;
use radix_engine_interface::blueprints::resource::LiquidFungibleResource;
use radix_transactions::model::{TipSpecifier, TransactionCostingParameters};
use radix_common::prelude::IndexSet;
use std::io::BufRead;
use std::str::FromStr;

fn i192(s: &str) -> I192 {
    I192::from_str(s).expect("i192")
}
fn dec(s: &str) -> Decimal {
    Decimal::from_attos(i192(s))
}
fn rd(r: Result<Decimal, RuntimeError>) -> String {
    match r {
        Ok(d) => format!("ok {}", d.attos()),
        Err(_) => "err".to_string(),
    }
}

fn node(n: &str) -> NodeId {
    let mut b = [0u8; NodeId::LENGTH];
    b[NodeId::LENGTH - 1] = n.parse().unwrap();
    NodeId(b)
}

/// tracker_update <start_epoch> <start_partition> <range_lo> <range_hi> <epochs_per_partition> <next_epoch> <expiry> <kind 0 tx|1 sub> <success>
/// runs the real System::update_transaction_tracker over a real Track on a one-substate database and reports what was
/// written: `ok <records> <record partition> <status> <deletes> <deleted partition> <tracker writes> <new start epoch> <new start partition> <returned>`
fn tracker_update(a: &[&str]) -> String {
    use radix_common::prelude::*;
    use radix_engine::blueprints::transaction_tracker::*;
    use radix_engine::system::system_substates::*;
    use radix_engine::track::*;
    use radix_engine_interface::prelude::*;
    use radix_substate_store_interface::db_key_mapper::*;
    use radix_substate_store_interface::interface::*;
    use radix_transactions::model::*;

    struct Db(Vec<(DbPartitionKey, DbSortKey, Vec<u8>)>);
    impl SubstateDatabase for Db {
        fn get_raw_substate_by_db_key(&self, pk: &DbPartitionKey, sk: &DbSortKey) -> Option<DbSubstateValue> {
            self.0.iter().find(|(p, s, _)| p == pk && s == sk).map(|(_, _, v)| v.clone())
        }
        fn list_raw_values_from_db_key(
            &self,
            pk: &DbPartitionKey,
            from: Option<&DbSortKey>,
        ) -> Box<dyn Iterator<Item = PartitionEntry> + '_> {
            let mut v: Vec<PartitionEntry> = self
                .0
                .iter()
                .filter(|(p, s, _)| p == pk && from.map_or(true, |f| s >= f))
                .map(|(_, s, v)| (s.clone(), v.clone()))
                .collect();
            v.sort_by(|x, y| x.0.cmp(&y.0));
            Box::new(v.into_iter())
        }
    }
    let p = |i: usize| a[i].parse::<u64>().unwrap();
    let (se, sp, lo, hi, epp, nxt, e, kind, succ) = (p(0), p(1), p(2), p(3), p(4), p(5), p(6), p(7), p(8));
    let tracker = TransactionTrackerSubstate::V1(TransactionTrackerSubstateV1 {
        start_epoch: se,
        start_partition: sp as u8,
        partition_range_start_inclusive: lo as u8,
        partition_range_end_inclusive: hi as u8,
        epochs_per_partition: epp,
    });
    let pk = SpreadPrefixKeyMapper::to_db_partition_key(TRANSACTION_TRACKER.as_node_id(), MAIN_BASE_PARTITION);
    let sk = SpreadPrefixKeyMapper::to_db_sort_key(&TransactionTrackerField::TransactionTracker.into());
    let db = Db(vec![(pk, sk, scrypto_encode(&FieldSubstate::new_unlocked_field(tracker)).unwrap())]);
    let mut track = Track::new(&db);
    let h = hash(b"verif");
    let n = if kind == 0 {
        IntentHashNullification::TransactionIntent { intent_hash: TransactionIntentHash(h), expiry_epoch: Epoch::of(e) }
    } else {
        IntentHashNullification::Subintent { intent_hash: SubintentHash(h), expiry_epoch: Epoch::of(e) }
    };
    let ret = radix_engine::system::system_callback::verif::update_transaction_tracker(&mut track, Epoch::of(nxt), vec![n], succ == 1);
    let tracked = match track.finalize() {
        Ok((t, _)) => t,
        Err(_) => return "err finalize".to_string(),
    };
    let (_new_nodes, su) = tracked.to_state_updates();
    let (mut records, mut rec_part, mut status, mut deletes, mut del_part, mut tw, mut nse, mut nsp) =
        (0u64, 0u64, 0u64, 0u64, 0u64, 0u64, -1i128, -1i128);
    let status_of = |bytes: &Vec<u8>| -> u64 {
        match scrypto_decode::<KeyValueEntrySubstate<TransactionStatus>>(bytes).unwrap() {
            KeyValueEntrySubstate::V1(v1) => match v1.value {
                Some(TransactionStatus::V1(TransactionStatusV1::CommittedSuccess)) => 0,
                Some(TransactionStatus::V1(TransactionStatusV1::CommittedFailure)) => 1,
                Some(TransactionStatus::V1(TransactionStatusV1::Cancelled)) => 2,
                None => 9,
            },
        }
    };
    for (node_id, nu) in su.by_node.iter() {
        if node_id != TRANSACTION_TRACKER.as_node_id() {
            return "err foreign node".to_string();
        }
        let NodeStateUpdates::Delta { by_partition } = nu;
        for (pn, pu) in by_partition.iter() {
            match pu {
                PartitionStateUpdates::Delta { by_substate } => {
                    for (key, upd) in by_substate.iter() {
                        let DatabaseUpdate::Set(bytes) = upd else { return "err delete of a substate".to_string() };
                        if *pn == MAIN_BASE_PARTITION {
                            let t = scrypto_decode::<FieldSubstate<TransactionTrackerSubstate>>(bytes).unwrap().into_payload().into_v1();
                            tw += 1;
                            nse = t.start_epoch as i128;
                            nsp = t.start_partition as i128;
                            let _ = key;
                        } else {
                            records += 1;
                            rec_part = pn.0 as u64;
                            status = status_of(bytes);
                        }
                    }
                }
                PartitionStateUpdates::Batch(BatchPartitionStateUpdate::Reset { new_substate_values }) => {
                    deletes += 1;
                    del_part = pn.0 as u64;
                    for (_key, bytes) in new_substate_values.iter() {
                        records += 1;
                        rec_part = pn.0 as u64;
                        status = status_of(bytes);
                    }
                }
            }
        }
    }
    format!("ok {} {} {} {} {} {} {} {} {}", records, rec_part, status, deletes, del_part, tw, nse, nsp, ret.len())
}

/// `locks_run` script: tokens separated by spaces, executed on a fresh SubstateLocks<()>:
///   L <node> <part> <key> <ro>   lock            -> prints `h<id>` or `none`
///   U <handle>                   unlock          -> prints `ok`
///   N <node>                     node_is_locked  -> prints `1` / `0`
///   K <node> <part> <key>        is_locked       -> prints `1` / `0`
fn locks_run(a: &[&str]) -> String {
    let mut locks: SubstateLocks<()> = SubstateLocks::new();
    let mut out: Vec<String> = vec![];
    let mut i = 0;
    while i < a.len() {
        match a[i] {
            "L" => {
                let r = locks.lock(
                    &node(a[i + 1]),
                    PartitionNumber(a[i + 2].parse().unwrap()),
                    &SubstateKey::Field(a[i + 3].parse().unwrap()),
                    a[i + 4] == "1",
                    (),
                );
                out.push(match r {
                    Some(h) => format!("h{}", h),
                    None => "none".to_string(),
                });
                i += 5;
            }
            "U" => {
                locks.unlock(a[i + 1].parse().unwrap());
                out.push("ok".to_string());
                i += 2;
            }
            "N" => {
                out.push(if locks.node_is_locked(&node(a[i + 1])) { "1" } else { "0" }.to_string());
                i += 2;
            }
            "K" => {
                let r = locks.is_locked(
                    &node(a[i + 1]),
                    PartitionNumber(a[i + 2].parse().unwrap()),
                    &SubstateKey::Field(a[i + 3].parse().unwrap()),
                );
                out.push(if r { "1" } else { "0" }.to_string());
                i += 4;
            }
            _ => return "bad-script".to_string(),
        }
    }
    format!("val {}", out.join(" "))
}

/// `fee_run <P> <limit> <loan> <Pf> <flimit> <usd> <ssp> <asp> <tipkind 0|1|2> <tipval> <credit> <ops...>`
/// (prices and amounts in attos). ops: `LOCK <amount> <contingent 0|1>`, `EXEC <units>`, `FIN <units>`,
/// `STOR <0 state|1 archive> <size>`, `BAL`, `FINALIZE` (must be last). Each op prints one token group.
fn royalty_recipient(kind: &str, vault: &str) -> RoyaltyRecipient {
    if kind == "0" {
        RoyaltyRecipient::Package(radix_common::constants::PACKAGE_PACKAGE, node(vault))
    } else {
        RoyaltyRecipient::Component(radix_common::constants::FAUCET, node(vault))
    }
}

fn fee_run(a: &[&str]) -> String {
    let cp = CostingParameters {
        execution_cost_unit_price: dec(a[0]),
        execution_cost_unit_limit: a[1].parse().unwrap(),
        execution_cost_unit_loan: a[2].parse().unwrap(),
        finalization_cost_unit_price: dec(a[3]),
        finalization_cost_unit_limit: a[4].parse().unwrap(),
        usd_price: dec(a[5]),
        state_storage_price: dec(a[6]),
        archive_storage_price: dec(a[7]),
    };
    let tip = match a[8] {
        "0" => TipSpecifier::None,
        "1" => TipSpecifier::Percentage(a[9].parse().unwrap()),
        _ => TipSpecifier::BasisPoints(a[9].parse().unwrap()),
    };
    let tcp = TransactionCostingParameters {
        tip,
        free_credit_in_xrd: dec(a[10]),
    };
    let mut r = SystemLoanFeeReserve::new(cp, tcp, false);
    let mut out: Vec<String> = vec![];
    let mut i = 11;
    while i < a.len() {
        match a[i] {
            "LOCK" => {
                r.lock_fee(node("9"), LiquidFungibleResource::new(dec(a[i + 1])), a[i + 2] == "1");
                out.push("ok".into());
                i += 3;
            }
            "EXEC" => {
                out.push(match r.consume_execution(a[i + 1].parse().unwrap()) {
                    Ok(()) => "ok".into(),
                    Err(FeeReserveError::LimitExceeded { .. }) => "limit".into(),
                    Err(FeeReserveError::InsufficientBalance { .. }) => "insufficient".into(),
                    Err(FeeReserveError::Overflow) => "overflow".into(),
                    Err(_) => "err".into(),
                });
                i += 2;
            }
            "FIN" => {
                out.push(match r.consume_finalization(a[i + 1].parse().unwrap()) {
                    Ok(()) => "ok".into(),
                    Err(FeeReserveError::LimitExceeded { .. }) => "limit".into(),
                    Err(FeeReserveError::InsufficientBalance { .. }) => "insufficient".into(),
                    Err(FeeReserveError::Overflow) => "overflow".into(),
                    Err(_) => "err".into(),
                });
                i += 2;
            }
            "STOR" => {
                let t = if a[i + 1] == "0" { StorageType::State } else { StorageType::Archive };
                out.push(match r.consume_storage(t, a[i + 2].parse().unwrap()) {
                    Ok(()) => "ok".into(),
                    Err(FeeReserveError::InsufficientBalance { .. }) => "insufficient".into(),
                    Err(FeeReserveError::Overflow) => "overflow".into(),
                    Err(_) => "err".into(),
                });
                i += 3;
            }
            "BAL" => {
                out.push(format!("{}", r.fee_balance().attos()));
                i += 1;
            }
            "ROY" => {
                // ROY <0 free|1 xrd|2 usd> <amount attos> <recipient kind 0 package|1 component> <vault id>
                use radix_common::types::RoyaltyAmount;
                let amt = match a[i + 1] {
                    "0" => RoyaltyAmount::Free,
                    "1" => RoyaltyAmount::Xrd(dec(a[i + 2])),
                    _ => RoyaltyAmount::Usd(dec(a[i + 2])),
                };
                out.push(match r.consume_royalty(amt, royalty_recipient(a[i + 3], a[i + 4])) {
                    Ok(()) => "ok".into(),
                    Err(FeeReserveError::InsufficientBalance { .. }) => "insufficient".into(),
                    Err(FeeReserveError::Overflow) => "overflow".into(),
                    Err(_) => "err".into(),
                });
                i += 5;
            }
            "REVERT_ROYALTY" => {
                r.revert_royalty();
                out.push("ok".into());
                i += 1;
            }
            "ROYSTATE" => {
                // ROYSTATE <recipient kind> <vault id> -> <balance> <committed royalty> <entries> <sum of entries> <entry of the recipient>
                let who = royalty_recipient(a[i + 1], a[i + 2]);
                let (s, _, _) = r.clone().finalize();
                let mut sum = Decimal::ZERO;
                for (_, v) in r.royalty_cost_breakdown().iter() {
                    sum = sum.checked_add(*v).unwrap();
                }
                let mine = r.royalty_cost_breakdown().get(&who).cloned().unwrap_or(Decimal::ZERO);
                out.push(format!(
                    "{} {} {} {} {}",
                    r.fee_balance().attos(),
                    s.total_royalty_cost_in_xrd.attos(),
                    r.royalty_cost_breakdown().len(),
                    sum.attos(),
                    mine.attos()
                ));
                i += 3;
            }
            "DEFER_EXEC" => {
                out.push(match r.consume_deferred_execution(a[i + 1].parse().unwrap()) {
                    Ok(()) => "ok".into(),
                    Err(_) => "err".into(),
                });
                i += 2;
            }
            "DEFER_FIN" => {
                out.push(match r.consume_deferred_finalization(a[i + 1].parse().unwrap()) {
                    Ok(()) => "ok".into(),
                    Err(_) => "err".into(),
                });
                i += 2;
            }
            "REPAY" => {
                out.push(match r.repay_all() {
                    Ok(()) => "ok".into(),
                    Err(_) => "err".into(),
                });
                i += 1;
            }
            "UNITS" => {
                let (s, _, _) = r.clone().finalize();
                out.push(format!("{} {}", s.total_execution_cost_units_consumed, s.total_finalization_cost_units_consumed));
                i += 1;
            }
            "FINALIZE" => {
                let (s, _, _) = r.finalize();
                out.push(format!(
                    "{} {} {} {} {} {} {} {} {} {} {} {}",
                    s.total_execution_cost_units_consumed,
                    s.total_finalization_cost_units_consumed,
                    s.total_execution_cost_in_xrd.attos(),
                    s.total_finalization_cost_in_xrd.attos(),
                    s.total_tipping_cost_in_xrd.attos(),
                    s.total_royalty_cost_in_xrd.attos(),
                    s.total_storage_cost_in_xrd.attos(),
                    s.total_bad_debt_in_xrd.attos(),
                    s.total_cost().attos(),
                    s.to_proposer_amount().attos(),
                    s.to_validator_set_amount().attos(),
                    s.to_burn_amount().attos()
                ));
                return format!("val {}", out.join(" "));
            }
            _ => return "bad-script".to_string(),
        }
    }
    format!("val {}", out.join(" "))
}

/// `nf_run <op> <n container ids> <ids...> <m argument ids> <ids...>` on the REAL LiquidNonFungibleResource
/// (integer local ids): op = take | put | takeall. Prints `ok <remaining sorted> | <result sorted>` or `err <id>`.
fn nf_run(a: &[&str]) -> String {
    use radix_common::prelude::NonFungibleLocalId;
    use radix_engine_interface::blueprints::resource::{LiquidNonFungibleResource, ResourceError};
    let n: usize = a[1].parse().unwrap();
    let held: IndexSet<NonFungibleLocalId> =
        a[2..2 + n].iter().map(|x| NonFungibleLocalId::integer(x.parse().unwrap())).collect();
    let m: usize = a[2 + n].parse().unwrap();
    let arg: IndexSet<NonFungibleLocalId> =
        a[3 + n..3 + n + m].iter().map(|x| NonFungibleLocalId::integer(x.parse().unwrap())).collect();
    let mut c = LiquidNonFungibleResource::new(held);
    let show = |s: &IndexSet<NonFungibleLocalId>| {
        let mut v: Vec<u64> = s
            .iter()
            .map(|i| match i {
                NonFungibleLocalId::Integer(x) => x.value(),
                _ => 0,
            })
            .collect();
        v.sort();
        v.iter().map(|x| x.to_string()).collect::<Vec<_>>().join(",")
    };
    match a[0] {
        "take" => match c.take_by_ids(&arg) {
            Ok(t) => format!("val ok [{}] [{}]", show(c.ids()), show(t.ids())),
            Err(ResourceError::MissingNonFungibleLocalId(i)) => format!("val err {}", i),
            Err(_) => "val err ?".into(),
        },
        "put" => {
            c.put(LiquidNonFungibleResource::new(arg)).unwrap();
            format!("val ok [{}] []", show(c.ids()))
        }
        _ => {
            let t = c.take_all();
            format!("val ok [{}] [{}]", show(c.ids()), show(t.ids()))
        }
    }
}

fn tv(a: &[&str]) -> radix_transactions::validation::TransactionValidator {
    // <net_some 0|1> <net_id> <min_tip_pct> <max_tip_pct> <max_epoch_range> <min_tip_bp> <max_tip_bp> <max_refs_per_intent> <max_total_refs>
    use radix_transactions::validation::*;
    let mut c = TransactionValidationConfig::latest();
    c.min_tip_percentage = a[2].parse().unwrap();
    c.max_tip_percentage = a[3].parse().unwrap();
    c.max_epoch_range = a[4].parse().unwrap();
    c.min_tip_basis_points = a[5].parse().unwrap();
    c.max_tip_basis_points = a[6].parse().unwrap();
    c.max_references_per_intent = a[7].parse().unwrap();
    c.max_total_references = a[8].parse().unwrap();
    if a[0] == "1" {
        TransactionValidator::new_with_static_config(c, a[1].parse().unwrap())
    } else {
        TransactionValidator::new_with_static_config_network_agnostic(c)
    }
}

fn opt_instant(kind: &str, v: &str) -> Option<radix_common::time::Instant> {
    if kind == "1" {
        Some(radix_common::time::Instant::new(v.parse().unwrap()))
    } else {
        None
    }
}

fn header_ops(a: &[&str]) -> String {
    use radix_common::prelude::{Epoch, PublicKey, Secp256k1PublicKey};
    use radix_transactions::model::*;
    use radix_transactions::validation::*;
    let v = tv(&a[1..10]);
    let key = PublicKey::Secp256k1(Secp256k1PublicKey([0u8; 33]));
    let r = &a[10..];
    match a[0] {
        "header_v1" => {
            let h = TransactionHeaderV1 {
                network_id: r[0].parse().unwrap(),
                start_epoch_inclusive: Epoch::of(r[1].parse().unwrap()),
                end_epoch_exclusive: Epoch::of(r[2].parse().unwrap()),
                nonce: 5,
                notary_public_key: key,
                notary_is_signatory: false,
                tip_percentage: r[3].parse().unwrap(),
            };
            match v.validate_header_v1(&h) {
                Ok(()) => "ok 0".into(),
                Err(_) => "err".into(),
            }
        }
        "header_v2_tx" => {
            let h = TransactionHeaderV2 {
                notary_public_key: key,
                notary_is_signatory: false,
                tip_basis_points: r[0].parse().unwrap(),
            };
            match v.validate_transaction_header_v2(&h) {
                Ok(()) => "ok 0".into(),
                Err(_) => "err".into(),
            }
        }
        _ => {
            // header_v2_intent: first an aggregation state built with one update_headers call on start(), then the intent
            // <agg used 0|1> <as> <ae> <ats kind> <ats> <ate kind> <ate> | <net> <hs> <he> <hts kind> <hts> <hte kind> <hte>
            let mut agg = AcrossIntentAggregation::start();
            if r[0] == "1" {
                let ts = opt_instant(r[3], r[4]);
                let te = opt_instant(r[5], r[6]);
                if agg
                    .update_headers(Epoch::of(r[1].parse().unwrap()), Epoch::of(r[2].parse().unwrap()), ts.as_ref(), te.as_ref())
                    .is_err()
                {
                    return "val unreachable".into();
                }
            }
            let h = IntentHeaderV2 {
                network_id: r[7].parse().unwrap(),
                start_epoch_inclusive: Epoch::of(r[8].parse().unwrap()),
                end_epoch_exclusive: Epoch::of(r[9].parse().unwrap()),
                min_proposer_timestamp_inclusive: opt_instant(r[10], r[11]),
                max_proposer_timestamp_exclusive: opt_instant(r[12], r[13]),
                intent_discriminator: 1,
            };
            match v.validate_intent_header_v2(&h, &mut agg) {
                Ok(()) => {
                    let o = agg.finalize(&TransactionValidationConfig::latest()).ok().unwrap();
                    let t = |x: Option<radix_common::time::Instant>| match x {
                        Some(i) => format!("1 {}", i.seconds_since_unix_epoch),
                        None => "0 0".to_string(),
                    };
                    format!(
                        "ok {} {} {} {}",
                        o.epoch_range.start_epoch_inclusive.number(),
                        o.epoch_range.end_epoch_exclusive.number(),
                        t(o.proposer_timestamp_range.start_timestamp_inclusive),
                        t(o.proposer_timestamp_range.end_timestamp_exclusive)
                    )
                }
                Err(_) => "err".into(),
            }
        }
    }
}

/// limits_io <max_heap> <max_track> <H0> <T0> <kind 0 read|1 notfound|2 track|3 heap> <keylen> <oldk> <old> <newk> <new>
/// limits_key <max_key> <kind 0 field|1 map|2 sorted> <len>
fn limits_ops(a: &[&str]) -> String {
    use radix_engine::system::system_modules::limits::*;
    use radix_engine::track::interface::{CanonicalSubstateKey, IOAccess};
    use radix_engine::errors::{RuntimeError, SystemModuleError};
    let cfg = |heap: usize, track: usize, key: usize| TransactionLimitsConfig {
        max_call_depth: 8,
        max_heap_substate_total_bytes: heap,
        max_track_substate_total_bytes: track,
        max_substate_key_size: key,
        max_substate_value_size: 100,
        max_invoke_payload_size: 100,
        max_event_size: 100,
        max_log_size: 100,
        max_panic_message_size: 100,
        max_number_of_logs: 10,
        max_number_of_events: 10,
    };
    let ckey = |len: usize| CanonicalSubstateKey {
        node_id: node("1"),
        partition_number: PartitionNumber(0),
        substate_key: SubstateKey::Map(vec![0u8; len - 31]),
    };
    let opt = |k: &str, v: &str| if k == "1" { Some(v.parse::<usize>().unwrap()) } else { None };
    if a[0] == "limits_key" {
        let m = LimitsModule::new(cfg(0, 0, a[1].parse().unwrap()));
        let n: usize = a[3].parse().unwrap();
        let k = match a[2] {
            "0" => SubstateKey::Field(7),
            "1" => SubstateKey::Map(vec![0u8; n]),
            _ => SubstateKey::Sorted(([0u8; 2], vec![0u8; n])),
        };
        return match m.process_substate_key(&k) {
            Ok(()) => "ok 0".into(),
            Err(_) => "err".into(),
        };
    }
    let mut m = LimitsModule::new(cfg(a[1].parse().unwrap(), a[2].parse().unwrap(), 1000));
    let h0: usize = a[3].parse().unwrap();
    let t0: usize = a[4].parse().unwrap();
    // reach the totals with one new entry each (key of 32 bytes): totals below 32 other than 0 are not reachable
    if h0 > 0 {
        let _ = m.process_io_access(&IOAccess::HeapSubstateUpdated {
            canonical_substate_key: ckey(32),
            old_size: None,
            new_size: Some(h0 - 32),
        });
    }
    if t0 > 0 {
        let _ = m.process_io_access(&IOAccess::TrackSubstateUpdated {
            canonical_substate_key: ckey(32),
            old_size: None,
            new_size: Some(t0 - 32),
        });
    }
    let key = ckey(a[6].parse().unwrap());
    let (old, new) = (opt(a[7], a[8]), opt(a[9], a[10]));
    let io = match a[5] {
        "0" => IOAccess::ReadFromDb(key, 5),
        "1" => IOAccess::ReadFromDbNotFound(key),
        "2" => IOAccess::TrackSubstateUpdated { canonical_substate_key: key, old_size: old, new_size: new },
        _ => IOAccess::HeapSubstateUpdated { canonical_substate_key: key, old_size: old, new_size: new },
    };
    match m.process_io_access(&io) {
        Ok(()) => {
            // the totals are only visible in the limit errors: probe each with an entry that certainly exceeds the limit
            const P: usize = 1_000_000_000_000_000;
            let t1 = match m.process_io_access(&IOAccess::TrackSubstateUpdated {
                canonical_substate_key: ckey(32),
                old_size: None,
                new_size: Some(P),
            }) {
                Err(RuntimeError::SystemModuleError(SystemModuleError::TransactionLimitsError(
                    TransactionLimitsError::TrackSubstateSizeExceeded { actual, .. },
                ))) => (actual - 32 - P) as i128,
                _ => -1,
            };
            let h1 = match m.process_io_access(&IOAccess::HeapSubstateUpdated {
                canonical_substate_key: ckey(32),
                old_size: None,
                new_size: Some(P),
            }) {
                Err(RuntimeError::SystemModuleError(SystemModuleError::TransactionLimitsError(
                    TransactionLimitsError::HeapSubstateSizeExceeded { actual, .. },
                ))) => (actual - 32 - P) as i128,
                _ => -1,
            };
            format!("ok {} {}", h1, t1)
        }
        Err(RuntimeError::SystemModuleError(SystemModuleError::TransactionLimitsError(
            TransactionLimitsError::HeapSubstateSizeExceeded { actual, .. },
        ))) => format!("err heap {}", actual),
        Err(RuntimeError::SystemModuleError(SystemModuleError::TransactionLimitsError(
            TransactionLimitsError::TrackSubstateSizeExceeded { actual, .. },
        ))) => format!("err track {}", actual),
        Err(_) => "err other 0".into(),
    }
}

/// tsv <tv 0..5> <ro> <wk> <a> <e> <op set|take|revert|get> [<v>]  on the REAL TrackedSubstateValue
/// prints: `<ret> | <cur>` where ret / cur are `none` or the u64 value; ret is `-` for set / revert
fn tsv(a: &[&str]) -> String {
    use radix_engine::track::state_updates::*;
    use radix_engine_interface::types::IndexedScryptoValue;
    let isv = |x: &str| IndexedScryptoValue::from_typed(&x.parse::<u64>().unwrap());
    let rs = |x: &str| RuntimeSubstate::new(isv(x));
    let wr = |k: &str, x: &str| if k == "0" { Write::Update(rs(x)) } else { Write::Delete };
    let mut t = match a[0] {
        "0" => TrackedSubstateValue::New(rs(a[3])),
        "1" => TrackedSubstateValue::ReadOnly(if a[1] == "0" { ReadOnly::NonExistent } else { ReadOnly::Existent(rs(a[3])) }),
        "2" => TrackedSubstateValue::ReadExistAndWrite(isv(a[4]), wr(a[2], a[3])),
        "3" => TrackedSubstateValue::ReadNonExistAndWrite(rs(a[3])),
        "4" => TrackedSubstateValue::WriteOnly(wr(a[2], a[3])),
        _ => TrackedSubstateValue::Garbage,
    };
    let show = |o: Option<&IndexedScryptoValue>| match o {
        Some(v) => format!("{}", v.as_typed::<u64>().unwrap()),
        None => "none".to_string(),
    };
    let ret = match a[5] {
        "set" => {
            t.set(isv(a[6]));
            "-".to_string()
        }
        "take" => {
            let r = t.take();
            show(r.as_ref())
        }
        "revert" => {
            verif_tracked_substate_value_revert_writes(&mut t);
            "-".to_string()
        }
        _ => show(t.get()),
    };
    // what a later revert would restore tells the read knowledge kept in the state
    let cur = show(t.get());
    let mut t2 = t.clone();
    verif_tracked_substate_value_revert_writes(&mut t2);
    format!("val {} {} {}", ret, cur, show(t2.get()))
}

/// ac_run <L> <pa> <pp> <pw> <ra 0|1 untimed|2 timed> <rp> <rt> <rw> <delay_some> <delay> <op> <ip> <now> <cmp>
/// one transition of the REAL access controller state machine over the scripted MockApi; proposals are identified by
/// an integer (stored in their timed_recovery_delay_in_minutes field). Prints `ok|err <returned proposal or -> <state>`.
fn ac_run(a: &[&str]) -> String {
    use radix_engine::blueprints::access_controller::latest::*;
    use radix_engine::blueprints::access_controller::*;
    use radix_engine_interface::blueprints::access_controller::*;
    use radix_engine_interface::blueprints::resource::{AccessRule, Vault};
    use radix_common::prelude::*;
    let n = |i: usize| a[i].parse::<i64>().unwrap();
    let prop = |id: i64| RecoveryProposal {
        rule_set: RuleSet {
            primary_role: AccessRule::AllowAll,
            recovery_role: AccessRule::AllowAll,
            confirmation_role: AccessRule::AllowAll,
        },
        timed_recovery_delay_in_minutes: Some(id as u32),
    };
    let pid = |p: &RecoveryProposal| p.timed_recovery_delay_in_minutes.unwrap() as i64;
    let mut vault_node = [3u8; NodeId::LENGTH];
    vault_node[0] = EntityType::InternalFungibleVault as u8;
    let mut s = AccessControllerV2Substate {
        controlled_asset: Vault(Own(NodeId(vault_node))),
        xrd_fee_vault: None,
        timed_recovery_delay_in_minutes: if n(8) == 1 { Some(n(9) as u32) } else { None },
        recovery_badge: XRD,
        state: (
            if n(0) == 0 { PrimaryRoleLockingState::Unlocked } else { PrimaryRoleLockingState::Locked },
            if n(1) == 0 {
                PrimaryRoleRecoveryAttemptState::NoRecoveryAttempt
            } else {
                PrimaryRoleRecoveryAttemptState::RecoveryAttempt(prop(n(2)))
            },
            if n(3) == 0 {
                PrimaryRoleBadgeWithdrawAttemptState::NoBadgeWithdrawAttempt
            } else {
                PrimaryRoleBadgeWithdrawAttemptState::BadgeWithdrawAttempt
            },
            match n(4) {
                0 => RecoveryRoleRecoveryAttemptState::NoRecoveryAttempt,
                1 => RecoveryRoleRecoveryAttemptState::RecoveryAttempt(RecoveryRoleRecoveryState::UntimedRecovery(prop(n(5)))),
                _ => RecoveryRoleRecoveryAttemptState::RecoveryAttempt(RecoveryRoleRecoveryState::TimedRecovery {
                    proposal: prop(n(5)),
                    timed_recovery_allowed_after: Instant::new(n(6)),
                }),
            },
            if n(7) == 0 {
                RecoveryRoleBadgeWithdrawAttemptState::NoBadgeWithdrawAttempt
            } else {
                RecoveryRoleBadgeWithdrawAttemptState::BadgeWithdrawAttempt
            },
        ),
    };
    let mut api = mock_api::MockApi::default();
    api.answer("get_current_time", &Instant::new(n(12)));
    api.answer("compare_current_time", &(n(13) == 1));
    let r = verif_access_controller_transition(&mut s, n(10) as u8, prop(n(11)), &mut api);
    let (pa, pp) = match &s.state.1 {
        PrimaryRoleRecoveryAttemptState::NoRecoveryAttempt => (0, 0),
        PrimaryRoleRecoveryAttemptState::RecoveryAttempt(p) => (1, pid(p)),
    };
    let (ra, rp, rt) = match &s.state.3 {
        RecoveryRoleRecoveryAttemptState::NoRecoveryAttempt => (0, 0, 0),
        RecoveryRoleRecoveryAttemptState::RecoveryAttempt(RecoveryRoleRecoveryState::UntimedRecovery(p)) => (1, pid(p), 0),
        RecoveryRoleRecoveryAttemptState::RecoveryAttempt(RecoveryRoleRecoveryState::TimedRecovery {
            proposal,
            timed_recovery_allowed_after,
        }) => (2, pid(proposal), timed_recovery_allowed_after.seconds_since_unix_epoch),
    };
    let st = format!(
        "{} {} {} {} {} {} {} {}",
        if s.state.0 == PrimaryRoleLockingState::Unlocked { 0 } else { 1 },
        pa,
        pp,
        if s.state.2 == PrimaryRoleBadgeWithdrawAttemptState::NoBadgeWithdrawAttempt { 0 } else { 1 },
        ra,
        rp,
        rt,
        if s.state.4 == RecoveryRoleBadgeWithdrawAttemptState::NoBadgeWithdrawAttempt { 0 } else { 1 }
    );
    match r {
        Ok(Some(p)) => format!("ok {} {}", pid(&p), st),
        Ok(None) => format!("ok - {}", st),
        Err(_) => format!("err - {}", st),
    }
}

/// cm_time <stored_milli> <stored_minute> <new_milli>: check_non_decreasing_and_update_timestamps over the MockApi
/// field store; prints `ok|err <milli after> <minute after> <number of field writes>`
fn cm_time(a: &[&str]) -> String {
    use radix_engine::blueprints::consensus_manager::*;
    let mut api = mock_api::MockApi::default();
    let milli = ProposerMilliTimestampSubstate { epoch_milli: a[0].parse().unwrap() };
    let minute = ProposerMinuteTimestampSubstate { epoch_minute: a[1].parse().unwrap() };
    api.fields.insert(
        ConsensusManagerField::ProposerMilliTimestamp.field_index(),
        radix_common::prelude::scrypto_encode(&ConsensusManagerProposerMilliTimestampFieldPayload::from_latest_version(milli)).unwrap(),
    );
    api.fields.insert(
        ConsensusManagerField::ProposerMinuteTimestamp.field_index(),
        radix_common::prelude::scrypto_encode(&ConsensusManagerProposerMinuteTimestampFieldPayload::from_latest_version(minute)).unwrap(),
    );
    let r = verif_check_non_decreasing_and_update_timestamps(a[2].parse().unwrap(), &mut api);
    let m1: ConsensusManagerProposerMilliTimestampFieldPayload = radix_common::prelude::scrypto_decode(
        &api.fields[&ConsensusManagerField::ProposerMilliTimestamp.field_index()],
    )
    .unwrap();
    let m2: ConsensusManagerProposerMinuteTimestampFieldPayload = radix_common::prelude::scrypto_decode(
        &api.fields[&ConsensusManagerField::ProposerMinuteTimestamp.field_index()],
    )
    .unwrap();
    format!(
        "{} {} {} {}",
        if r.is_ok() { "ok" } else { "err" },
        m1.fully_update_and_into_latest_version().epoch_milli,
        m2.fully_update_and_into_latest_version().epoch_minute,
        api.field_writes.len()
    )
}

/// redeem_value <units> <vault amount> <unit supply>   calculate_redemption_value over the MockApi
/// stake_roundtrip <xrd> <total stake> <unit supply>     stake xrd, then redeem the minted units against the grown pool
fn validator_ops(a: &[&str]) -> String {
    use radix_common::prelude::*;
    use radix_engine::blueprints::consensus_manager::*;
    let own = |b: u8| {
        let mut n = [b; NodeId::LENGTH];
        n[0] = EntityType::InternalFungibleVault as u8;
        Own(NodeId(n))
    };
    let substate = ValidatorSubstate {
        sorted_key: None,
        key: Secp256k1PublicKey([0u8; 33]),
        is_registered: true,
        accepts_delegated_stake: true,
        validator_fee_factor: Decimal::ZERO,
        validator_fee_change_request: None,
        stake_unit_resource: XRD,
        stake_xrd_vault_id: own(1),
        claim_nft: XRD,
        pending_xrd_withdraw_vault_id: own(2),
        locked_owner_stake_unit_vault_id: own(3),
        pending_owner_stake_unit_unlock_vault_id: own(4),
        pending_owner_stake_unit_withdrawals: Default::default(),
        already_unlocked_owner_stake_unit_amount: Decimal::ZERO,
    };
    let redeem = |units: Decimal, vault: Decimal, supply: Decimal| {
        let mut api = mock_api::MockApi::default();
        api.answer("get_amount", &vault);
        api.answer("get_total_supply", &Some(supply));
        verif_calculate_redemption_value(units, &substate, &mut api)
    };
    match a[0] {
        "redeem_value" => rd(redeem(dec(a[1]), dec(a[2]), dec(a[3]))),
        _ => {
            let (x, t, s) = (dec(a[1]), dec(a[2]), dec(a[3]));
            match verif_calculate_stake_unit_amount(x, t, s) {
                Err(_) => "err stake".to_string(),
                Ok(units) => match (t.checked_add(x), s.checked_add(units)) {
                    (Some(t2), Some(s2)) => match redeem(units, t2, s2) {
                        Ok(v) => format!("ok {} {}", v.attos(), units.attos()),
                        Err(_) => "err redeem".to_string(),
                    },
                    _ => "err pool".to_string(),
                },
            }
        }
    }
}

/// vault_lock <op lock|unlock> <amount> <liquid balance> <n locked entries> {<amount> <count>}*
/// the REAL FungibleVaultBlueprint::{lock_amount, unlock_amount} over the MockApi field store;
/// prints `ok|err <liquid after> <n> {<amount> <count>}*` (locked entries sorted by amount)
fn vault_lock(a: &[&str]) -> String {
    use radix_common::prelude::*;
    use radix_engine::blueprints::resource::*;
    use radix_engine_interface::blueprints::resource::{LiquidFungibleResource, LockedFungibleResource};
    let mut api = mock_api::MockApi::default();
    let n: usize = a[3].parse().unwrap();
    let mut amounts: IndexMap<Decimal, usize> = IndexMap::default();
    for i in 0..n {
        amounts.insert(dec(a[4 + 2 * i]), a[5 + 2 * i].parse().unwrap());
    }
    api.fields.insert(
        FungibleVaultField::Balance.field_index(),
        scrypto_encode(&FungibleVaultBalanceFieldPayload::from_latest_version(LiquidFungibleResource::new(dec(a[2])))).unwrap(),
    );
    api.fields.insert(
        FungibleVaultField::LockedBalance.field_index(),
        scrypto_encode(&FungibleVaultLockedBalanceFieldPayload::from_latest_version(LockedFungibleResource { amounts })).unwrap(),
    );
    let r = if a[0] == "lock" {
        FungibleVaultBlueprint::lock_amount(dec(a[1]), &mut api)
    } else {
        FungibleVaultBlueprint::unlock_amount(dec(a[1]), &mut api)
    };
    let bal: FungibleVaultBalanceFieldPayload = scrypto_decode(&api.fields[&FungibleVaultField::Balance.field_index()]).unwrap();
    let lk: FungibleVaultLockedBalanceFieldPayload =
        scrypto_decode(&api.fields[&FungibleVaultField::LockedBalance.field_index()]).unwrap();
    let lk = lk.fully_update_and_into_latest_version();
    let mut es: Vec<(I192, usize)> = lk.amounts.iter().map(|(k, v)| (k.attos(), *v)).collect();
    es.sort();
    let mut out = format!(
        "{} {} {}",
        if r.is_ok() { "ok" } else { "err" },
        bal.fully_update_and_into_latest_version().amount().attos(),
        es.len()
    );
    for (k, v) in es {
        out += &format!(" {} {}", k, v);
    }
    out
}

/// intent_tree <max depth> <root kind 0 tx|1 sub> <root hash> <root vok> <n> {<child hash> <yields to it>}*
///             <n subs> { <hash> <vok> <parent yields> <n> {<child hash> <yields to it>}* }*
/// Builds an IntentTreeStructure whose intents answer validate_intent with the given yield summaries and runs the REAL
/// TransactionValidator::validate_intents_and_structure (latest config with the given max_subintent_depth).
mod intent_tree {
    use radix_common::prelude::*;
    use radix_transactions::errors::*;
    use radix_transactions::model::*;
    use radix_transactions::validation::*;

    pub struct MockIntent {
        pub hash: IntentHash,
        pub sub_hash: SubintentHash,
        pub vok: bool,
        pub parent_yields: usize,
        pub children: Vec<(SubintentHash, usize)>,
    }
    impl IntentStructure for MockIntent {
        fn intent_hash(&self) -> IntentHash {
            self.hash
        }
        fn children(&self) -> impl ExactSizeIterator<Item = SubintentHash> {
            self.children.iter().map(|c| c.0)
        }
        fn validate_intent(
            &self,
            _validator: &TransactionValidator,
            _aggregation: &mut AcrossIntentAggregation,
        ) -> Result<ManifestYieldSummary, IntentValidationError> {
            if !self.vok {
                return Err(IntentValidationError::TooManyReferences { total: 1, limit: 0 });
            }
            let mut s = ManifestYieldSummary::new_with_children(self.children.iter().map(|c| c.0));
            s.parent_yields = self.parent_yields;
            for (h, y) in self.children.iter() {
                *s.child_yields.get_mut(h).unwrap() = *y;
            }
            Ok(s)
        }
    }
    impl HasSubintentHash for MockIntent {
        fn subintent_hash(&self) -> SubintentHash {
            self.sub_hash
        }
    }
    pub struct MockTree {
        pub root: MockIntent,
        pub subs: Vec<MockIntent>,
    }
    impl IntentTreeStructure for MockTree {
        type RootIntentStructure = MockIntent;
        type SubintentStructure = MockIntent;
        fn root(&self) -> &MockIntent {
            &self.root
        }
        fn non_root_subintents(&self) -> impl ExactSizeIterator<Item = &MockIntent> {
            self.subs.iter()
        }
    }
    pub fn run(a: &[&str]) -> String {
        let n = |t: &str| -> usize { t.parse().unwrap() };
        let h = |k: usize| Hash([k as u8; Hash::LENGTH]);
        let mut i = 0;
        let mut next = || {
            i += 1;
            n(a[i - 1])
        };
        let maxd = next();
        let (rk, rh, rvok, nrc) = (next(), next(), next(), next());
        let mut rc = vec![];
        for _ in 0..nrc {
            let (c, y) = (next(), next());
            rc.push((SubintentHash(h(c)), y));
        }
        let root = MockIntent {
            hash: if rk == 0 { IntentHash::Transaction(TransactionIntentHash(h(rh))) } else { IntentHash::Subintent(SubintentHash(h(rh))) },
            sub_hash: SubintentHash(h(rh)),
            vok: rvok == 1,
            parent_yields: 0,
            children: rc,
        };
        let ns = next();
        let mut subs = vec![];
        for _ in 0..ns {
            let (sh, vok, py, nc) = (next(), next(), next(), next());
            let mut cs = vec![];
            for _ in 0..nc {
                let (c, y) = (next(), next());
                cs.push((SubintentHash(h(c)), y));
            }
            subs.push(MockIntent {
                hash: IntentHash::Subintent(SubintentHash(h(sh))),
                sub_hash: SubintentHash(h(sh)),
                vok: vok == 1,
                parent_yields: py,
                children: cs,
            });
        }
        let mut config = TransactionValidationConfig::latest();
        config.max_subintent_depth = maxd;
        let validator = TransactionValidator::new_with_static_config_network_agnostic(config);
        match validator.validate_intents_and_structure(&MockTree { root, subs }) {
            Ok(info) => {
                let mut out = format!("ok {}", info.intent_relationships.non_root_subintents.len());
                for (_, d) in info.intent_relationships.non_root_subintents.iter() {
                    out += &format!(" {}", d.depth);
                }
                out
            }
            Err(TransactionValidationError::SubintentStructureError(_, e)) => format!("err {:?}", e).split('(').next().unwrap().to_string(),
            Err(_) => "err other".to_string(),
        }
    }
}

/// account_run <variant 0 original refund|1 bottlenose refund|2 original abort|3 bottlenose-era abort> <bucket resource 0 XRD|1 other
///             fungible|2 non-fungible> <preference 0 none|1 allowed|2 disallowed> <default rule 0 accept|1 reject|2 allow
///             existing> <vault exists> <badge given> <badge kind 0 NF|1 resource> <badge id> <badge listed> <proven>
/// The account state is built with the REAL setters (set_default_deposit_rule, set_resource_preference,
/// add_authorized_depositor, deposit) over the MockApi key-value store, then the REAL guarded deposit runs.
/// Prints `<none|some|err> <deposited 0|1> <asserted 0|1> <rule ok 0|1>`.
fn account_run(a: &[&str]) -> String {
    use radix_common::prelude::*;
    use radix_engine::blueprints::account::*;
    use radix_engine_interface::blueprints::account::*;
    use radix_engine_interface::blueprints::resource::*;
    let n = |t: &str| -> i64 { t.parse().unwrap() };
    let (variant, bres, pref, rule, vault, bgiven, bkind, bid, listed, proven) =
        (n(a[0]), n(a[1]), n(a[2]), n(a[3]), n(a[4]), n(a[5]), n(a[6]), n(a[7]), n(a[8]), n(a[9]));
    let other_fungible = {
        let mut b = [3u8; NodeId::LENGTH];
        b[0] = EntityType::GlobalFungibleResourceManager as u8;
        ResourceAddress::new_or_panic(b)
    };
    let res = |r: i64| match r {
        0 => XRD,
        1 => other_fungible,
        _ => ACCOUNT_OWNER_BADGE,
    };
    let mk = |b: u8| {
        let mut x = [b; NodeId::LENGTH];
        x[0] = EntityType::InternalGenericComponent as u8;
        NodeId(x)
    };
    let badge = |kind: i64, id: i64| {
        if kind == 0 {
            ResourceOrNonFungible::NonFungible(NonFungibleGlobalId::new(IDENTITY_OWNER_BADGE, NonFungibleLocalId::integer(id as u64)))
        } else {
            ResourceOrNonFungible::Resource(res(id))
        }
    };
    let mut api = mock_api::MockApi::default();
    api.defaults.insert(RESOURCE_MANAGER_CREATE_EMPTY_VAULT_IDENT.to_string(), scrypto_encode(&Own(mk(60))).unwrap());
    api.defaults.insert(VAULT_PUT_IDENT.to_string(), scrypto_encode(&()).unwrap());
    api.defaults.insert(AUTH_ZONE_ASSERT_ACCESS_RULE_IDENT.to_string(), scrypto_encode(&()).unwrap());
    let rule_v = match rule {
        0 => DefaultDepositRule::Accept,
        1 => DefaultDepositRule::Reject,
        _ => DefaultDepositRule::AllowExisting,
    };
    AccountBlueprint::set_default_deposit_rule(rule_v, &mut api).unwrap();
    if pref != 0 {
        let p = if pref == 1 { ResourcePreference::Allowed } else { ResourcePreference::Disallowed };
        AccountBlueprint::set_resource_preference(res(bres), p, &mut api).unwrap();
    }
    if vault == 1 {
        api.outer_objects.insert(mk(51), res(bres).into());
        AccountBlueprint::deposit(Bucket(Own(mk(51))), &mut api).unwrap();
    }
    if listed == 1 {
        AccountBlueprint::add_authorized_depositor(badge(bkind, bid), &mut api).unwrap();
    }
    // an unrelated badge is always on the list: membership must be decided by the named badge
    AccountBlueprint::add_authorized_depositor(badge(0, 77), &mut api).unwrap();
    if proven == 0 {
        api.fail_methods.insert(AUTH_ZONE_ASSERT_ACCESS_RULE_IDENT.to_string());
    }
    api.calls.clear();
    api.outer_objects.insert(mk(50), res(bres).into());
    let bucket = Bucket(Own(mk(50)));
    let named = if bgiven == 1 { Some(badge(bkind, bid)) } else { None };
    let outcome = match variant {
        0 => AccountBlueprint::try_deposit_or_refund(bucket, named.clone(), &mut api).map(|o| o.is_some()),
        1 => AccountBlueprintBottlenoseExtension::try_deposit_or_refund(bucket, named.clone(), &mut api).map(|o| o.is_some()),
        _ => AccountBlueprint::try_deposit_or_abort(bucket, named.clone(), &mut api).map(|_| false),
    };
    let deposited = api.calls.iter().any(|c| c.1 == VAULT_PUT_IDENT);
    let asserted: Vec<_> = api.calls.iter().filter(|c| c.1 == AUTH_ZONE_ASSERT_ACCESS_RULE_IDENT).collect();
    let rule_ok = asserted.iter().all(|c| {
        let input: AuthZoneAssertAccessRuleInput = scrypto_decode(&c.2).unwrap();
        named.as_ref().map_or(false, |b| {
            input.rule == AccessRule::Protected(CompositeRequirement::BasicRequirement(BasicRequirement::Require(b.clone())))
        })
    });
    format!(
        "{} {} {} {}",
        match outcome {
            Ok(false) => "none",
            Ok(true) => "some",
            Err(_) => "err",
        },
        deposited as u8,
        (!asserted.is_empty()) as u8,
        rule_ok as u8
    )
}

/// account_batch <variant 0 original refund|1 bottlenose refund|2 abort> <n buckets 1..3> <res b0> <res b1> <res b2>
///               <pref r0> <pref r1> <pref r2> <default rule> <vault r0> <vault r1> <vault r2> <badge given> <badge kind>
///               <badge id> <badge listed> <proven>
/// Same construction as account_run for the batch variants. Prints
/// `<none|some|err> <number of vault puts> <asserted> <rule ok> <returned buckets are the input in order 0|1>`.
fn account_batch(a: &[&str]) -> String {
    use radix_common::prelude::*;
    use radix_engine::blueprints::account::*;
    use radix_engine_interface::blueprints::account::*;
    use radix_engine_interface::blueprints::resource::*;
    let n = |t: &str| -> i64 { t.parse().unwrap() };
    let v: Vec<i64> = a.iter().map(|t| n(t)).collect();
    let (variant, nb) = (v[0], v[1] as usize);
    let bres = &v[2..5];
    let pref = &v[5..8];
    let rule = v[8];
    let vault = &v[9..12];
    let (bgiven, bkind, bid, listed, proven) = (v[12], v[13], v[14], v[15], v[16]);
    // optional: emptiness flag per bucket (0 = holds 5 units, 1 = empty)
    let empty: Vec<i64> = if v.len() >= 20 { v[17..20].to_vec() } else { vec![0, 0, 0] };
    let other_fungible = {
        let mut b = [3u8; NodeId::LENGTH];
        b[0] = EntityType::GlobalFungibleResourceManager as u8;
        ResourceAddress::new_or_panic(b)
    };
    let res = |r: i64| match r {
        0 => XRD,
        1 => other_fungible,
        _ => ACCOUNT_OWNER_BADGE,
    };
    let mk = |b: u8| {
        let mut x = [b; NodeId::LENGTH];
        x[0] = EntityType::InternalGenericComponent as u8;
        NodeId(x)
    };
    let badge = |kind: i64, id: i64| {
        if kind == 0 {
            ResourceOrNonFungible::NonFungible(NonFungibleGlobalId::new(IDENTITY_OWNER_BADGE, NonFungibleLocalId::integer(id as u64)))
        } else {
            ResourceOrNonFungible::Resource(res(id))
        }
    };
    let mut api = mock_api::MockApi::default();
    api.defaults.insert(RESOURCE_MANAGER_CREATE_EMPTY_VAULT_IDENT.to_string(), scrypto_encode(&Own(mk(60))).unwrap());
    api.defaults.insert(VAULT_PUT_IDENT.to_string(), scrypto_encode(&()).unwrap());
    api.defaults.insert(AUTH_ZONE_ASSERT_ACCESS_RULE_IDENT.to_string(), scrypto_encode(&()).unwrap());
    let rule_v = match rule {
        0 => DefaultDepositRule::Accept,
        1 => DefaultDepositRule::Reject,
        _ => DefaultDepositRule::AllowExisting,
    };
    AccountBlueprint::set_default_deposit_rule(rule_v, &mut api).unwrap();
    for r in 0..3i64 {
        if pref[r as usize] != 0 {
            let p = if pref[r as usize] == 1 { ResourcePreference::Allowed } else { ResourcePreference::Disallowed };
            AccountBlueprint::set_resource_preference(res(r), p, &mut api).unwrap();
        }
        if vault[r as usize] == 1 {
            api.outer_objects.insert(mk(70 + r as u8), res(r).into());
            AccountBlueprint::deposit(Bucket(Own(mk(70 + r as u8))), &mut api).unwrap();
        }
    }
    if listed == 1 {
        AccountBlueprint::add_authorized_depositor(badge(bkind, bid), &mut api).unwrap();
    }
    AccountBlueprint::add_authorized_depositor(badge(0, 77), &mut api).unwrap();
    if proven == 0 {
        api.fail_methods.insert(AUTH_ZONE_ASSERT_ACCESS_RULE_IDENT.to_string());
    }
    api.calls.clear();
    let mut buckets = vec![];
    for j in 0..nb {
        api.outer_objects.insert(mk(50 + j as u8), res(bres[j]).into());
        let amount = if empty[j] == 1 { Decimal::ZERO } else { Decimal::from(5u32) };
        api.per_node.insert((mk(50 + j as u8), BUCKET_GET_AMOUNT_IDENT.to_string()), scrypto_encode(&amount).unwrap());
        buckets.push(Bucket(Own(mk(50 + j as u8))));
    }
    let input: Vec<NodeId> = buckets.iter().map(|b| b.0 .0).collect();
    let named = if bgiven == 1 { Some(badge(bkind, bid)) } else { None };
    let outcome = match variant {
        0 => AccountBlueprint::try_deposit_batch_or_refund(buckets, named.clone(), &mut api),
        1 => AccountBlueprintBottlenoseExtension::try_deposit_batch_or_refund(buckets, named.clone(), &mut api),
        _ => AccountBlueprint::try_deposit_batch_or_abort(buckets, named.clone(), &mut api).map(|_| None),
    };
    let puts = api.calls.iter().filter(|c| c.1 == VAULT_PUT_IDENT).count();
    let asserted: Vec<_> = api.calls.iter().filter(|c| c.1 == AUTH_ZONE_ASSERT_ACCESS_RULE_IDENT).collect();
    let rule_ok = asserted.iter().all(|c| {
        let input: AuthZoneAssertAccessRuleInput = scrypto_decode(&c.2).unwrap();
        named.as_ref().map_or(false, |b| {
            input.rule == AccessRule::Protected(CompositeRequirement::BasicRequirement(BasicRequirement::Require(b.clone())))
        })
    });
    let (kind, same) = match &outcome {
        Ok(None) => ("none", 1),
        Ok(Some(bs)) => ("some", (bs.iter().map(|b| b.0 .0).collect::<Vec<_>>() == input) as u8),
        Err(_) => ("err", 1),
    };
    format!("{} {} {} {} {}", kind, puts, (!asserted.is_empty()) as u8, rule_ok as u8, same)
}

/// worktop_run <op> <resource 0..2> <amount attos> {<present 0|1> <resource> <amount>}x2
/// The worktop holds up to two buckets (nodes 80, 81); `put` brings bucket 85 of <resource>/<amount>; a bucket split off by
/// `take` is node 90, a fresh empty bucket node 91. Runs the REAL WorktopBlueprint operation (through the verif dispatcher)
/// over the MockApi field store. Prints
/// `<ok|err> ret=<nodes returned,..> map=<res:node,..> put=<target:source,..> take=<source:amount,..> drop=<node,..>`.
fn worktop_run(a: &[&str]) -> String {
    use radix_common::prelude::*;
    use radix_engine::blueprints::resource::*;
    use radix_engine_interface::blueprints::resource::*;
    use radix_engine_interface::types::IndexedScryptoValue;
    let n = |t: &str| -> i64 { t.parse().unwrap() };
    let other_fungible = {
        let mut b = [3u8; NodeId::LENGTH];
        b[0] = EntityType::GlobalFungibleResourceManager as u8;
        ResourceAddress::new_or_panic(b)
    };
    let res = |r: i64| match r {
        0 => XRD,
        1 => other_fungible,
        _ => ACCOUNT_OWNER_BADGE,
    };
    let res_no = |r: &ResourceAddress| if *r == XRD { 0 } else if *r == other_fungible { 1 } else { 2 };
    let mk = |b: u8| {
        let mut x = [b; NodeId::LENGTH];
        x[0] = EntityType::InternalGenericComponent as u8;
        NodeId(x)
    };
    let node_no = |x: &NodeId| x.0[1] as i64;
    let (op, r, x) = (a[0], n(a[1]), dec(a[2]));
    let mut api = mock_api::MockApi::default();
    let mut worktop = WorktopSubstate::new();
    for i in 0..2usize {
        if n(a[3 + 3 * i]) == 1 {
            let node = mk(80 + i as u8);
            worktop.resources.insert(res(n(a[4 + 3 * i])), Own(node));
            api.outer_objects.insert(node, res(n(a[4 + 3 * i])).into());
            api.per_node.insert((node, BUCKET_GET_AMOUNT_IDENT.to_string()), scrypto_encode(&dec(a[5 + 3 * i])).unwrap());
        }
    }
    // optional id sets (non-fungible operations): after the two slots `<n> <ids of bucket 80..> <m> <ids asked for..>`
    let ids_of = |toks: &[&str]| -> IndexSet<NonFungibleLocalId> {
        toks.iter().map(|t| NonFungibleLocalId::integer(t.parse().unwrap())).collect()
    };
    let mut asked: IndexSet<NonFungibleLocalId> = IndexSet::default();
    if a.len() > 9 {
        let ne: usize = a[9].parse().unwrap();
        let held = ids_of(&a[10..10 + ne]);
        let nq: usize = a[10 + ne].parse().unwrap();
        asked = ids_of(&a[11 + ne..11 + ne + nq]);
        api.per_node.insert((mk(80), NON_FUNGIBLE_BUCKET_GET_NON_FUNGIBLE_LOCAL_IDS_IDENT.to_string()), scrypto_encode(&held).unwrap());
        api.defaults.insert(NON_FUNGIBLE_BUCKET_GET_NON_FUNGIBLE_LOCAL_IDS_IDENT.to_string(), scrypto_encode(&IndexSet::<NonFungibleLocalId>::default()).unwrap());
        api.defaults.insert(NON_FUNGIBLE_BUCKET_TAKE_NON_FUNGIBLES_IDENT.to_string(), scrypto_encode(&Bucket(Own(mk(92)))).unwrap());
    }
    api.fields.insert(0u8, scrypto_encode(&worktop).unwrap());
    api.outer_objects.insert(mk(85), res(r).into());
    api.per_node.insert((mk(85), BUCKET_GET_AMOUNT_IDENT.to_string()), scrypto_encode(&x).unwrap());
    api.defaults.insert(BUCKET_PUT_IDENT.to_string(), scrypto_encode(&()).unwrap());
    api.defaults.insert(BUCKET_TAKE_IDENT.to_string(), scrypto_encode(&Bucket(Own(mk(90)))).unwrap());
    api.defaults.insert(RESOURCE_MANAGER_CREATE_EMPTY_BUCKET_IDENT.to_string(), scrypto_encode(&Bucket(Own(mk(91)))).unwrap());
    api.defaults.insert(RESOURCE_MANAGER_DROP_EMPTY_BUCKET_IDENT.to_string(), scrypto_encode(&()).unwrap());
    let input = match op {
        "put" => IndexedScryptoValue::from_typed(&WorktopPutInput { bucket: Bucket(Own(mk(85))) }),
        "take" => IndexedScryptoValue::from_typed(&WorktopTakeInput { amount: x, resource_address: res(r) }),
        "take_all" => IndexedScryptoValue::from_typed(&WorktopTakeAllInput { resource_address: res(r) }),
        "take_non_fungibles" => {
            IndexedScryptoValue::from_typed(&WorktopTakeNonFungiblesInput { ids: asked.clone(), resource_address: res(r) })
        }
        "assert_contains_non_fungibles" => {
            IndexedScryptoValue::from_typed(&WorktopAssertContainsNonFungiblesInput { resource_address: res(r), ids: asked.clone() })
        }
        "assert_contains" => IndexedScryptoValue::from_typed(&WorktopAssertContainsInput { resource_address: res(r) }),
        "assert_contains_amount" => {
            IndexedScryptoValue::from_typed(&WorktopAssertContainsAmountInput { resource_address: res(r), amount: x })
        }
        _ => IndexedScryptoValue::from_typed(&WorktopDrainInput {}),
    };
    let out = verif_worktop_invoke(op, &input, &mut api);
    let after: WorktopSubstate = scrypto_decode(&api.fields[&0u8]).unwrap();
    let ret: Vec<i64> = match &out {
        Ok(v) => match op {
            "take" | "take_all" | "take_non_fungibles" => vec![node_no(&v.as_typed::<Bucket>().unwrap().0 .0)],
            "drain" => v.as_typed::<Vec<Own>>().unwrap().iter().map(|o| node_no(&o.0)).collect(),
            _ => vec![],
        },
        Err(_) => vec![],
    };
    let join = |v: Vec<String>| if v.is_empty() { "-".to_string() } else { v.join(",") };
    let map: Vec<String> = after.resources.iter().map(|(k, v)| format!("{}:{}", res_no(k), node_no(&v.0))).collect();
    let mut puts = vec![];
    let mut takes = vec![];
    let mut drops = vec![];
    for (recv, method, args) in api.calls.iter() {
        if method == BUCKET_PUT_IDENT {
            let i: BucketPutInput = scrypto_decode(args).unwrap();
            puts.push(format!("{}:{}", node_no(recv), node_no(&i.bucket.0 .0)));
        } else if method == BUCKET_TAKE_IDENT {
            let i: BucketTakeInput = scrypto_decode(args).unwrap();
            takes.push(format!("{}:{}", node_no(recv), i.amount.attos()));
        } else if method == RESOURCE_MANAGER_DROP_EMPTY_BUCKET_IDENT {
            let i: ResourceManagerDropEmptyBucketInput = scrypto_decode(args).unwrap();
            drops.push(format!("{}", node_no(&i.bucket.0 .0)));
        }
    }
    format!(
        "{} ret={} map={} put={} take={} drop={}",
        if out.is_ok() { "ok" } else { "err" },
        join(ret.iter().map(|x| x.to_string()).collect()),
        join(map),
        join(puts),
        join(takes),
        join(drops)
    )
}

/// pool1_contribute <bucket resource matches 0|1> <contribution attos> <reserves attos> <pool unit supply attos>
/// REAL OneResourcePoolBlueprint::contribute over the MockApi (state field, vault / bucket / resource-manager answers).
/// Prints `ok <minted attos> <vault put 0|1>` or `err`.
fn pool1_contribute(a: &[&str]) -> String {
    use radix_common::prelude::*;
    use radix_engine::blueprints::pool::v1::substates::one_resource_pool::*;
    use radix_engine_interface::blueprints::resource::*;
    use radix_native_sdk::resource::ResourceManager;
    let mk = |b: u8| {
        let mut x = [b; NodeId::LENGTH];
        x[0] = EntityType::InternalGenericComponent as u8;
        NodeId(x)
    };
    let other_fungible = {
        let mut b = [3u8; NodeId::LENGTH];
        b[0] = EntityType::GlobalFungibleResourceManager as u8;
        ResourceAddress::new_or_panic(b)
    };
    let pool_unit = {
        let mut b = [4u8; NodeId::LENGTH];
        b[0] = EntityType::GlobalFungibleResourceManager as u8;
        ResourceAddress::new_or_panic(b)
    };
    let (matches, c, r, supply) = (a[0] == "1", dec(a[1]), dec(a[2]), dec(a[3]));
    let mut api = mock_api::MockApi::default();
    let (vault, bucket, minted) = (mk(20), mk(21), mk(22));
    let state = VersionedOneResourcePoolState::from(OneResourcePoolStateVersions::V1(Substate {
        vault: Vault(Own(vault)),
        pool_unit_resource_manager: ResourceManager(pool_unit),
    }));
    api.fields.insert(0u8, scrypto_encode(&state).unwrap());
    api.outer_objects.insert(vault, XRD.into());
    api.outer_objects.insert(bucket, if matches { XRD.into() } else { other_fungible.into() });
    api.per_node.insert((vault, VAULT_GET_AMOUNT_IDENT.to_string()), scrypto_encode(&r).unwrap());
    api.per_node.insert((bucket, BUCKET_GET_AMOUNT_IDENT.to_string()), scrypto_encode(&c).unwrap());
    api.defaults.insert(RESOURCE_MANAGER_GET_TOTAL_SUPPLY_IDENT.to_string(), scrypto_encode(&Some(supply)).unwrap());
    api.defaults.insert(VAULT_PUT_IDENT.to_string(), scrypto_encode(&()).unwrap());
    api.defaults.insert(FUNGIBLE_RESOURCE_MANAGER_MINT_IDENT.to_string(), scrypto_encode(&Bucket(Own(minted))).unwrap());
    match OneResourcePoolBlueprint::contribute(Bucket(Own(bucket)), &mut api) {
        Ok(_) => {
            let mut m = "none".to_string();
            let mut put = 0;
            for (recv, method, args) in api.calls.iter() {
                if method == FUNGIBLE_RESOURCE_MANAGER_MINT_IDENT {
                    let i: FungibleResourceManagerMintInput = scrypto_decode(args).unwrap();
                    m = format!("{}", i.amount.attos());
                }
                if method == VAULT_PUT_IDENT && *recv == vault {
                    let i: VaultPutInput = scrypto_decode(args).unwrap();
                    if i.bucket.0 .0 == bucket {
                        put = 1;
                    }
                }
            }
            format!("ok {} {}", m, put)
        }
        Err(_) => "err".to_string(),
    }
}

/// pool2_run <divisibility hi> <divisibility lo> <reserves hi> <reserves lo> <pool unit supply> <ops...>
/// `hi` / `lo` = the pool resource with the larger / smaller address (vault1 / vault2 of the blueprint after its sort).
/// ops: `C <amount hi> <amount lo> <swap 0|1>` contribute two fresh buckets (swap = pass them in the other order), prints
/// `ok <minted> <deposited hi> <deposited lo> <change hi> <change lo>` or `err`; `R <units>` redeem freshly minted-like
/// units taken from the supply, prints `ok <returned hi> <returned lo>` or `err`. Runs the REAL TwoResourcePoolBlueprint
/// over the MockApi resource ledger.
fn pool2_run(a: &[&str]) -> String {
    use radix_common::prelude::*;
    use radix_engine::blueprints::pool::v1::substates::two_resource_pool::*;
    use radix_engine_interface::blueprints::resource::*;
    use radix_native_sdk::resource::ResourceManager;
    let fungible = |b: u8| {
        let mut x = [b; NodeId::LENGTH];
        x[0] = EntityType::GlobalFungibleResourceManager as u8;
        ResourceAddress::new_or_panic(x)
    };
    let (hi, lo, unit) = (fungible(9), fungible(3), fungible(5));
    let mk = |b: u8| {
        let mut x = [b; NodeId::LENGTH];
        x[0] = EntityType::InternalGenericComponent as u8;
        NodeId(x)
    };
    let mut api = mock_api::MockApi::default();
    api.ledger = true;
    api.divisibility.insert(hi.into(), a[0].parse().unwrap());
    api.divisibility.insert(lo.into(), a[1].parse().unwrap());
    let (vhi, vlo) = (mk(20), mk(21));
    api.amounts.insert(vhi, dec(a[2]));
    api.amounts.insert(vlo, dec(a[3]));
    api.outer_objects.insert(vhi, hi.into());
    api.outer_objects.insert(vlo, lo.into());
    api.supply.insert(unit.into(), dec(a[4]));
    let state = VersionedTwoResourcePoolState::from(TwoResourcePoolStateVersions::V1(Substate {
        vaults: [(lo, Vault(Own(vlo))), (hi, Vault(Own(vhi)))],
        pool_unit_resource_manager: ResourceManager(unit),
    }));
    api.fields.insert(0u8, scrypto_encode(&state).unwrap());
    let mut out: Vec<String> = vec![];
    let mut i = 5;
    let mut bucket_no = 100u8;
    while i < a.len() {
        match a[i] {
            "C" => {
                let (chi, clo, swap) = (dec(a[i + 1]), dec(a[i + 2]), a[i + 3] == "1");
                i += 4;
                let (bhi, blo) = (mk(bucket_no), mk(bucket_no + 1));
                bucket_no += 2;
                api.amounts.insert(bhi, chi);
                api.amounts.insert(blo, clo);
                api.outer_objects.insert(bhi, hi.into());
                api.outer_objects.insert(blo, lo.into());
                let (r0, r1) = (api.amounts[&vhi], api.amounts[&vlo]);
                let s0 = api.supply[&GlobalAddress::from(unit)];
                let buckets = if swap { (Bucket(Own(blo)), Bucket(Own(bhi))) } else { (Bucket(Own(bhi)), Bucket(Own(blo))) };
                match TwoResourcePoolBlueprint::contribute(buckets, &mut api) {
                    Ok((_units, change)) => {
                        let minted = api.supply[&GlobalAddress::from(unit)].checked_sub(s0).unwrap();
                        let (d0, d1) = (api.amounts[&vhi].checked_sub(r0).unwrap(), api.amounts[&vlo].checked_sub(r1).unwrap());
                        let (mut ch, mut cl) = (Decimal::ZERO, Decimal::ZERO);
                        if let Some(b) = change {
                            let amt = *api.amounts.get(&b.0 .0).unwrap_or(&Decimal::ZERO);
                            if api.outer_objects[&b.0 .0] == GlobalAddress::from(hi) {
                                ch = amt;
                            } else {
                                cl = amt;
                            }
                        }
                        out.push(format!("ok {} {} {} {} {}", minted.attos(), d0.attos(), d1.attos(), ch.attos(), cl.attos()));
                    }
                    Err(_) => out.push("err".into()),
                }
            }
            "R" => {
                let units = dec(a[i + 1]);
                i += 2;
                let b = mk(bucket_no);
                bucket_no += 1;
                api.amounts.insert(b, units);
                api.outer_objects.insert(b, unit.into());
                match TwoResourcePoolBlueprint::redeem(Bucket(Own(b)), &mut api) {
                    Ok((b1, b2)) => {
                        let (mut rh, mut rl) = (Decimal::ZERO, Decimal::ZERO);
                        for x in [b1, b2] {
                            let amt = *api.amounts.get(&x.0 .0).unwrap_or(&Decimal::ZERO);
                            if api.outer_objects[&x.0 .0] == GlobalAddress::from(hi) {
                                rh = amt;
                            } else {
                                rl = amt;
                            }
                        }
                        out.push(format!("ok {} {}", rh.attos(), rl.attos()));
                    }
                    Err(_) => out.push("err".into()),
                }
            }
            _ => return "bad-script".to_string(),
        }
    }
    out.join(" ")
}

/// next_round_run <stored milli> <stored minute> <epoch> <effective epoch start> <current round> <min rounds> <max rounds>
///                <target duration> <new round> <proposer timestamp> <n gap leaders> <leader index> <fallback 0|1>
/// REAL ConsensusManagerBlueprint::next_round over the MockApi field store (3 validators in the statistics). The epoch-change
/// path needs the validator set / rewards machinery, which is not set up: it shows as `panic`.
/// Prints `ok <epoch> <round> <effective start> <actual start> <made> <missed>` or `err`.
fn next_round_run(a: &[&str]) -> String {
    use radix_common::prelude::*;
    use radix_engine::blueprints::consensus_manager::*;
    use radix_engine_interface::blueprints::consensus_manager::*;
    let n = |i: usize| -> i128 { a[i].parse().unwrap() };
    let mut api = mock_api::MockApi::default();
    let put = |api: &mut mock_api::MockApi, f: ConsensusManagerField, bytes: Vec<u8>| {
        api.fields.insert(f.field_index(), bytes);
    };
    put(&mut api, ConsensusManagerField::ProposerMilliTimestamp, scrypto_encode(
        &ConsensusManagerProposerMilliTimestampFieldPayload::from_latest_version(ProposerMilliTimestampSubstate { epoch_milli: n(0) as i64 })).unwrap());
    put(&mut api, ConsensusManagerField::ProposerMinuteTimestamp, scrypto_encode(
        &ConsensusManagerProposerMinuteTimestampFieldPayload::from_latest_version(ProposerMinuteTimestampSubstate { epoch_minute: n(1) as i32 })).unwrap());
    let mut config = ConsensusManagerConfig::mainnet_genesis();
    config.epoch_change_condition = EpochChangeCondition {
        min_round_count: n(5) as u64,
        max_round_count: n(6) as u64,
        target_duration_millis: n(7) as u64,
    };
    put(&mut api, ConsensusManagerField::Configuration, scrypto_encode(
        &ConsensusManagerConfigurationFieldPayload::from_latest_version(ConsensusManagerConfigSubstate { config })).unwrap());
    put(&mut api, ConsensusManagerField::State, scrypto_encode(
        &ConsensusManagerStateFieldPayload::from_latest_version(ConsensusManagerSubstate {
            started: true,
            epoch: Epoch::of(n(2) as u64),
            effective_epoch_start_milli: n(3) as i64,
            actual_epoch_start_milli: n(3) as i64,
            round: Round::of(n(4) as u64),
            current_leader: None,
        })).unwrap());
    put(&mut api, ConsensusManagerField::CurrentProposalStatistic, scrypto_encode(
        &ConsensusManagerCurrentProposalStatisticFieldPayload::from_latest_version(CurrentProposalStatisticSubstate {
            validator_statistics: vec![ProposalStatistic { made: 0, missed: 0 }; 3],
        })).unwrap());
    let history = LeaderProposalHistory {
        gap_round_leaders: vec![0; n(10) as usize],
        current_leader: n(11) as ValidatorIndex,
        is_fallback: n(12) == 1,
    };
    match verif_next_round(Round::of(n(8) as u64), n(9) as i64, history, &mut api) {
        Ok(()) => {
            let st: ConsensusManagerStateFieldPayload =
                scrypto_decode(&api.fields[&ConsensusManagerField::State.field_index()]).unwrap();
            let st = st.fully_update_and_into_latest_version();
            let ps: ConsensusManagerCurrentProposalStatisticFieldPayload =
                scrypto_decode(&api.fields[&ConsensusManagerField::CurrentProposalStatistic.field_index()]).unwrap();
            let ps = ps.fully_update_and_into_latest_version();
            let made: u64 = ps.validator_statistics.iter().map(|x| x.made).sum();
            let missed: u64 = ps.validator_statistics.iter().map(|x| x.missed).sum();
            format!(
                "ok {} {} {} {} {} {}",
                st.epoch.number(),
                st.round.number(),
                st.effective_epoch_start_milli,
                st.actual_epoch_start_milli,
                made,
                missed
            )
        }
        Err(_) => "err".to_string(),
    }
}

/// nf_vault_lock <op lock|unlock> {<liquid 0|1> <lock count>}x3 <n ids> <ids (0..2)..>
/// REAL NonFungibleVaultBlueprint::{lock_non_fungibles, unlock_non_fungibles} over the MockApi (balance / locked fields and
/// the liquid id index are built with real payload types). Prints `ok|err {<liquid> <count>}x3`.
fn nf_vault_lock(a: &[&str]) -> String {
    use radix_common::prelude::*;
    use radix_engine::blueprints::resource::*;
    use radix_engine_interface::blueprints::resource::*;
    use radix_engine_interface::types::CollectionDescriptor;
    let n = |t: &str| -> usize { t.parse().unwrap() };
    let id = |k: usize| NonFungibleLocalId::integer(k as u64);
    let mut api = mock_api::MockApi::default();
    let mut locked: IndexMap<NonFungibleLocalId, usize> = IndexMap::default();
    let mut liquid_count = 0usize;
    let coll = NonFungibleVaultCollection::NonFungibleIndex.collection_index();
    for k in 0..3 {
        if n(a[1 + 2 * k]) == 1 {
            liquid_count += 1;
            api.index.insert(
                (coll, scrypto_encode(&id(k)).unwrap()),
                scrypto_encode(&NonFungibleVaultNonFungibleEntryPayload::from_latest_version(())).unwrap(),
            );
        }
        if n(a[2 + 2 * k]) > 0 {
            locked.insert(id(k), n(a[2 + 2 * k]));
        }
    }
    api.fields.insert(
        NonFungibleVaultField::Balance.field_index(),
        scrypto_encode(&NonFungibleVaultBalanceFieldPayload::from_latest_version(LiquidNonFungibleVault { amount: Decimal::from(liquid_count as u64) })).unwrap(),
    );
    api.fields.insert(
        NonFungibleVaultField::LockedResource.field_index(),
        scrypto_encode(&NonFungibleVaultLockedResourceFieldPayload::from_latest_version(LockedNonFungibleResource { ids: locked })).unwrap(),
    );
    let nq = n(a[7]);
    let ids: IndexSet<NonFungibleLocalId> = (0..nq).map(|j| id(n(a[8 + j]))).collect();
    let r = if a[0] == "lock" {
        NonFungibleVaultBlueprint::lock_non_fungibles(&ids, &mut api)
    } else {
        NonFungibleVaultBlueprint::unlock_non_fungibles(ids, &mut api)
    };
    let lk: NonFungibleVaultLockedResourceFieldPayload =
        scrypto_decode(&api.fields[&NonFungibleVaultField::LockedResource.field_index()]).unwrap();
    let lk = lk.fully_update_and_into_latest_version();
    let mut out = (if r.is_ok() { "ok" } else { "err" }).to_string();
    for k in 0..3 {
        let liq = api.index.contains_key(&(coll, scrypto_encode(&id(k)).unwrap()));
        out += &format!(" {} {}", liq as u8, lk.ids.get(&id(k)).copied().unwrap_or(0));
    }
    out
}

/// authzone_run <kind rule|amount> <rk 0 NF|1 Resource> <rr> <ri> <amount attos> <dcp_some> <dcp> <gck> <gca> <g zone|-1>
///              <n zones> { <parent zone|-1> <sim res> <impl res> <impl id> <n proofs> {<res> <amount> <id>}* }*
/// Zone 0 is the actor's own auth zone. Resources: 0 XRD, 1 ACCOUNT_OWNER_BADGE, 5 PACKAGE_OF_DIRECT_CALLER, 6 GLOBAL_CALLER,
/// 9 IDENTITY_OWNER_BADGE (stands for "none of the asked ones"). Runs the REAL Authorization::verify_proof_rule (Require /
/// AmountOf = the thin public wrappers of auth_zone_stack_matches_rule / auth_zone_stack_has_amount) over real AuthZone
/// substates behind the mock kernel. Prints `ok <0|1> <opened> <closed>` or `err`.
fn authzone_run(a: &[&str]) -> String {
    use radix_common::prelude::*;
    use radix_engine::blueprints::resource::AuthZone;
    use radix_engine::system::system_modules::auth::*;
    use radix_engine::system::system_substates::FieldSubstate;
    use radix_engine_interface::blueprints::resource::*;
    let res = |r: i64| match r {
        0 => XRD,
        1 => ACCOUNT_OWNER_BADGE,
        5 => PACKAGE_OF_DIRECT_CALLER_RESOURCE,
        6 => GLOBAL_CALLER_RESOURCE,
        _ => IDENTITY_OWNER_BADGE,
    };
    let pkg = |k: i64| match k {
        0 => PACKAGE_PACKAGE,
        1 => RESOURCE_PACKAGE,
        2 => ACCOUNT_PACKAGE,
        _ => IDENTITY_PACKAGE,
    };
    let gaddr = |k: i64| -> GlobalAddress {
        match k {
            0 => CONSENSUS_MANAGER.into(),
            1 => GENESIS_HELPER.into(),
            7 => FRAME_OWNED_GLOBAL_MARKER,
            _ => TRANSACTION_TRACKER.into(),
        }
    };
    let gcaller = |kind: i64, k: i64| -> GlobalCaller {
        if kind == 0 {
            GlobalCaller::GlobalObject(gaddr(k))
        } else {
            GlobalCaller::PackageBlueprint(BlueprintId::new(&ACCOUNT_PACKAGE, "Account"))
        }
    };
    let gid = |r: i64, i: i64| -> NonFungibleGlobalId {
        match r {
            5 => NonFungibleGlobalId::package_of_direct_caller_badge(pkg(i)),
            6 => NonFungibleGlobalId::global_caller_badge(if i == 2 { gcaller(1, 0) } else { gcaller(0, i) }),
            _ => NonFungibleGlobalId::new(res(r), NonFungibleLocalId::integer(i as u64)),
        }
    };
    let n = |t: &str| -> i64 { t.parse().unwrap() };
    let mk = |b: u8| {
        let mut x = [b; NodeId::LENGTH];
        x[0] = EntityType::InternalGenericComponent as u8;
        NodeId(x)
    };
    let zone_node = |z: i64| mk(10 + z as u8);
    let (kind, rk, rr, ri, amount) = (a[0], n(a[1]), n(a[2]), n(a[3]), dec(a[4]));
    let (dcp_some, dcp, gck, gca, gz) = (n(a[5]), n(a[6]), n(a[7]), n(a[8]), n(a[9]));
    let nz = n(a[10]);
    let mut i = 11;
    let mut api = mock_api::MockApi::default();
    let mut proof_no = 0u8;
    for z in 0..nz {
        let (parent, sr, ir, ii, np) = (n(a[i]), n(a[i + 1]), n(a[i + 2]), n(a[i + 3]), n(a[i + 4]));
        i += 5;
        let mut proofs = vec![];
        for _ in 0..np {
            let (pr, pa, pi) = (n(a[i]), dec(a[i + 1]), n(a[i + 2]));
            i += 3;
            let node = mk(100 + proof_no);
            proof_no += 1;
            api.outer_objects.insert(node, res(pr).into());
            api.per_node.insert((node, PROOF_GET_AMOUNT_IDENT.to_string()), scrypto_encode(&pa).unwrap());
            let ids: IndexSet<NonFungibleLocalId> = indexset!(NonFungibleLocalId::integer(pi as u64));
            api.per_node.insert((node, NON_FUNGIBLE_PROOF_GET_LOCAL_IDS_IDENT.to_string()), scrypto_encode(&ids).unwrap());
            proofs.push(Proof(Own(node)));
        }
        let mut sim = BTreeSet::new();
        sim.insert(res(sr));
        let mut implicit = BTreeSet::new();
        implicit.insert(gid(ir, ii));
        let zone = if z == 0 {
            AuthZone::new(
                proofs,
                sim,
                implicit,
                if dcp_some == 1 { Some(pkg(dcp)) } else { None },
                if gz >= 0 { Some((gcaller(gck, gca), Reference(zone_node(gz)))) } else { None },
                if parent >= 0 { Some(Reference(zone_node(parent))) } else { None },
            )
        } else {
            AuthZone::new(proofs, sim, implicit, None, None, if parent >= 0 { Some(Reference(zone_node(parent))) } else { None })
        };
        api.substates.insert(
            zone_node(z),
            radix_engine_interface::types::IndexedScryptoValue::from_typed(&FieldSubstate::new_unlocked_field(zone)),
        );
    }
    let rule = if kind == "amount" {
        BasicRequirement::AmountOf(amount, res(rr))
    } else if rk == 0 {
        BasicRequirement::Require(ResourceOrNonFungible::NonFungible(gid(rr, ri)))
    } else {
        BasicRequirement::Require(ResourceOrNonFungible::Resource(res(rr)))
    };
    match Authorization::verify_proof_rule(&zone_node(0), &rule, &mut api) {
        Ok(b) => format!("ok {} {} {}", if b { 1 } else { 0 }, api.handles.len(), api.closed.len()),
        Err(_) => "err".to_string(),
    }
}

/// auth_run <held0> <held1> <held2> <proof present 0|1> <proof amount attos> <access rule in prefix notation>
///   access rule: ALLOW | DENY | P <composite>
///   composite:   B <basic> | ANY n <composite>.. | ALL n <composite>..
///   basic:       REQ <ron> | AMT <attos> R<r> | CNT <k> n <ron>.. | BALL n <ron>.. | BANY n <ron>..
///   ron:         N<k> (non-fungible badge k, held iff held<k>) | R<r> (resource r; r = 0 is the proof's resource)
/// Runs the REAL Authorization::check_authorization_against_access_rule over a mock kernel whose caller auth zone
/// holds the badges as implicit proofs and (optionally) one fungible proof. Prints `ok 1|0` or `err`.
fn auth_run(a: &[&str]) -> String {
    use radix_common::prelude::*;
    use radix_engine::blueprints::resource::AuthZone;
    use radix_engine::system::system_modules::auth::*;
    use radix_engine::system::system_substates::FieldSubstate;
    use radix_engine_interface::blueprints::resource::*;
    let gid = |k: u64| NonFungibleGlobalId::new(ACCOUNT_OWNER_BADGE, NonFungibleLocalId::integer(k));
    let res = |r: &str| if r == "R0" { XRD } else { IDENTITY_OWNER_BADGE };
    fn ron(t: &str, gid: &dyn Fn(u64) -> NonFungibleGlobalId, res: &dyn Fn(&str) -> ResourceAddress) -> ResourceOrNonFungible {
        if let Some(k) = t.strip_prefix('N') {
            ResourceOrNonFungible::NonFungible(gid(k.parse().unwrap()))
        } else {
            ResourceOrNonFungible::Resource(res(t))
        }
    }
    fn rons(a: &[&str], i: &mut usize, gid: &dyn Fn(u64) -> NonFungibleGlobalId, res: &dyn Fn(&str) -> ResourceAddress) -> Vec<ResourceOrNonFungible> {
        let n: usize = a[*i].parse().unwrap();
        *i += 1;
        let mut v = vec![];
        for _ in 0..n {
            v.push(ron(a[*i], gid, res));
            *i += 1;
        }
        v
    }
    fn basic(a: &[&str], i: &mut usize, gid: &dyn Fn(u64) -> NonFungibleGlobalId, res: &dyn Fn(&str) -> ResourceAddress) -> BasicRequirement {
        let t = a[*i];
        *i += 1;
        match t {
            "REQ" => {
                *i += 1;
                BasicRequirement::Require(ron(a[*i - 1], gid, res))
            }
            "AMT" => {
                *i += 2;
                BasicRequirement::AmountOf(dec(a[*i - 2]), res(a[*i - 1]))
            }
            "CNT" => {
                let k: u8 = a[*i].parse().unwrap();
                *i += 1;
                BasicRequirement::CountOf(k, rons(a, i, gid, res))
            }
            "BALL" => BasicRequirement::AllOf(rons(a, i, gid, res)),
            _ => BasicRequirement::AnyOf(rons(a, i, gid, res)),
        }
    }
    fn composite(a: &[&str], i: &mut usize, gid: &dyn Fn(u64) -> NonFungibleGlobalId, res: &dyn Fn(&str) -> ResourceAddress) -> CompositeRequirement {
        let t = a[*i];
        *i += 1;
        match t {
            "B" => CompositeRequirement::BasicRequirement(basic(a, i, gid, res)),
            _ => {
                let n: usize = a[*i].parse().unwrap();
                *i += 1;
                let mut v = vec![];
                for _ in 0..n {
                    v.push(composite(a, i, gid, res));
                }
                if t == "ANY" {
                    CompositeRequirement::AnyOf(v)
                } else {
                    CompositeRequirement::AllOf(v)
                }
            }
        }
    }
    let mut i = 5;
    let rule = match a[i] {
        "ALLOW" => AccessRule::AllowAll,
        "DENY" => AccessRule::DenyAll,
        _ => {
            i += 1;
            AccessRule::Protected(composite(a, &mut i, &gid, &res))
        }
    };
    let mk = |b: u8| {
        let mut n = [b; NodeId::LENGTH];
        n[0] = EntityType::InternalGenericComponent as u8;
        NodeId(n)
    };
    let (zone_a, zone_p, proof_node) = (mk(1), mk(2), mk(3));
    let mut implicit = BTreeSet::new();
    for k in 0..3u64 {
        if a[k as usize] == "1" {
            implicit.insert(gid(k));
        }
    }
    let proofs = if a[3] == "1" { vec![Proof(Own(proof_node))] } else { vec![] };
    let parent = AuthZone::new(proofs, BTreeSet::new(), implicit, None, None, None);
    let current = AuthZone::new(vec![], BTreeSet::new(), BTreeSet::new(), None, None, Some(Reference(zone_p)));
    let mut api = mock_api::MockApi::default();
    api.substates.insert(zone_a, radix_engine_interface::types::IndexedScryptoValue::from_typed(&FieldSubstate::new_unlocked_field(current)));
    api.substates.insert(zone_p, radix_engine_interface::types::IndexedScryptoValue::from_typed(&FieldSubstate::new_unlocked_field(parent)));
    api.defaults.insert(PROOF_GET_RESOURCE_ADDRESS_IDENT.to_string(), scrypto_encode(&XRD).unwrap());
    api.defaults.insert(PROOF_GET_AMOUNT_IDENT.to_string(), scrypto_encode(&dec(a[4])).unwrap());
    match Authorization::check_authorization_against_access_rule(&mut api, &zone_a, &rule) {
        Ok(AuthorizationCheckResult::Authorized) => "ok 1".to_string(),
        Ok(AuthorizationCheckResult::Failed(_)) => "ok 0".to_string(),
        Err(_) => "err".to_string(),
    }
}

fn run(a: &[&str]) -> String {
    match a[0] {
        "epoch_change" => {
            use radix_engine_interface::blueprints::consensus_manager::*;
            let c = EpochChangeCondition {
                min_round_count: a[1].parse().unwrap(),
                max_round_count: a[2].parse().unwrap(),
                target_duration_millis: a[3].parse().unwrap(),
            };
            match c.should_epoch_change(a[4].parse().unwrap(), a[5].parse().unwrap(), radix_common::types::Round::of(a[6].parse().unwrap())) {
                EpochChangeOutcome::NoChange => "none".to_string(),
                EpochChangeOutcome::Change { next_epoch_effective_start_millis } => format!("some {}", next_epoch_effective_start_millis),
            }
        }
        "msg_v2" => {
            // msg_v2 <max plain> <max enc> <max mime> <max decryptors> <kind 0 none|1 plaintext|2 encrypted> <mime len>
            //        <contents 0 string|1 bytes> <message len> <encrypted len> <n entries> {<key curve> <value curve> <count>}*
            use radix_common::prelude::*;
            use radix_transactions::model::*;
            use radix_transactions::validation::*;
            let n = |i: usize| -> usize { a[i].parse().unwrap() };
            let mut config = TransactionValidationConfig::latest();
            config.message_validation = MessageValidationConfig {
                max_plaintext_message_length: n(1),
                max_encrypted_message_length: n(2),
                max_mime_type_length: n(3),
                max_decryptors: n(4),
            };
            let v = TransactionValidator::new_with_static_config_network_agnostic(config);
            let curve = |k: usize| if k == 0 { CurveType::Ed25519 } else { CurveType::Secp256k1 };
            let message = match n(5) {
                0 => MessageV2::None,
                1 => MessageV2::Plaintext(PlaintextMessageV1 {
                    mime_type: "m".repeat(n(6)),
                    message: if n(7) == 0 { MessageContentsV1::String("x".repeat(n(8))) } else { MessageContentsV1::Bytes(vec![1u8; n(8)]) },
                }),
                _ => {
                    let mut by_curve: IndexMap<CurveType, DecryptorsByCurveV2> = IndexMap::default();
                    for e in 0..n(10) {
                        let (kc, vc, cnt) = (n(11 + 3 * e), n(12 + 3 * e), n(13 + 3 * e));
                        let mut decryptors = IndexMap::default();
                        for j in 0..cnt {
                            let mut f = [0u8; 8];
                            f[0..8].copy_from_slice(&(j as u64).to_be_bytes());
                            decryptors.insert(PublicKeyFingerprint(f), AesWrapped256BitKey([0u8; AesWrapped256BitKey::LENGTH]));
                        }
                        let d = if vc == 0 {
                            DecryptorsByCurveV2::Ed25519 { dh_ephemeral_public_key: Ed25519PublicKey([0u8; 32]), decryptors }
                        } else {
                            DecryptorsByCurveV2::Secp256k1 { dh_ephemeral_public_key: Secp256k1PublicKey([0u8; 33]), decryptors }
                        };
                        by_curve.insert(curve(kc), d);
                    }
                    MessageV2::Encrypted(EncryptedMessageV2 { encrypted: AesGcmPayload(vec![0u8; n(9)]), decryptors_by_curve: by_curve })
                }
            };
            match v.validate_message_v2(&message) {
                Ok(()) => "ok 0".to_string(),
                Err(_) => "err".to_string(),
            }
        }
        "cm_compare" | "cm_get_time" => {
            // cm_compare <stored milli> <stored minute> <precision 0 minute|1 second> <other seconds> <op 0 eq|1 lt|2 lte|3 gt|4 gte>
            // cm_get_time <stored milli> <stored minute> <precision>
            use radix_common::prelude::*;
            use radix_engine::blueprints::consensus_manager::*;
            use radix_engine_interface::blueprints::consensus_manager::*;
            let mut api = mock_api::MockApi::default();
            api.fields.insert(ConsensusManagerField::ProposerMilliTimestamp.field_index(), scrypto_encode(
                &ConsensusManagerProposerMilliTimestampFieldPayload::from_latest_version(ProposerMilliTimestampSubstate { epoch_milli: a[1].parse().unwrap() })).unwrap());
            api.fields.insert(ConsensusManagerField::ProposerMinuteTimestamp.field_index(), scrypto_encode(
                &ConsensusManagerProposerMinuteTimestampFieldPayload::from_latest_version(ProposerMinuteTimestampSubstate { epoch_minute: a[2].parse().unwrap() })).unwrap());
            let precision = if a[3] == "0" { TimePrecisionV2::Minute } else { TimePrecisionV2::Second };
            if a[0] == "cm_get_time" {
                match verif_get_current_time_v2(precision, &mut api) {
                    Ok(i) => format!("ok {}", i.seconds_since_unix_epoch),
                    Err(_) => "err".to_string(),
                }
            } else {
                let op = match a[5] {
                    "0" => TimeComparisonOperator::Eq,
                    "1" => TimeComparisonOperator::Lt,
                    "2" => TimeComparisonOperator::Lte,
                    "3" => TimeComparisonOperator::Gt,
                    _ => TimeComparisonOperator::Gte,
                };
                match verif_compare_current_time_v2(Instant::new(a[4].parse().unwrap()), precision, op, &mut api) {
                    Ok(b) => format!("ok {}", b as u8),
                    Err(_) => "err".to_string(),
                }
            }
        }
        "auth_run" => auth_run(&a[1..]),
        "nf_vault_lock" => nf_vault_lock(&a[1..]),
        "tracker_update" => tracker_update(&a[1..]),
        "next_round_run" => next_round_run(&a[1..]),
        "pool2_run" => pool2_run(&a[1..]),
        "pool1_contribute" => pool1_contribute(&a[1..]),
        "worktop_run" => worktop_run(&a[1..]),
        "account_batch" => account_batch(&a[1..]),
        "account_run" => account_run(&a[1..]),
        "intent_tree" => intent_tree::run(&a[1..]),
        "authzone_run" => authzone_run(&a[1..]),
        "vault_lock" => vault_lock(&a[1..]),
        "redeem_value" | "stake_roundtrip" => validator_ops(a),
        "cm_time" => cm_time(&a[1..]),
        "ac_run" => ac_run(&a[1..]),
        "tsv" => tsv(&a[1..]),
        "limits_io" | "limits_key" => limits_ops(a),
        "header_v1" | "header_v2_tx" | "header_v2_intent" => header_ops(a),
        "nf_run" => nf_run(&a[1..]),
        "read_memory" => match radix_engine::vm::wasm::verif_read_memory(
            a[1].parse().unwrap(),
            a[2].parse().unwrap(),
            a[3].parse().unwrap(),
        ) {
            Ok(n) => format!("ok {}", n),
            Err(()) => "err".to_string(),
        },
        "write_memory" => match radix_engine::vm::wasm::verif_write_memory(
            a[1].parse().unwrap(),
            a[2].parse().unwrap(),
            a[3].parse().unwrap(),
        ) {
            Ok(()) => "ok 0".to_string(),
            Err(()) => "err".to_string(),
        },
        "fee_run" => fee_run(&a[1..]),
        "locks_run" => locks_run(&a[1..]),
        "pool1_owed" => rd(verif_one_resource_pool_calculate_amount_owed(
            dec(a[1]),
            dec(a[2]),
            dec(a[3]),
            a[4].parse().unwrap(),
        )),
        "pool2_owed" => rd(verif_two_resource_pool_calculate_amount_owed(
            dec(a[1]),
            dec(a[2]),
            dec(a[3]),
            a[4].parse().unwrap(),
        )),
        "pooln_owed" => rd(verif_multi_resource_pool_calculate_amount_owed(
            dec(a[1]),
            dec(a[2]),
            dec(a[3]),
            a[4].parse().unwrap(),
        )),
        "stake_units" => rd(verif_calculate_stake_unit_amount(dec(a[1]), dec(a[2]), dec(a[3]))),
        "sort_prefix" => match verif_create_sort_prefix_from_stake(dec(a[1])) {
            Ok(b) => format!("ok {}", u16::from_be_bytes(b)),
            Err(_) => "err".to_string(),
        },
        "milli_to_minute" => match verif_milli_to_minute(a[1].parse().unwrap()) {
            Some(m) => format!("some {}", m),
            None => "none".to_string(),
        },
        _ => "unknown-op".to_string(),
    }
}

fn main() {
    std::panic::set_hook(Box::new(|_| {}));
    let stdin = std::io::stdin();
    for line in stdin.lock().lines() {
        let line = line.unwrap();
        let a: Vec<&str> = line.split_whitespace().collect();
        if a.is_empty() {
            continue;
        }
        let r = std::panic::catch_unwind(|| run(&a));
        match r {
            Ok(s) => println!("{}", s),
            Err(e) => {
                let m = e
                    .downcast_ref::<String>()
                    .cloned()
                    .or_else(|| e.downcast_ref::<&str>().map(|s| s.to_string()))
                    .unwrap_or_default();
                println!("panic {}", m.replace('\n', " "))
            }
        }
    }
}
